"""Virtual-time event loop for API-level checks (no network).

`VLoop.time()` is a virtual clock.  The selector never blocks: when nothing is ready it jumps the clock
to the next scheduled timer, so `asyncio.sleep(d)` costs `d` virtual seconds and no wall time, and a
timer fires at exactly its deadline (times are kept on a dyadic grid by the callers, so float
arithmetic on them is exact).
"""
import asyncio
import selectors


class VirtualDeadlock(RuntimeError):
    pass


class _VSelector:
    def __init__(self):
        self._sel = selectors.DefaultSelector()
        self.loop = None

    def select(self, timeout=None):
        ev = self._sel.select(0)
        if ev:
            return ev
        loop = self.loop
        if timeout is None:
            # nothing ready, no timer armed: every task is blocked for ever
            raise VirtualDeadlock("virtual loop: nothing ready and no timer armed")
        if timeout > 0:
            sched = loop._scheduled
            if sched:
                when = sched[0]._when
                if when > loop._vt:
                    loop._vt = when
        return []

    def __getattr__(self, name):
        return getattr(self._sel, name)


class VLoop(asyncio.SelectorEventLoop):
    def __init__(self):
        sel = _VSelector()
        super().__init__(sel)
        sel.loop = self
        self._vt = 0.0

    def time(self):
        return self._vt

    def set_time(self, t):
        self._vt = float(t)


def run(coro, loop=None, at=0.0):
    """run `coro` to completion on a (fresh or reused) virtual loop starting at virtual time `at`"""
    own = loop is None
    if own:
        loop = VLoop()
    loop.set_time(at)
    try:
        return loop.run_until_complete(coro)
    finally:
        if own:
            loop.close()
