"""Translator, transfer part (C01): the *shape* of the STOR/RETR workers and of the block iterator, read from
the ast of the live source and written to lean/AioftpModel/Generated/Transfer.lean.

Local variable names are normalised to roles (the variable bound to `connection.data_connection` is `stream`,
the one bound to `connection.path_io.open(...)` is `file`, the loop variable is `data`, reply texts are
dropped), so renaming a variable or rewording a reply does not change the table, while reordering the
`async with` items, moving the 226 into the `async with`, dropping/altering the seek, the mode selection, the
block size expression or the iterator's stop test does.
"""
import ast
import sys

try:
    from .extract import lean_list, lean_str
except ImportError:  # run as a script
    from extract import lean_list, lean_str  # type: ignore


def _src(modname):
    import aioftp  # noqa
    import aioftp.server, aioftp.common, aioftp.pathio  # noqa

    mod = sys.modules[modname]
    with open(mod.__file__) as f:
        return f.read()


def _find_func(tree, qual):
    """qual = 'Server.stor.stor_worker' -> the (Async)FunctionDef node"""
    node = tree
    for name in qual.split("."):
        found = None
        for ch in ast.walk(node):
            if ch is node:
                continue
            if isinstance(ch, (ast.ClassDef, ast.FunctionDef, ast.AsyncFunctionDef)) and ch.name == name:
                found = ch
                break
        if found is None:
            raise LookupError("translator: cannot find %s in %s" % (name, qual))
        node = found
    return node


class _Rename(ast.NodeTransformer):
    def __init__(self, mapping):
        self.mapping = mapping

    def visit_Name(self, node):
        if node.id in self.mapping:
            return ast.copy_location(ast.Name(id=self.mapping[node.id], ctx=node.ctx), node)
        return node

    def visit_Call(self, node):
        self.generic_visit(node)
        # connection.response("226", "text") -> connection.response("226")
        f = node.func
        if isinstance(f, ast.Attribute) and f.attr == "response" and node.args and isinstance(node.args[0], ast.Constant):
            return ast.copy_location(ast.Call(func=f, args=[node.args[0]], keywords=[]), node)
        return node


def _unparse_lines(stmts, mapping):
    out = []
    for st in stmts:
        import copy

        st2 = _Rename(mapping).visit(copy.deepcopy(st))
        ast.fix_missing_locations(st2)
        out += ast.unparse(st2).split("\n")
    return out


def _response_codes(stmts):
    codes = []
    for st in stmts:
        for n in ast.walk(st):
            if (
                isinstance(n, ast.Call)
                and isinstance(n.func, ast.Attribute)
                and n.func.attr == "response"
                and n.args
                and isinstance(n.args[0], ast.Constant)
                and str(n.args[0].value).isdigit()
            ):
                codes.append(int(n.args[0].value))
    return codes


def worker_shape(tree, qual):
    fn = _find_func(tree, qual)
    mapping = {}
    open_call = None
    mode_var = None
    for st in fn.body:
        if isinstance(st, ast.Assign) and len(st.targets) == 1 and isinstance(st.targets[0], ast.Name):
            v = st.value
            name = st.targets[0].id
            if isinstance(v, ast.Attribute) and v.attr == "data_connection":
                mapping[name] = "stream"
            if isinstance(v, ast.Call) and isinstance(v.func, ast.Attribute) and v.func.attr == "open":
                mapping[name] = "file"
                open_call = v
    if open_call is None or "stream" not in mapping.values():
        raise LookupError("translator: %s: no open()/data_connection assignment found" % qual)
    # mode expression of the open call
    mode_expr = None
    for k in open_call.keywords:
        if k.arg == "mode":
            mode_expr = k.value
    if mode_expr is None and len(open_call.args) > 1:
        mode_expr = open_call.args[1]
    mode_sel = None
    if isinstance(mode_expr, ast.Constant):
        mode_sel = ("", repr(mode_expr.value), repr(mode_expr.value))
    elif isinstance(mode_expr, ast.IfExp):
        mode_sel = (ast.unparse(mode_expr.test), ast.unparse(mode_expr.body), ast.unparse(mode_expr.orelse))
    elif isinstance(mode_expr, ast.Name):
        mode_var = mode_expr.id
        for st in fn.body:
            if isinstance(st, ast.If):
                def assigned(stmts):
                    vals = [s.value for s in stmts if isinstance(s, ast.Assign) and isinstance(s.targets[0], ast.Name) and s.targets[0].id == mode_var]
                    return vals[0] if len(vals) == 1 and len(stmts) == 1 else None

                a, b = assigned(st.body), assigned(st.orelse)
                if a is not None and b is not None:
                    mode_sel = (ast.unparse(st.test), ast.unparse(a), ast.unparse(b))
            if isinstance(st, ast.Assign) and isinstance(st.targets[0], ast.Name) and st.targets[0].id == mode_var and isinstance(st.value, ast.IfExp):
                v = st.value
                mode_sel = (ast.unparse(v.test), ast.unparse(v.body), ast.unparse(v.orelse))
        if mode_sel is None:
            # plain parameter of the enclosing function
            mode_sel = ("", mode_var, mode_var)
    if mode_sel is None:
        raise LookupError("translator: %s: cannot read the open mode" % qual)
    withs = [(i, st) for i, st in enumerate(fn.body) if isinstance(st, ast.AsyncWith)]
    if len(withs) != 1:
        raise LookupError("translator: %s: expected exactly one top-level `async with`" % qual)
    idx, w = withs[0]
    items = []
    for it in w.items:
        e = it.context_expr
        items.append(mapping.get(e.id, e.id) if isinstance(e, ast.Name) else ast.unparse(e))
    # loop variable -> data
    for n in ast.walk(w):
        if isinstance(n, ast.AsyncFor) and isinstance(n.target, ast.Name):
            mapping[n.target.id] = "data"
    body = _unparse_lines(w.body, mapping)
    after = []
    for st in fn.body[idx + 1 :]:
        codes = _response_codes([st])
        if isinstance(st, ast.Expr) and codes:
            after.append("response:%d" % codes[0])
        elif isinstance(st, ast.Return):
            after.append("return:" + (ast.unparse(st.value) if st.value is not None else "None"))
        else:
            after += _unparse_lines([st], mapping)
    before_codes = _response_codes(fn.body[:idx])
    inside = _response_codes(w.body)
    return {"mode": mode_sel, "items": items, "body": body, "after": after, "inside": inside, "before": before_codes}


def handler_mode_default(tree, meth, param="mode"):
    fn = _find_func(tree, "Server." + meth)
    args = fn.args
    names = [a.arg for a in args.args]
    defaults = args.defaults
    off = len(names) - len(defaults)
    for i, n in enumerate(names):
        if n == param and i >= off:
            d = defaults[i - off]
            if isinstance(d, ast.Constant):
                return d.value
    raise LookupError("translator: Server.%s has no constant default for %s" % (meth, param))


def appe_mode(tree):
    fn = _find_func(tree, "Server.appe")
    for n in ast.walk(fn):
        if isinstance(n, ast.Call) and isinstance(n.func, ast.Attribute) and n.func.attr == "stor":
            for a in n.args:
                if isinstance(a, ast.Constant) and isinstance(a.value, str) and a.value.endswith("b"):
                    return a.value
            for k in n.keywords:
                if k.arg == "mode" and isinstance(k.value, ast.Constant):
                    return k.value.value
    raise LookupError("translator: Server.appe does not delegate to stor with a literal mode")


def iterator_next(tree):
    fn = _find_func(tree, "AsyncStreamIterator.__anext__")
    mapping = {}
    for st in fn.body:
        if isinstance(st, ast.Assign) and isinstance(st.targets[0], ast.Name) and isinstance(st.value, ast.Await):
            mapping[st.targets[0].id] = "data"
    return _unparse_lines(fn.body, mapping)


def iter_by_block_expr(tree, cls):
    fn = _find_func(tree, cls + ".iter_by_block")
    rets = [st for st in fn.body if isinstance(st, ast.Return)]
    if len(rets) != 1:
        raise LookupError("translator: %s.iter_by_block: expected one return" % cls)
    param = [a.arg for a in fn.args.args if a.arg != "self"]
    mp = {param[0]: "count"} if param else {}
    import copy

    e = _Rename(mp).visit(copy.deepcopy(rets[0].value))
    return ast.unparse(e)


def gen_transfer():
    st = ast.parse(_src("aioftp.server"))
    ct = ast.parse(_src("aioftp.common"))
    pt = ast.parse(_src("aioftp.pathio"))
    stor = worker_shape(st, "Server.stor.stor_worker")
    retr = worker_shape(st, "Server.retr.retr_worker")
    L = []
    L.append("/- GENERATED by harness/extract_transfer.py from /repo/src/aioftp/{server,common,pathio}.py. Do not edit. -/")
    L.append("namespace Generated")
    L.append("namespace Transfer")
    L.append("")
    L.append("/-- default of `stor(self, connection, rest, mode=…)` and the literal `appe` passes to it -/")
    L.append("def storDefaultMode : String := %s" % lean_str(handler_mode_default(st, "stor")))
    L.append("def appeMode : String := %s" % lean_str(appe_mode(st)))
    for nm, sh in (("stor", stor), ("retr", retr)):
        L.append("")
        L.append("/-- %s_worker: open mode = (test, value when the test is truthy, value otherwise); test \"\" = unconditional -/" % nm)
        L.append("def %sModeSel : String × String × String := (%s, %s, %s)" % ((nm,) + tuple(lean_str(x) for x in sh["mode"])))
        L.append("/-- %s_worker: items of the single `async with`, by role, in source order (entered left to right, exited right to left) -/" % nm)
        L.append("def %sWithItems : List String := [%s]" % (nm, ", ".join(lean_str(x) for x in sh["items"])))
        L.append("/-- %s_worker: body of the `async with`, variables renamed to roles -/" % nm)
        L.append("def %sWithBody : List String := %s" % (nm, lean_list([lean_str(x) for x in sh["body"]], 1)))
        L.append("/-- %s_worker: statements after the `async with` (same block) -/" % nm)
        L.append("def %sAfterWith : List String := [%s]" % (nm, ", ".join(lean_str(x) for x in sh["after"])))
        L.append("/-- %s_worker: reply codes queued before / inside the `async with` -/" % nm)
        L.append("def %sRepliesBeforeWith : List Nat := [%s]" % (nm, ", ".join(str(c) for c in sh["before"])))
        L.append("def %sRepliesInsideWith : List Nat := [%s]" % (nm, ", ".join(str(c) for c in sh["inside"])))
    L.append("")
    L.append("/-- `AsyncStreamIterator.__anext__`, the awaited value renamed to `data` -/")
    L.append("def iteratorNext : List String := %s" % lean_list([lean_str(x) for x in iterator_next(ct)], 1))
    L.append("/-- `ThrottleStreamIO.iter_by_block(count)` / `AsyncPathIOContext.iter_by_block(count)` return expressions -/")
    L.append("def streamIterByBlock : String := %s" % lean_str(iter_by_block_expr(ct, "ThrottleStreamIO")))
    L.append("def fileIterByBlock : String := %s" % lean_str(iter_by_block_expr(pt, "AsyncPathIOContext")))
    # what closing a stream does: the writer's own close() flushes what is buffered before the socket goes; anything
    # else here (abort(), a transport call, a condition) decides whether the tail of a download arrives
    close_fn = _find_func(ct, "StreamIO.close")
    body = [x for x in close_fn.body if not (isinstance(x, ast.Expr) and isinstance(x.value, ast.Constant) and isinstance(x.value.value, str))]
    L.append("/-- the statements of `StreamIO.close` (docstring dropped) -/")
    L.append("def streamCloseBody : List String := %s" % lean_list([lean_str(l) for x in body for l in ast.unparse(x).splitlines()], 1))
    L.append("")
    L.append("end Transfer")
    L.append("end Generated")
    return "\n".join(L) + "\n"


GENERATORS = {"Transfer.lean": gen_transfer}

if __name__ == "__main__":
    print(gen_transfer())
