"""Translator, login/logging part (C20): which methods of server.py write `connection.user` /
`connection.logged`, and every expression of `Server.pass_` that mentions its `rest` argument.
Declarative facts only; closed by `decide` in Properties/C20.lean."""
import ast
import os
import sys

try:
    from .extract import lean_list, lean_str
except ImportError:  # run as a script
    from extract import lean_list, lean_str  # type: ignore


def _server_tree():
    import aioftp.server  # noqa

    path = sys.modules["aioftp.server"].__file__
    with open(path) as f:
        return ast.parse(f.read())


def _is_conn_attr(node, names):
    return (
        isinstance(node, ast.Attribute)
        and isinstance(node.value, ast.Name)
        and node.value.id == "connection"
        and node.attr in names
    )


def login_state_writers(tree):
    out = []
    for cls in [n for n in tree.body if isinstance(n, ast.ClassDef)]:
        for fn in [n for n in cls.body if isinstance(n, (ast.FunctionDef, ast.AsyncFunctionDef))]:
            for n in ast.walk(fn):
                targets = []
                if isinstance(n, ast.Assign):
                    targets = n.targets
                elif isinstance(n, (ast.AugAssign, ast.AnnAssign)):
                    targets = [n.target]
                elif isinstance(n, ast.Delete):
                    targets = n.targets
                flat = []
                for t in targets:
                    flat += list(t.elts) if isinstance(t, (ast.Tuple, ast.List)) else [t]
                for t in flat:
                    for sub in [t.value if isinstance(t, ast.Starred) else t]:
                        if _is_conn_attr(sub, ("user", "logged")):
                            kind = "del" if isinstance(n, ast.Delete) else "set"
                            out.append(("%s.%s" % (cls.name, fn.name), kind, sub.attr))
                # setattr(connection, "user", ...) / connection["user"] = ...
                if isinstance(n, ast.Call) and isinstance(n.func, ast.Name) and n.func.id in ("setattr", "delattr"):
                    if n.args and isinstance(n.args[0], ast.Name) and n.args[0].id == "connection":
                        out.append(("%s.%s" % (cls.name, fn.name), n.func.id, ast.unparse(n.args[1]) if len(n.args) > 1 else "?"))
    return out


def pass_rest_uses(tree):
    """smallest enclosing statement-level expressions of `pass_` in which the name `rest` occurs"""
    uses = []
    for cls in [n for n in tree.body if isinstance(n, ast.ClassDef) and n.name == "Server"]:
        for fn in [n for n in cls.body if isinstance(n, (ast.FunctionDef, ast.AsyncFunctionDef)) and n.name == "pass_"]:
            def visit(node, innermost_call):
                for child in ast.iter_child_nodes(node):
                    ic = innermost_call
                    if isinstance(child, ast.Call):
                        ic = child
                    if isinstance(child, ast.Name) and child.id == "rest":
                        uses.append(ast.unparse(ic) if ic is not None else "<bare> " + ast.unparse(node))
                    visit(child, ic)

            for stmt in fn.body:
                visit(stmt, None)
    return uses


def client_command_rejects():
    """characters whose presence in `command` makes `BaseClient.command` raise BEFORE its first logging call
    or stream write: `if "<c>" in command [or …]: raise …` at the top of the `if command:` block"""
    import aioftp.client  # noqa

    with open(sys.modules["aioftp.client"].__file__) as f:
        tree = ast.parse(f.read())
    out = []
    for cls in [n for n in tree.body if isinstance(n, ast.ClassDef) and n.name == "BaseClient"]:
        for fn in [n for n in cls.body if isinstance(n, ast.AsyncFunctionDef) and n.name == "command"]:
            for top in fn.body:
                if isinstance(top, ast.If) and isinstance(top.test, ast.Name) and top.test.id == "command":
                    for st in top.body:
                        # stop at the first statement that logs or writes
                        src = ast.unparse(st)
                        if isinstance(st, ast.If) and st.body and isinstance(st.body[0], ast.Raise) and not st.orelse:
                            tests = st.test.values if isinstance(st.test, ast.BoolOp) and isinstance(st.test.op, ast.Or) else [st.test]
                            for t in tests:
                                if (
                                    isinstance(t, ast.Compare)
                                    and len(t.ops) == 1
                                    and isinstance(t.ops[0], ast.In)
                                    and isinstance(t.left, ast.Constant)
                                    and isinstance(t.left.value, str)
                                    and len(t.left.value) == 1
                                    and isinstance(t.comparators[0], ast.Name)
                                    and t.comparators[0].id == "command"
                                ):
                                    out.append(t.left.value)
                            continue
                        if "logger." in src or ".write(" in src:
                            break
    return out


def gen_logs():
    tree = _server_tree()
    rej = client_command_rejects()
    w = login_state_writers(tree)
    u = pass_rest_uses(tree)
    lines = [
        "/- GENERATED by harness/extract_logs.py from /repo/src/aioftp/server.py. Do not edit. -/",
        "namespace Generated",
        "",
        "/-- every statement that assigns or deletes `connection.user` / `connection.logged`: (method, kind, attribute) -/",
        "def loginStateWriters : List (String × String × String) := %s"
        % lean_list(["(%s, %s, %s)" % (lean_str(a), lean_str(b), lean_str(c)) for a, b, c in w], 1),
        "",
        "/-- every call expression of `Server.pass_` in which its argument `rest` occurs -/",
        "def passRestUses : List String := %s" % lean_list([lean_str(x) for x in u], 1),
        "",
        "/-- characters that make `BaseClient.command` raise ValueError before it logs or sends anything -/",
        "def clientCommandRejects : List Char := [%s]" % ", ".join("Char.ofNat %d" % ord(c) for c in rej),
        "",
        "end Generated",
        "",
    ]
    return "\n".join(lines)


GENERATORS = {"Logs.lean": gen_logs}

if __name__ == "__main__":
    print(gen_logs())
