"""A peer that is not aioftp: a small scripted FTP server on the simulated network.

The client-side halves of the properties (reply decoding, LIST parsing, the stat fallback, the tree
operations, abort(), the log censor) are exercised by aioftp's own server only with the handful of
spellings that server happens to use.  RFC 959 / 3659 allow many more, and real servers use them: multi-line
replies whose body lines repeat the code, or are raw text, or start with digits; MLSD with the `cdir`/`pdir`
entries; no MLSD/MLST at all and an `ls -la` or an IIS `dir` listing; symbolic links; a 421 at any moment.
`ForeignWorld` has the surface of `world.World` that the scenario runners use (`start`, `stop`, `finish`,
`set_tree`, `tree`, `port`, `net`, `log`), so a scenario can name its peer and run unchanged.

The server keeps the TRUTH (a dict path-tuple -> None | bytes | ("link", target), and a dict of modification
times); what the client reports is judged against it, never against another parser."""
import asyncio
import datetime
import logging

import simnet
import world as W
from framework import enc_bytes, enc_strs

MONTHS = ["Jan", "Feb", "Mar", "Apr", "May", "Jun", "Jul", "Aug", "Sep", "Oct", "Nov", "Dec"]
DEFAULT_MTIME = datetime.datetime(2020, 3, 14, 0, 7)

DEFAULT_STYLE = {
    # how replies of the codes in `multi_codes` are spelled: None = one line; "hyph" = every body line repeats the
    # code and a hyphen (RFC 2228 servers, ProFTPD); "raw" = body lines as they are (wu-ftpd banners); "indent" = body
    # lines start with a blank (what aioftp's server does); "digits" = raw body lines that start with one or two
    # digits ("2 users online"); "mixed" = all of them in one reply
    "multiline": None,
    "multi_codes": ("220", "230", "226", "426", "250", "257", "200", "221"),
    "mlsd": True,
    "mlst": True,
    "refusal": "502",  # what an unimplemented command is answered with (500 / 502 / 504)
    "dots": False,  # the '.' and '..' entries in listings (`type=cdir;`, `type=pdir;` in MLSD; two lines of `ls -la`)
    "dot_spelling": ".",  # how a listing names the listed directory itself
    "list_style": "unix",  # "unix" | "windows"
    "old_date": "two-blanks",  # entries older than half a year: "Mon DD  YYYY" (ls) | "one-blank": "Mon DD YYYY", day zero padded
    "now": datetime.datetime(2021, 6, 1, 12, 0),
    "password": None,  # None: USER is answered 230; a string: 331, then PASS decides
    "pass_reply": None,  # None: 230 / 530 by comparison; "421": the service goes away at PASS; any other code: that code
    "epsv": True,
    "abor_idle": "226",
    "owner": "ftp",
    "group": "ftp",
}


def quote257(s):
    return '"' + s.replace('"', '""') + '"'


class ForeignServer:
    def __init__(self, net, style=None, host=None):
        self.net = net
        self.style = dict(DEFAULT_STYLE, **(style or {}))
        self.tree = {}
        self.mtimes = {}
        self.sessions = []
        self.control = None
        self.commands = []  # every command line received, decoded (the truth for log checks)
        self.chatter_n = 0

    # ---- the truth ----
    def kind(self, p):
        if p == ():
            return "dir"
        if p not in self.tree:
            return None
        v = self.tree[p]
        return "dir" if v is None else "link" if isinstance(v, tuple) else "file"

    def children(self, p):
        return sorted(q for q in self.tree if len(q) == len(p) + 1 and q[: len(p)] == p)

    def mtime(self, p):
        return self.mtimes.get(p, DEFAULT_MTIME)

    # ---- spelling ----
    def chatter(self, code, k):
        self.chatter_n += 1
        pool = {
            "hyph": ["%s-%s" % (code, t) for t in ("Welcome", "", "-", "Quota: 5 MB", code + " almost", " indented")],
            "raw": ["Welcome to the server", "", "-- notice --", "x", "HTTP/1.1 is not spoken here", "Quota: 5 MB"],
            "indent": [" Welcome", " ", " %s looks like a header" % code, "  two blanks"],
            "digits": [],
        }
        # "12" and "3" alone would be read as (different) codes by a decoder that takes `s[:3].isdigit()`: a body
        # line of fewer than three characters that are all digits is outside what the pinned client accepts
        pool["digits"] = ["2 users online", "22 files", "1-2", "7x", "1 %s x" % code]
        kind = self.style["multiline"]
        if kind == "mixed":
            kind = ["hyph", "raw", "indent", "digits"][(self.chatter_n + k) % 4]
        lines = pool[kind]
        return lines[(self.chatter_n + k) % len(lines)]

    def spell(self, code, text, n_body=None):
        """wire lines of one reply"""
        if self.style["multiline"] is None or code not in self.style["multi_codes"]:
            return ["%s %s" % (code, text)]
        n = (self.chatter_n % 3) + 1 if n_body is None else n_body
        return ["%s-%s" % (code, "first")] + [self.chatter(code, k) for k in range(n)] + ["%s %s" % (code, text)]

    def unix_date(self, t):
        now = self.style["now"]
        if abs((now - t).total_seconds()) < 180 * 86400:
            return "%s %2d %02d:%02d" % (MONTHS[t.month - 1], t.day, t.hour, t.minute)
        if self.style["old_date"] == "one-blank":
            return "%s %02d %04d" % (MONTHS[t.month - 1], t.day, t.year)
        return "%s %2d  %04d" % (MONTHS[t.month - 1], t.day, t.year)

    def list_line(self, name, p):
        k = self.kind(p)
        t = self.mtime(p)
        size = len(self.tree[p]) if k == "file" else 4096
        if self.style["list_style"] == "windows":
            h12 = t.hour % 12 or 12
            stamp = "%02d/%02d/%04d  %02d:%02d %s" % (t.month, t.day, t.year, h12, t.minute, "AM" if t.hour < 12 else "PM")
            if k == "dir":
                return "%s       <DIR>          %s" % (stamp, name)
            return "%s %19s %s" % (stamp, "{:,}".format(size), name)
        mode = {"dir": "drwxr-xr-x", "file": "-rw-r--r--", "link": "lrwxrwxrwx"}[k]
        line = "%s %3d %-8s %-8s %8d %s %s" % (mode, 2 if k == "dir" else 1, self.style["owner"], self.style["group"], size, self.unix_date(t), name)
        if k == "link":
            line += " -> " + self.tree[p][1]
        return line

    def mlsx_facts(self, p, typ=None):
        k = self.kind(p)
        t = self.mtime(p)
        typ = typ or {"dir": "dir", "file": "file", "link": "OS.unix=symlink"}[k]
        facts = "type=%s;modify=%s;" % (typ, t.strftime("%Y%m%d%H%M%S"))
        if k == "file":
            facts += "size=%d;" % len(self.tree[p])
        return facts

    def listing(self, p, mlsd):
        out = []
        if self.style["dots"]:
            dot = self.style["dot_spelling"]
            if mlsd:
                out.append("type=cdir;modify=%s; %s" % (self.mtime(p).strftime("%Y%m%d%H%M%S"), dot))
                out.append("type=pdir;modify=%s; %s" % (self.mtime(p[:-1]).strftime("%Y%m%d%H%M%S"), ".."))
            elif self.style["list_style"] == "unix":
                for nm, q in ((dot, p), ("..", p[:-1])):
                    out.append("drwxr-xr-x %3d %-8s %-8s %8d %s %s" % (2, self.style["owner"], self.style["group"], 4096, self.unix_date(self.mtime(q)), nm))
        for q in self.children(p):
            out.append((self.mlsx_facts(q) + " " + q[-1]) if mlsd else self.list_line(q[-1], q))
        return out

    # ---- sessions ----
    async def start(self, port):
        self.control = await self.net.start_server(self.session, self.net.host, port)

    async def close(self):
        if self.control is not None:
            self.control.close()
        for s in self.sessions:
            s.cancel()
        await asyncio.sleep(0)

    def resolve(self, cwd, arg):
        parts = list(cwd) if not arg.startswith("/") else []
        for x in arg.split("/"):
            if x in ("", "."):
                continue
            if x == "..":
                if parts:
                    parts.pop()
                continue
            parts.append(x)
        return tuple(parts)

    async def session(self, reader, writer):
        self.sessions.append(asyncio.current_task())
        st = {"cwd": (), "user": None, "logged": False, "passive": None, "data": None, "rest": 0, "rnfr": None, "xfer": None}
        send_lock = asyncio.Lock()

        async def send(code, text, n_body=None):
            async with send_lock:
                for l in self.spell(code, text, n_body):
                    writer.write((l + "\r\n").encode("utf-8"))
                try:
                    await writer.drain()
                except ConnectionError:
                    pass

        st["send"] = send
        try:
            await send("220", "ready")
            while True:
                line = await reader.readline()
                if not line:
                    break
                s = line.decode("utf-8", "surrogateescape").rstrip("\r\n")
                self.commands.append(s)
                verb, _, arg = s.partition(" ")
                h = getattr(self, "do_" + verb.lower(), None)
                if h is None or (verb.lower() in ("mlsd",) and not self.style["mlsd"]) or (verb.lower() == "mlst" and not self.style["mlst"]) \
                        or (verb.lower() == "epsv" and not self.style["epsv"]):
                    await send(self.style["refusal"], "not implemented")
                    continue
                if not st["logged"] and verb.lower() not in ("user", "pass", "quit"):
                    await send("530", "log in first")
                    continue
                if await h(st, arg, send, writer) == "close":
                    break
        except (ConnectionError, asyncio.CancelledError):
            pass
        finally:
            for key in ("data",):
                if st[key] is not None:
                    st[key][1].close()
            if st["passive"] is not None:
                st["passive"].close()
            writer.close()

    async def do_user(self, st, arg, send, writer):
        st["user"] = arg
        if self.style["password"] is None:
            st["logged"] = True
            await send("230", "logged in")
        else:
            st["logged"] = False
            await send("331", "password required")

    async def do_pass(self, st, arg, send, writer):
        pr = self.style["pass_reply"]
        if pr == "421":
            await send("421", "service not available, closing control connection")
            return "close"
        if pr is not None:
            await send(pr, "as scripted")
            st["logged"] = pr.startswith("2")
            return
        if st["user"] is None:
            await send("503", "USER first")
        elif arg == self.style["password"]:
            st["logged"] = True
            await send("230", "logged in")
        else:
            await send("530", "wrong")

    async def do_quit(self, st, arg, send, writer):
        await send("221", "bye")
        return "close"

    async def do_noop(self, st, arg, send, writer):
        await send("200", "ok")

    async def do_syst(self, st, arg, send, writer):
        await send("215", "UNIX Type: L8")

    async def do_pwd(self, st, arg, send, writer):
        await send("257", quote257("/" + "/".join(st["cwd"])))

    async def do_cwd(self, st, arg, send, writer):
        p = self.resolve(st["cwd"], arg)
        if self.kind(p) == "dir":
            st["cwd"] = p
            await send("250", "ok")
        else:
            await send("550", "no such directory")

    async def do_cdup(self, st, arg, send, writer):
        st["cwd"] = st["cwd"][:-1]
        await send("250", "ok")

    async def do_type(self, st, arg, send, writer):
        await send("200", "ok")

    async def do_rest(self, st, arg, send, writer):
        if arg.isdigit():
            st["rest"] = int(arg)
            await send("350", "restarting at %s" % arg)
        else:
            await send("501", "bad offset")

    async def do_mkd(self, st, arg, send, writer):
        p = self.resolve(st["cwd"], arg)
        if p == () or p in self.tree or self.kind(p[:-1]) != "dir":
            await send("550", "cannot create")
        else:
            self.tree[p] = None
            await send("257", quote257("/" + "/".join(p)))

    async def do_rmd(self, st, arg, send, writer):
        p = self.resolve(st["cwd"], arg)
        if self.kind(p) != "dir" or p == () or self.children(p):
            await send("550", "cannot remove")
        else:
            del self.tree[p]
            await send("250", "ok")

    async def do_dele(self, st, arg, send, writer):
        p = self.resolve(st["cwd"], arg)
        if self.kind(p) in ("file", "link"):
            del self.tree[p]
            await send("250", "ok")
        else:
            await send("550", "no such file")

    async def do_rnfr(self, st, arg, send, writer):
        p = self.resolve(st["cwd"], arg)
        if p in self.tree:
            st["rnfr"] = p
            await send("350", "ready")
        else:
            await send("550", "no such file")

    async def do_rnto(self, st, arg, send, writer):
        src, st["rnfr"] = st["rnfr"], None
        p = self.resolve(st["cwd"], arg)
        if src is None:
            await send("503", "RNFR first")
        elif p in self.tree or self.kind(p[:-1]) != "dir" or p[: len(src)] == src:
            await send("550", "cannot rename")
        else:
            for q in sorted(x for x in self.tree if x[: len(src)] == src):
                self.tree[p + q[len(src):]] = self.tree.pop(q)
            await send("250", "ok")

    async def _open_passive(self, st):
        if st["passive"] is not None:
            st["passive"].close()
        if st["data"] is not None:
            st["data"][1].close()
            st["data"] = None
        ready = asyncio.get_running_loop().create_future()
        st["data_ready"] = ready

        async def on_data(r, w):
            if not ready.done():
                ready.set_result((r, w))
            else:
                w.close()

        srv = await self.net.start_server(on_data, self.net.host, 0)
        st["passive"] = srv
        return srv.port

    async def do_epsv(self, st, arg, send, writer):
        port = await self._open_passive(st)
        await send("229", "entering extended passive mode (|||%d|)" % port)

    async def do_pasv(self, st, arg, send, writer):
        port = await self._open_passive(st)
        h = self.net.host.split(".")
        await send("227", "entering passive mode (%s,%s,%s,%s,%d,%d)" % (h[0], h[1], h[2], h[3], port >> 8, port & 255))

    async def _data(self, st):
        if st.get("data_ready") is None:
            return None
        try:
            rw = await asyncio.wait_for(st["data_ready"], 5)
        except asyncio.TimeoutError:
            return None
        st["data_ready"] = None
        if st["passive"] is not None:
            st["passive"].close()
            st["passive"] = None
        return rw

    async def _send_lines(self, st, lines, send):
        rw = await self._data(st)
        if rw is None:
            await send("425", "no data connection")
            return
        await send("150", "here it comes")
        r, w = rw
        try:
            for l in lines:
                w.write((l + "\r\n").encode("utf-8", "surrogateescape"))
            await w.drain()
        except ConnectionError:
            pass
        w.close()
        await send("226", "done")

    async def do_list(self, st, arg, send, writer):
        arg = " ".join(x for x in arg.split(" ") if not x.startswith("-")) if arg.startswith("-") else arg
        p = self.resolve(st["cwd"], arg)
        k = self.kind(p)
        if k is None:
            await send("550", "no such file or directory")
        elif k == "dir":
            await self._send_lines(st, self.listing(p, False), send)
        else:
            await self._send_lines(st, [self.list_line(p[-1], p)], send)

    async def do_mlsd(self, st, arg, send, writer):
        p = self.resolve(st["cwd"], arg)
        if self.kind(p) != "dir":
            await send("550" if self.kind(p) is None else "501", "not a directory")
        else:
            await self._send_lines(st, self.listing(p, True), send)

    async def do_mlst(self, st, arg, send, writer):
        p = self.resolve(st["cwd"], arg)
        if self.kind(p) is None:
            await send("550", "no such file or directory")
            return
        lines = ["250-start", " " + self.mlsx_facts(p) + " " + "/" + "/".join(p), "250 end"]
        for l in lines:
            writer.write((l + "\r\n").encode("utf-8", "surrogateescape"))
        await writer.drain()

    async def do_retr(self, st, arg, send, writer):
        p = self.resolve(st["cwd"], arg)
        off, st["rest"] = st["rest"], 0
        if self.kind(p) != "file":
            await send("550", "no such file")
            return
        rw = await self._data(st)
        if rw is None:
            await send("425", "no data connection")
            return
        await send("150", "here it comes")
        r, w = rw

        async def work():
            try:
                data = self.tree[p][off:]
                for i in range(0, len(data), 4096):
                    w.write(data[i : i + 4096])
                    await w.drain()
                    if self.style.get("retr_pause"):
                        await asyncio.sleep(self.style["retr_pause"])
                w.close()
                await send("226", "done")
            except ConnectionError:
                await send("426", "data connection lost")
            except asyncio.CancelledError:
                w.close()
                await send("426", "transfer aborted")
                await send("226", "abort successful")

        st["xfer"] = asyncio.get_running_loop().create_task(work())

    async def _store(self, st, arg, send, append):
        p = self.resolve(st["cwd"], arg)
        off, st["rest"] = st["rest"], 0
        if p == () or self.kind(p) == "dir" or self.kind(p[:-1]) != "dir":
            await send("550", "cannot store there")
            return
        rw = await self._data(st)
        if rw is None:
            await send("425", "no data connection")
            return
        await send("150", "send it")
        r, w = rw

        async def work():
            old = self.tree.get(p, b"") if isinstance(self.tree.get(p, b""), bytes) else b""
            head = old if append else old[:off] + b"\0" * max(0, off - len(old)) if off else b""
            try:
                got = b""
                try:
                    while True:
                        b = await r.read(4096)
                        if not b:
                            break
                        got += b
                        self.tree[p] = head + got
                finally:
                    self.tree[p] = head + got
                w.close()
                await send("226", "stored")
            except ConnectionError:
                await send("426", "data connection lost")
            except asyncio.CancelledError:
                w.close()
                await send("426", "transfer aborted")
                await send("226", "abort successful")

        self.tree.setdefault(p, b"")
        st["xfer"] = asyncio.get_running_loop().create_task(work())

    async def do_stor(self, st, arg, send, writer):
        await self._store(st, arg, send, False)

    async def do_appe(self, st, arg, send, writer):
        await self._store(st, arg, send, True)

    async def do_abor(self, st, arg, send, writer):
        t = st["xfer"]
        if t is not None and not t.done():
            t.cancel()
            try:
                await t
            except asyncio.CancelledError:
                pass
        else:
            await send(self.style["abor_idle"], "nothing to abort")


class ForeignWorld:
    """the surface of world.World the scenario runners use, in front of a ForeignServer"""

    def __init__(self, loop, style=None, port=2121):
        self.loop = loop
        self.net = simnet.Net(loop)
        self.port = port
        self.server = ForeignServer(self.net, style)
        self.log = W.LogCatcher()
        self.clients = []
        self.backend = "foreign"

    async def start(self):
        self.undo = simnet.install(self.net)
        for name in ("aioftp.server", "aioftp.client", "aioftp"):
            logging.getLogger(name).setLevel(logging.DEBUG)
        self.root_logger = logging.getLogger("aioftp")
        self.root_logger.addHandler(self.log)
        self.root_logger.propagate = False
        await self.server.start(self.port)
        return self

    async def stop(self):
        try:
            await self.server.close()
        finally:
            self.finish()

    def finish(self):
        for c in self.clients:
            c.stop()
        self.undo()
        self.root_logger.removeHandler(self.log)
        self.root_logger.propagate = True

    async def raw_client(self):
        c = simnet.RawClient(self.net)
        await c.connect(self.port)
        self.clients.append(c)
        await self.loop.settle()
        return c

    def set_tree(self, entries, mtimes=None):
        self.server.tree = {tuple(p): c for p, c in entries}
        self.server.mtimes = dict(mtimes or {})

    def tree(self):
        items = []
        for p, c in self.server.tree.items():
            if c is None:
                items.append(enc_strs(list(p)) + "=D")
            elif isinstance(c, tuple):
                items.append(enc_strs(list(p)) + "=L" + enc_bytes(c[1].encode("utf-8")))
            else:
                items.append(enc_strs(list(p)) + "=F" + enc_bytes(c))
        return ";".join(sorted(items)) if items else "~"
