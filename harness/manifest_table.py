claim("C02", "DESIGN.md 5/C02",
      "Lean 4 theorems about a transcription of Server.get_paths/PurePosixPath (all strings, by induction) + exhaustive/random differential run against the live get_paths + containment/walk oracle",
      "Theorems real_inside_base / virtual_absnormal / resolves_to_walk / alias_invariant hold for every argument string, base and normal cwd (unbounded, kernel-checked); the model is tied to the code by an exhaustive bounded + random differential run on every check.",
      "Trusted: Lean kernel; pathlib semantics as transcribed (sampled); POSIX flavour only; home_path normal.")
