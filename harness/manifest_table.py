claim("C02", "DESIGN.md 5/C02",
      "Lean 4 theorems about a transcription of Server.get_paths/PurePosixPath (all strings, by induction) + exhaustive/random differential run against the live get_paths + containment/walk oracle",
      "Theorems real_inside_base / virtual_absnormal / resolves_to_walk / alias_invariant hold for every argument string, base and normal cwd (unbounded, kernel-checked); the model is tied to the code by an exhaustive bounded + random differential run on every check.",
      "Trusted: Lean kernel; pathlib semantics as transcribed (sampled); POSIX flavour only; home_path normal.")
claim("C05", "DESIGN.md 5/C05",
      "Lean 4 reference model of the session (guard stacks regenerated from the live decorators) with theorems about the model + exhaustive-to-a-bound/random differential run of every command against the real dispatcher under a simulated network + property oracle on the transcript",
      "The theorems are about the sequential reference model for all states and commands; that the code conforms to the model is established by enumeration up to the bound (all command pairs in three session contexts) and sampling beyond it - partial, and labelled so.",
      "Trusted: Lean kernel; the translator's decorator-stack recovery (cross-checked by the behavioural run); in-memory network instead of sockets; asyncio scheduling.")
claim("C03", "DESIGN.md 5/C03",
      "Lean 4: decision over the decorator stacks regenerated from the live source (login_required outermost on every protected verb) + theorems over the session model for all states/trees/commands (nothing served before login, re-USER drops the login, PASS authorises only with the password) + differential histories against the real dispatcher with a spying backend + independent authSpec oracle",
      "guards_table is re-decided by the kernel against the current source on every run; the model theorems are unbounded; the tie model=code is exhaustive over login histories to a bound and sampled beyond.",
      "Trusted: Lean kernel; translator (closure-cell walk of the bound methods), cross-checked by the behavioural run; MemoryUserManager only.")
claim("C12", "DESIGN.md 5/C12",
      "Lean 4 small-step model of what a session holds + theorems that the dispatcher's finally releases everything from every state outside three proved crash points + exhaustive cut sweep (peer vanish / server.close() at every loop iteration of every corpus script, gates inside backend calls and listener start-up) on the real server under a simulated network, ledger compared with the model's prediction",
      "The theorem is about the model's resources for all states; the sweep is exhaustive over the corpus at loop-iteration granularity and compares the real ledger with the model at every cut; three crash points are recorded findings.",
      "Trusted: Lean kernel; in-memory transports for sockets; asyncio cancellation semantics; finite backend delays.")
claim("C04", "DESIGN.md 5/C04",
      "Lean 4 theorems on a transcription of User.get_permissions / PathPermissions (nearest ancestor, first of ties, default) for all tables and paths + decision over the regenerated decorator table (which verb asks for which permission) + alias corollary of the C02 theorems + differential run against the live get_permissions and the live PathPermissions instances",
      "nearest / permGuard_spec / alias_same_entry are unbounded and kernel-checked; perm_table is re-decided against the current source on every run; the refusal's effect on tree and cwd (wire level) is carried by the C05 session correspondence, not by a theorem here.",
      "Trusted: Lean kernel; pathlib.relative_to and builtin min as transcribed (sampled); translator.")
claim("C20", "DESIGN.md 5/C20",
      "Lean 4 noninterference theorems on a model of every log record both sides emit (server parse_command censoring, reply echo, client command/parse_line) + decision that the set of logging call sites in the source equals the modelled one + canary differential run with a capturing log handler on real client/server",
      "server/client/session noninterference hold for all passwords of equal (rstripped) length; call_sites is re-decided against the current source; the canary run scans every formatted record including tracebacks.",
      "Trusted: Lean kernel; 'login' means PASS<SP>pw on one decodable line without LF (LF injection is a recorded finding); MemoryUserManager.")
claim("C13", "DESIGN.md 5/C13",
      "Lean 4 program model of every command's backend calls (built from the regenerated decorator stacks + transcribed bodies) with theorems for every verb, shape and fault index (last reply 451, never a success reply; data connection closed once the mark was given, except the proved open-of-file-transfer witness) + exhaustive fault injection at every backend call of every command situation on the real server, call sequences and outcomes compared with the model",
      "fault_contained / fault_closes_data_partial are unbounded (any number of entries/blocks, any k); the injection run is exhaustive over the situation table x every call index x two backends and checks session/other-session usability afterwards.",
      "Trusted: Lean kernel; a backend failure is an exception inside the backend method; in-memory network.")
claim("C14", "DESIGN.md 5/C14",
      "Lean 4 decision over the regenerated decorator order of the five nested transfer workers (which cancellation positions are caught by `worker`) with positive theorems and two proved negative witnesses + ABOR injected at every loop iteration of every transfer script on the real server, replies/survival compared with the model, prefix and follow-up oracles",
      "The theorems are re-decided against the current decorator order on every run; the injection sweep is exhaustive over (transfer kind x size x data-connection timing x every loop iteration) and the worker position is read off the real connection when the server processes the ABOR.",
      "Trusted: Lean kernel; asyncio cancellation semantics; in-memory network; one transfer at a time.")
claim("C06", "DESIGN.md 5/C06",
      "Lean 4 theorems on a transcription of write_response / StreamReader.readline / parse_line / parse_response / Code.matches / command loop / parse_command (roundtrip, sequence, segmentation irrelevance, mismatch rejection, mask semantics) for all codes, line lists, encodings and segmentations + decision over the regenerated table of every connection.response call site + differential run real write_response -> real StreamReader -> real parse_response",
      "Unbounded kernel-checked theorems carry the property on rstrip-stable lines (exact identity) and give the exact result otherwise; the call-site table is re-decided on every run; trailing-whitespace loss is a recorded finding with a proved witness.",
      "Trusted: Lean kernel; asyncio StreamReader.readline as modelled, lines < 64 KiB; CPython rstrip/isdigit/lower tables generated from the running interpreter.")
