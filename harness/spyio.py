"""Recording / gating / fault-injecting wrappers around the three shipped storage backends.

`make_spy_factory(base_cls, spy)` returns a path_io_factory.  Every backend call is numbered; the spy can
fail the k-th call (the failure is raised *inside* the backend method, so `universal_exception` turns it
into PathIOError exactly as a failing real backend would), delay it in virtual time, or hold it at a gate.
Open file handles are tracked for the resource ledger.
"""
import asyncio

import aioftp
from aioftp import pathio
from aioftp.common import AbstractAsyncLister

CALLS = ("exists", "is_dir", "is_file", "mkdir", "rmdir", "unlink", "list", "stat", "open", "seek", "write", "read", "close", "rename")


class Spy:
    def __init__(self):
        self.n = 0
        self.log = []  # (k, name, arg)
        self.fail_at = {}  # k -> exception instance/class
        self.fail_name = {}  # name -> list of occurrence indexes (0-based) to fail, or True for always
        self.name_count = {}
        self.gates = {}  # k -> simnet.Gate
        self.gate_name = {}  # name -> (occurrence, Gate)
        self.delay = 0.0
        self.delay_fn = None  # callable(name, shown argument) -> virtual seconds, on top of `delay`
        self.read_cap = None  # a backend that returns at most this many bytes per read() (short reads are legal)
        self.close_returns = None  # a backend whose close() returns this (the contract does not say what close returns)
        self.open_files = {}  # id(file) -> (path, mode)
        self.opened = 0
        self.closed = 0
        self.stat_patch = None  # callable(path, stats) -> stats
        self.current = None
        self.enabled = True

    def reset_counters(self):
        self.n = 0
        self.log = []
        self.name_count = {}

    async def hit(self, name, arg=None):
        if not self.enabled:
            return
        k = self.n
        self.n += 1
        occ = self.name_count.get(name, 0)
        self.name_count[name] = occ + 1
        if isinstance(arg, tuple) and name == "rename":
            shown = [str(arg[0]), str(arg[1])]
        elif isinstance(arg, tuple) and name == "open":
            shown = [str(arg[0])] + [repr(x) for x in arg[1:]]
        elif arg is None:
            shown = None
        else:
            shown = str(arg)
        self.log.append((k, name, shown))
        g = self.gates.get(k)
        if g is None and name in self.gate_name and self.gate_name[name][0] == occ:
            g = self.gate_name[name][1]
        self.current = name  # the backend call a task is suspended in (gate / latency), if any
        try:
            if g is not None:
                await g.wait()
            if self.delay:
                await asyncio.sleep(self.delay)
            if self.delay_fn is not None:
                d = self.delay_fn(name, shown)
                if d:
                    await asyncio.sleep(d)
        finally:
            self.current = None
        exc = self.fail_at.get(k)
        if exc is None:
            fn = self.fail_name.get(name)
            if fn is True or (fn and occ in fn):
                exc = OSError(5, "injected backend fault at %s#%d" % (name, occ))
        if exc is not None:
            if isinstance(exc, type):
                exc = exc("injected")
            raise exc


def make_spy_factory(base_cls, spy):
    ue = pathio.universal_exception

    @ue
    async def _hit(name, arg=None):
        # an injected fault is raised HERE and translated as a real backend would translate its own failure; what the
        # wrapped backend method raises afterwards is left exactly as that method (with its own decorators) raises it
        await spy.hit(name, arg)

    class SpyLister(AbstractAsyncLister):
        def __init__(self, inner, path, timeout=None):
            super().__init__(timeout=timeout)
            self.inner = inner
            self.path = path

        async def __anext__(self):
            await _hit("list", self.path)
            return await self.inner.__anext__()

    class SpyIO(base_cls):
        _spy = spy

        def __init__(self, *args, **kwargs):
            super().__init__(*args, **kwargs)
            # what a backend with per-session bookkeeping does (a quota, a journal, open handles): a container of its
            # own, made in its constructor - one per session, since the server makes one backend instance per session
            self.session_journal = []

        async def exists(self, path):
            await _hit("exists", path)
            return await super().exists(path)

        async def is_dir(self, path):
            await _hit("is_dir", path)
            return await super().is_dir(path)

        async def is_file(self, path):
            await _hit("is_file", path)
            return await super().is_file(path)

        async def mkdir(self, path, **kw):
            await _hit("mkdir", path)
            return await super().mkdir(path, **kw)

        async def rmdir(self, path):
            await _hit("rmdir", path)
            return await super().rmdir(path)

        async def unlink(self, path):
            await _hit("unlink", path)
            return await super().unlink(path)

        def list(self, path):
            return SpyLister(super().list(path), path, timeout=self.timeout)

        async def stat(self, path):
            await _hit("stat", path)
            st = await super().stat(path)
            if spy.stat_patch is not None:
                st = spy.stat_patch(path, st)
            return st

        async def _open(self, path, *a, **kw):
            await _hit("open", (path, a, kw))
            f = await super()._open(path, *a, **kw)
            spy.open_files[id(f)] = (str(path), a, kw)
            spy.opened += 1
            return f

        async def seek(self, file, *a, **kw):
            await _hit("seek", a)
            return await super().seek(file, *a, **kw)

        async def write(self, file, data):
            await _hit("write", len(data))
            return await super().write(file, data)

        async def read(self, file, *a, **kw):
            await _hit("read", a)
            cap = getattr(spy, "read_cap", None)
            if cap and (not a or a[0] is None or a[0] < 0 or a[0] > cap):
                a = (cap,) + tuple(a[1:])
            return await super().read(file, *a, **kw)

        async def close(self, file):
            # the handle counts as released even if the backend's close fails
            spy.open_files.pop(id(file), None)
            spy.closed += 1
            await _hit("close")
            r = await super().close(file)
            return r if spy.close_returns is None else spy.close_returns

        async def rename(self, source, destination):
            await _hit("rename", (source, destination))
            return await super().rename(source, destination)

    SpyIO.__name__ = "Spy" + base_cls.__name__
    return SpyIO


# ---- snapshot of a backend tree (names, types, bytes) -------------------------------------------
def mem_tree(state, with_content=True):
    """MemoryPathIO state -> nested dict {name: bytes | dict}; the root node is '/'"""

    def conv(node):
        if node.type == "dir":
            return {ch.name: conv(ch) for ch in node.content}
        return bytes(node.content.getbuffer()) if with_content else len(node.content.getbuffer())

    root = state[0]
    return conv(root)


def fs_tree(path, with_content=True):
    import os

    out = {}
    for name in sorted(os.listdir(path)):
        p = os.path.join(path, name)
        if os.path.isdir(p):
            out[name] = fs_tree(p, with_content)
        else:
            with open(p, "rb") as f:
                b = f.read()
            out[name] = b if with_content else len(b)
    return out
