"""Writes MANIFEST.json from the table below (kept as code so the file is always valid)."""
import json, os

VERIF = os.path.dirname(os.path.dirname(os.path.abspath(__file__)))

# pid -> (design_ref, technique, level text, level note)
CLAIMED = {}
PENDING = {}

def claim(pid, design_ref, technique, text, note):
    CLAIMED[pid] = (design_ref, technique, text, note)

exec(open(os.path.join(VERIF, "harness", "manifest_table.py")).read())

ALL = ["C%02d" % i for i in range(1, 21)]
checks = []
for pid in ALL:
    if pid in CLAIMED:
        d, tech, text, note = CLAIMED[pid]
        checks.append({
            "property_id": pid,
            "quick_cmd": "bin/check %s --tier quick" % pid,
            "thorough_cmd": "bin/check %s --tier thorough" % pid,
            "evidence_file": "evidence/%s.json" % pid,
            "replay_cmd_template": "bin/check %s --replay {path}" % pid,
            "engine": "lean4-model+correspondence",
            "level_claimed": {"category": "proof", "text": text, "design_ref": d},
            "level_note": note,
            "technique": tech,
        })
na = [{"property_id": p, "reason": PENDING.get(p, "check not built yet in this round; see DESIGN.md section 5 for the planned model and theorems")} for p in ALL if p not in CLAIMED]
doc = {
    "version": 1,
    "setup_cmd": "bin/setup",
    "hooks": {
        "guard": "AIOFTP_VERIF",
        "enable": "no source hooks: the harness rebinds aioftp.server.asyncio / aioftp.client.open_connection in-process; AIOFTP_VERIF=1 is exported by bin/check and read only by the harness",
        "baseline_off_cmd": "cd /repo && /venv/bin/python -m pytest -ra -q -p no:cacheprovider --timeout=900 --continue-on-collection-errors",
        "source_commits": [],
        "add_only": True,
    },
    "engines": [{
        "name": "lean4-model+correspondence",
        "path": "lean/",
        "serves_properties": sorted(CLAIMED),
        "kind_free_text": "Lean 4 models + theorems (lake build, #print axioms audit), tables regenerated from /repo by harness/extract*.py, correspondence runs of the model driver against the live implementation, implementation-side oracle search",
    }],
    "checks": checks,
    "not_applicable": na,
    "notes": "All checks: bin/check <id> [--tier quick|thorough] [--replay file]; VERIF_SEED seeds every generator; exit 2 = timeout.",
}
with open(os.path.join(VERIF, "MANIFEST.json"), "w") as f:
    json.dump(doc, f, indent=1)
print("claimed:", sorted(CLAIMED), "pending:", len(na))
