"""Backend-API level of C18: operation sequences called directly on `aioftp.MemoryPathIO`, `aioftp.PathIO`
and `aioftp.AsyncPathIO` instances (the last two in temporary directories outside /verif and /repo, removed
at once), canonical result lines, and the matching driver lines for the Lean models (`bk …`).

One operation = one line `res=<result> fs=<tree token>`:
  exists / is_dir / is_file      1 | 0
  mkdir / rmdir / unlink / rename ok | err:<ERRNO>          (Memory: plain `err`)
  stat                            D | F<size> | err…
  list                            sorted names, `|`-separated, `~` when empty
  file  = open(mode); [seek(k)]; none | read(n) | write(data); close      ok:<hex read> | err…
"""
import asyncio
import errno
import io
import multiprocessing
import os
import pathlib
import shutil
import tempfile

from framework import enc_bytes, enc_str, enc_strs

MODES = ["rb", "wb", "ab", "r+b"]


# ---- trees ---------------------------------------------------------------------------------------
def fs_token(entries):
    items = [enc_strs(list(p)) + ("=D" if c is None else "=F" + enc_bytes(c)) for p, c in entries]
    return ";".join(items) if items else "~"


def mem_tree(state):
    items = []

    def walk(node, prefix, depth=0):
        if depth > 40:
            items.append("DEEP")
            return
        for ch in node.content:
            p = prefix + [ch.name]
            if ch.type == "dir":
                items.append(enc_strs(p) + "=D")
                walk(ch, p, depth + 1)
            else:
                items.append(enc_strs(p) + "=F" + enc_bytes(bytes(ch.content.getbuffer())))

    walk(state[0], [])
    return ";".join(sorted(items)) if items else "~"


def disk_tree(base):
    items = []
    for dirpath, dirnames, filenames in os.walk(base):
        rel = os.path.relpath(dirpath, base)
        prefix = [] if rel == "." else rel.split(os.sep)
        for d in dirnames:
            items.append(enc_strs(prefix + [d]) + "=D")
        for fn in filenames:
            with open(os.path.join(dirpath, fn), "rb") as f:
                items.append(enc_strs(prefix + [fn]) + "=F" + enc_bytes(f.read()))
    return ";".join(sorted(items)) if items else "~"


def make_mem_state(entries):
    from aioftp.pathio import Node

    root = Node("dir", "/", content=[])
    index = {(): root}
    for path, content in entries:
        parent = index[tuple(path[:-1])]
        if content is None:
            n = Node("dir", path[-1], content=[])
        else:
            n = Node("file", path[-1], content=io.BytesIO(content))
            n.content.seek(0, 2)
        parent.content.append(n)
        index[tuple(path)] = n
    return [root]


def make_disk(base, entries):
    for path, content in entries:
        p = os.path.join(base, *path)
        if content is None:
            os.makedirs(p, exist_ok=True)
        else:
            with open(p, "wb") as f:
                f.write(content)


# ---- one operation on a real backend ---------------------------------------------------------------
def err_token(e, with_errno):
    import aioftp

    if isinstance(e, aioftp.PathIOError):
        if not with_errno:
            return "err"
        exc = e.reason[1] if e.reason else None
        if isinstance(exc, io.UnsupportedOperation):
            return "err:EBADF"
        if isinstance(exc, OSError) and exc.errno is not None:
            return "err:" + errno.errorcode.get(exc.errno, str(exc.errno))
        return "err:" + type(exc).__name__
    return "EXC:" + type(e).__name__


async def do_op(pio, root, op, with_errno):
    """returns the canonical result token"""
    kind = op[0]

    def P(parts):
        return root.joinpath(*parts) if parts else root

    try:
        if kind == "exists":
            return "1" if await pio.exists(P(op[1])) else "0"
        if kind == "is_dir":
            return "1" if await pio.is_dir(P(op[1])) else "0"
        if kind == "is_file":
            return "1" if await pio.is_file(P(op[1])) else "0"
        if kind == "mkdir":
            await pio.mkdir(P(op[1]), parents=bool(op[2]), exist_ok=bool(op[3]))
            return "ok"
        if kind == "rmdir":
            await pio.rmdir(P(op[1]))
            return "ok"
        if kind == "unlink":
            await pio.unlink(P(op[1]))
            return "ok"
        if kind == "rename":
            await pio.rename(P(op[1]), P(op[2]))
            return "ok"
        if kind == "stat":
            st = await pio.stat(P(op[1]))
            import stat as statmod

            if statmod.S_ISDIR(st.st_mode):
                return "D"
            return "F%d" % st.st_size
        if kind == "list":
            names = []
            async for x in pio.list(P(op[1])):
                names.append(x.name)
            return "|".join(sorted(enc_str(n) for n in names)) if names else "~"
        if kind == "file":
            _, path, mode, seek, act = op
            f = await pio.open(P(path), mode=MODES[mode])
            try:
                if seek is not None:
                    await f.seek(seek)
                if act[0] == "none":
                    data = b""
                elif act[0] == "read":
                    data = await f.read(-1 if act[1] is None else act[1])
                else:
                    await f.write(bytes.fromhex(act[1]))
                    data = b""
            finally:
                await f.close()
            return "ok:" + enc_bytes(data)
        return "EXC:unknown-op"
    except asyncio.CancelledError:
        raise
    except Exception as e:  # noqa
        return err_token(e, with_errno)


# ---- interleaved handles (PathIO vs AsyncPathIO only) ----------------------------------------------
async def do_hop(pio, root, op, handles, with_errno):
    """handle-level operations: ("open", h, path, mode) ("seek", h, k) ("read", h, n) ("write", h, hex) ("close", h)"""
    kind = op[0]
    try:
        if kind == "open":
            _, h, path, mode = op
            if h in handles:
                return "skip"
            handles[h] = await pio.open(root.joinpath(*path), mode=MODES[mode])
            return "ok"
        if kind in ("seek", "read", "write", "close"):
            f = handles.get(op[1])
            if f is None:
                return "skip"
            if kind == "seek":
                return "ok:%d" % (await f.seek(op[2]))
            if kind == "read":
                return "ok:" + enc_bytes(await f.read(op[2]))
            if kind == "write":
                await f.write(bytes.fromhex(op[2]))
                return "ok"
            del handles[op[1]]
            await f.close()
            return "ok"
        return await do_op(pio, root, op, with_errno)
    except asyncio.CancelledError:
        raise
    except Exception as e:  # noqa
        return err_token(e, with_errno)


async def _run_seq(backend, entries, ops):
    import aioftp

    tmp = None
    try:
        if backend == "memory":
            pio = aioftp.MemoryPathIO(state=make_mem_state(entries))
            root = pathlib.PurePosixPath("/")
            tree = lambda: mem_tree(pio.fs)  # noqa
            with_errno = False
        else:
            tmp = tempfile.mkdtemp(prefix="aioftp-verif-api-")
            make_disk(tmp, entries)
            # "pathio+t" / "async+t": the same backends constructed with a (generous) timeout, as a server started with
            # path_timeout= makes them - no timeout ever fires, nothing may differ
            kw = {"timeout": 30} if backend.endswith("+t") else {}
            pio = aioftp.PathIO(**kw) if backend.startswith("pathio") else aioftp.AsyncPathIO(**kw)
            root = pathlib.Path(tmp)
            tree = lambda: disk_tree(tmp)  # noqa
            with_errno = True
        out = []
        handles = {}
        for op in ops:
            if op[0] in ("open", "seek", "read", "write", "close"):
                r = await do_hop(pio, root, op, handles, with_errno)
            else:
                r = await do_op(pio, root, op, with_errno)
            out.append("res=%s fs=%s" % (r, tree()))
        for h in list(handles):
            try:
                await handles[h].close()
            except Exception:  # noqa
                pass
        return out
    finally:
        if tmp:
            shutil.rmtree(tmp, ignore_errors=True)


def _worker(jobs):
    async def main():
        res = []
        for backend, entries, ops in jobs:
            try:
                res.append(await _run_seq(backend, entries, ops))
            except BaseException as e:  # noqa
                res.append("HARNESS-ERROR %s: %s" % (type(e).__name__, e))
        return res

    return asyncio.run(main())


def run_many(jobs, procs=None):
    """jobs: list of (backend, entries, ops) -> list of line lists"""
    procs = procs or min(16, os.cpu_count() or 4)
    if len(jobs) < 60 or procs <= 1:
        return _worker(jobs)
    size = max(1, (len(jobs) + procs * 4 - 1) // (procs * 4))
    chunks = [jobs[i : i + size] for i in range(0, len(jobs), size)]
    ctx = multiprocessing.get_context("fork")
    with ctx.Pool(procs) as pool:
        outs = pool.map(_worker, chunks)
    return [x for o in outs for x in o]


# ---- driver lines -------------------------------------------------------------------------------------
def op_line(op):
    kind = op[0]
    if kind in ("exists", "is_dir", "is_file", "rmdir", "unlink", "stat", "list"):
        return "bk op %s %s" % (kind, enc_strs(list(op[1])))
    if kind == "mkdir":
        return "bk op mkdir %s %d %d" % (enc_strs(list(op[1])), 1 if op[2] else 0, 1 if op[3] else 0)
    if kind == "rename":
        return "bk op rename %s %s" % (enc_strs(list(op[1])), enc_strs(list(op[2])))
    if kind == "file":
        _, path, mode, seek, act = op
        a = "none" if act[0] == "none" else ("read %s" % ("n" if act[1] is None else act[1]) if act[0] == "read" else "write %s" % (act[1] or "-"))
        return "bk op file %s %d %s %s" % (enc_strs(list(path)), mode, "n" if seek is None else seek, a)
    raise ValueError(op)


def model_lines(which, entries, ops):
    return ["bk init %s %s" % (which, fs_token(entries))] + [op_line(o) for o in ops]


def parse_line(line):
    d = dict(tok.split("=", 1) for tok in line.split(" ") if "=" in tok)
    return d.get("res"), d.get("fs")
