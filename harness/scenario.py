"""Scripted sessions with an intervention at a chosen loop iteration.

A *script* is a coroutine driving one or more raw clients against the real server under simnet.  The
engine first runs it undisturbed to learn its length in loop iterations, then re-runs it with an
*intervention* (peer vanishes / server.close() / ABOR / stall / backend fault …) injected at iteration k,
for every k.  After the intervention the loop is run to quiescence (no virtual time passes unless the
intervention asks for it) and the resource *ledger* of the server side is read off.

Shared by C12 (cuts), C13 (faults), C14 (ABOR positions), C16 (stalls), C17 (interleavings).
"""
import asyncio
import socket

import simnet
import spyio
import world as W
import seqrun as S


class Ctl:
    """what a script sees"""

    def __init__(self, wd):
        self.wd = wd
        self.loop = wd.loop
        self.clients = []
        self.notes = {}
        self.transcript = []  # (client index, line, codes)

    async def client(self):
        c = await self.wd.raw_client()
        self.clients.append(c)
        return c

    async def cmd(self, c, line, payload=b""):
        if isinstance(line, str):
            line = line.encode("utf-8")
        codes, crashed, out, listing = await W.run_line(self.wd, c, line, payload)
        self.transcript.append((self.clients.index(c), line.decode("utf-8", "replace"), codes))
        return codes, out, listing

    async def send(self, c, line):
        """send without waiting for anything but quiescence"""
        if isinstance(line, str):
            line = line.encode("utf-8")
        n0 = len(c.replies)
        c.send_raw(line + b"\r\n")
        await self.loop.settle()
        codes = [int(x) if x.isdigit() else -1 for x, _ in c.replies[n0:]]
        self.transcript.append((self.clients.index(c), line.decode("utf-8", "replace"), codes))
        return codes

    async def data(self, c):
        return await W.data_connect(self.wd, c)

    async def login(self, c, user="bob", password=None):
        await self.cmd(c, "USER " + user)
        if password is not None:
            await self.cmd(c, "PASS " + password)


class ILoop(simnet.VLoop):
    """VLoop with an iteration counter and a one-shot hook"""

    def __init__(self):
        super().__init__()
        self.iteration = 0
        self.counting = False
        self.hook_at = None
        self.hook = None

    def _run_once(self):
        if self.counting:
            if self.hook is not None and self.hook_at is not None and self.iteration == self.hook_at:
                h, self.hook = self.hook, None
                h()
            self.iteration += 1
        super()._run_once()


def ledger(wd, harness_tasks=()):
    """what the server side still holds; everything should be empty/full after a session ended"""
    net = wd.net
    server = wd.server
    tasks = []
    for t in asyncio.all_tasks(wd.loop):
        if t.done() or t in harness_tasks:
            continue
        co = t.get_coro()
        name = getattr(co, "__qualname__", str(co))
        if name.startswith("RawClient.") or name.startswith("ILoop") or "run_main" in name or "_scenario" in name:
            continue
        tasks.append(name)
    pool = None
    if server.available_data_ports is not None:
        pool = sorted(p for _, p in server.available_data_ports._queue)
    return {
        "server_transports": net.server_side_open(),
        "server_transports_closing": net.server_side_closing(),
        "listeners": [p for p in net.listening_ports() if p != wd.port],
        "control_listener": wd.port in net.listeners,
        "open_files": sorted(v[0] for v in wd.spy.open_files.values()),
        "tasks": sorted(tasks),
        "connections": len(server.connections),
        "srvfree": server.available_connections.value,
        "ufree": [server.user_manager.available_connections[u].value for u in wd.users] if hasattr(server.user_manager, "available_connections") else [],
        "pool": pool,
        "dispatcher_exceptions": wd.log.exceptions,
        "loop_errors": [str(c.get("message")) for c in wd.loop.loop_errors if "exception()" not in str(c.get("message", "")) and "Task exception was never retrieved" in str(c.get("message", ""))],
    }


def ledger_clean(led, wd_cfg, expect_control_listener=True):
    """list of complaints; empty = everything released"""
    bad = []
    if led["server_transports"]:
        bad.append("server-side sockets still open: %s" % led["server_transports"])
    if led["listeners"]:
        bad.append("passive listeners still open: %s" % led["listeners"])
    if led["open_files"]:
        bad.append("backend files still open: %s" % led["open_files"])
    if led["tasks"]:
        bad.append("server tasks still running: %s" % led["tasks"])
    if led["connections"]:
        bad.append("%d entries left in server.connections" % led["connections"])
    if led["srvfree"] is not None and led["srvfree"] != wd_cfg.get("maximum_connections"):
        bad.append("server slots %r != %r" % (led["srvfree"], wd_cfg.get("maximum_connections")))
    if led["pool"] is not None and sorted(led["pool"]) != sorted(wd_cfg.get("data_ports") or []):
        bad.append("port pool %r != configured %r" % (led["pool"], sorted(wd_cfg.get("data_ports") or [])))
    if not expect_control_listener and led["control_listener"]:
        bad.append("control listener still open after server.close()")
    return bad


class Scenario:
    def __init__(self, name, script, users=None, tree=None, server_kwargs=None, backend="memory", spy_setup=None, net_setup=None, family=socket.AF_INET, task_salt=None, world_setup=None, manager_factory=None):
        self.name = name
        self.manager_factory = manager_factory
        import os

        # iteration order of the server's task sets (simnet.SeqTask); default: what the environment says, else 0
        self.task_salt = int(os.environ.get("VERIF_TASK_SALT", "0")) if task_salt is None else task_salt
        self.script = script
        self.users = users or S.USERS_ANON
        self.tree = tree if tree is not None else S.TREE
        self.server_kwargs = dict(server_kwargs or {})
        self.backend = backend
        self.spy_setup = spy_setup
        self.net_setup = net_setup
        self.world_setup = world_setup
        self.family = family


async def _scenario(loop, sc, k, intervention, after=None):
    """returns dict: iterations, ledger, transcript, extra"""
    spy = spyio.Spy()
    wd = W.World(loop, sc.users, backend=sc.backend, server_kwargs=sc.server_kwargs, spy=spy, family=sc.family, manager_factory=sc.manager_factory)
    await wd.start()
    res = {"scenario": sc.name, "k": k}
    try:
        wd.set_tree(sc.tree)
        if sc.spy_setup:
            sc.spy_setup(spy, loop)
        if getattr(sc, "world_setup", None):
            sc.world_setup(wd)
        if sc.net_setup:
            sc.net_setup(wd.net, loop)
        ctl = Ctl(wd)
        fired = loop.create_future()
        script_task = loop.create_task(sc.script(ctl))
        state = {}

        def hook():
            try:
                state["what"] = intervention(ctl, script_task, state)
            except Exception as e:  # noqa
                state["error"] = repr(e)
            if not fired.done():
                fired.set_result(None)

        loop.iteration = 0
        loop.counting = True
        if k is not None:
            loop.hook_at = k
            loop.hook = hook
        try:
            await asyncio.wait([script_task, fired], return_when=asyncio.FIRST_COMPLETED)
            if fired.done() and not script_task.done() and state.get("what", {}).get("cancel_script", True):
                script_task.cancel()
            try:
                await script_task
            except (asyncio.CancelledError, ConnectionError, asyncio.IncompleteReadError):
                pass
            except Exception as e:  # noqa
                res["script_error"] = repr(e)
        finally:
            loop.counting = False
        res["iterations"] = loop.iteration
        res["fired"] = fired.done()
        if state.get("what", {}).get("kind") in ("vanish", "vanish-control"):
            # the peer is gone for good: endpoints it was in the middle of creating go too
            await loop.settle()
            only_control = state["what"]["kind"] == "vanish-control"
            for t in list(wd.net.all_transports):
                if t.name.startswith("c") and not t.closed and (not only_control or getattr(t, "port", None) == wd.port):
                    t.vanish()
        await loop.settle()
        # crash-point context, read before anything is released
        res["context"] = {
            "undispatched_connections": max(0, (wd.net.listeners[wd.port].active if wd.port in wd.net.listeners else 0) - len(wd.server.connections)),
            "gates_arrived": sorted(
                [name for name, (_, g) in spy.gate_name.items() if g.arrived.done() and not g.opened]
                + ["listener" for g in getattr(wd.net, "used_gates", []) if g.arrived.done() and not g.opened]
            ),
        }
        res["context"]["data_half_closed"] = state.get("data_half_closed", False)
        if "close_task" in state:
            res["context"]["undispatched_connections"] = state.get("undispatched_at_close", 0)
        # backend / listener delays are finite: let every held call go on, then look at the ledger
        for g in [g for _, g in spy.gate_name.values()] + list(spy.gates.values()) + list(getattr(wd.net, "used_gates", [])):
            g.open()
        await loop.settle()
        if state.get("what", {}).get("kind") in ("vanish", "vanish-control", "vanish-first") and any("speed_limit" in k for k in sc.server_kwargs):
            # a server with speed limits may be asleep in its OWN throttle when the peer goes (it sees the reset at its
            # next read or write): that sleep is finite and not "waiting for further input" - let it pass.  (Not after
            # server.close(): closing leaves no task behind, asleep or not.)
            await asyncio.sleep(30)
            await loop.settle()
        if spy.delay_fn is not None:
            # a backend whose calls take (virtual) time: finite - let the calls under way return
            await asyncio.sleep(5)
            await loop.settle()
        if sc.manager_factory is not None:
            # a user manager of one's own takes its (finite) time, like a backend: let its calls return
            await asyncio.sleep(2)
            await loop.settle()
        if after is not None:
            await after(ctl, state, res)
            await loop.settle()
        close_task = state.get("close_task")
        if close_task is not None:
            res["close_done"] = close_task.done()
            res["at_close_return"] = state.get("at_close_return")
        res["transcript"] = ctl.transcript
        res["notes"] = ctl.notes
        res["ledger"] = ledger(wd)
        res["state"] = {kk: vv for kk, vv in state.items() if kk in ("what", "error")}
        res["cfg"] = {"maximum_connections": sc.server_kwargs.get("maximum_connections"), "data_ports": list(sc.server_kwargs.get("data_ports") or []) or None}
        res["tree"] = wd.tree()
        res["wd_spy_log"] = len(spy.log)
        res["spy_calls"] = [n for _, n, _ in spy.log]
    finally:
        # release anything still held at a gate so that the loop can be torn down
        for g in list(spy.gates.values()) + [g for _, g in spy.gate_name.values()] + list(wd.net.start_gates) + list(getattr(wd.net, "used_gates", [])):
            try:
                g.open()
            except Exception:
                pass
        try:
            if wd.net.listeners.get(wd.port) is not None:
                await asyncio.wait_for(wd.stop(), 5)
            else:
                wd.finish()
        except Exception:
            wd.finish()
    return res


def run_scenario(sc, k=None, intervention=None, after=None):
    import os

    simnet.SeqTask._salt = int(getattr(sc, "task_salt", 0))
    loop = ILoop()
    asyncio.set_event_loop(loop)
    limit = float(os.environ.get("VERIF_WALL_LIMIT", "180"))
    simnet._WATCHDOG["fired"] = 0
    old = simnet._arm_watchdog(limit)
    try:
        out = loop.run_main(_scenario(loop, sc, k, intervention, after))
        if simnet._WATCHDOG["fired"]:
            raise simnet.WallClockExceeded("the event loop was starved for %.0f s of wall-clock time during this scenario" % limit)
        return out
    finally:
        simnet._disarm_watchdog(old)
        try:
            pend = [t for t in asyncio.all_tasks(loop) if not t.done()]
            for t in pend:
                t.cancel()
            if pend:
                loop.run_until_complete(asyncio.gather(*pend, return_exceptions=True))
            loop.run_until_complete(loop.shutdown_default_executor())
        except Exception:
            pass
        asyncio.set_event_loop(None)
        loop.close()


# ---- interventions -------------------------------------------------------------------------------
def cut_vanish(ctl, script_task, state):
    """every client endpoint of every session disappears (RST)"""
    state["data_half_closed"] = any(
        t.name.startswith("c") and t.port != ctl.wd.port and t.closed and t.peer is not None and not t.peer.closed for t in ctl.wd.net.all_transports
    )
    for t in list(ctl.wd.net.all_transports):
        if t.name.startswith("c") and not t.closed:
            t.vanish()
    return {"kind": "vanish"}


def cut_vanish_first(ctl, script_task, state):
    """only the first client's endpoints disappear; other sessions go on"""
    if ctl.clients:
        c = ctl.clients[0]
        c.vanish()
    return {"kind": "vanish-first", "cancel_script": True}


async def _close_probe(wd, state):
    """Server.close(), noting - at the instant it starts to execute - how many control connections have been
    accepted whose dispatcher task has not started yet (they are invisible to close())"""
    registered = {key.writer.transport for key in wd.server.connections}
    live = [t for t in wd.net.all_transports if t.name.startswith("s") and getattr(t, "port", None) == wd.port and not t.closing and not t.closed]
    state["undispatched_at_close"] = len([t for t in live if t not in registered])
    await wd.server.close()
    # "closing the server ... leaves no task ... of the server behind": at the very moment close() comes back, before
    # anything else runs - tasks whose code is aioftp's and that are not finished, files still open, sessions still
    # in the table
    left = []
    for t in asyncio.all_tasks(wd.loop):
        if t.done():
            continue
        co = t.get_coro()
        code = getattr(co, "cr_code", None) or getattr(co, "gi_code", None)
        if code is not None and "/aioftp/" in code.co_filename:
            left.append(getattr(co, "__qualname__", str(co)))
    state["at_close_return"] = {"tasks": sorted(left), "connections": len(wd.server.connections), "open_files": sorted(v[0] for v in wd.spy.open_files.values())}


def cut_vanish_control(ctl, script_task, state):
    """only the control connections disappear; data connections stay open (and unread)"""
    for t in list(ctl.wd.net.all_transports):
        if t.name.startswith("c") and getattr(t, "port", None) == ctl.wd.port and not t.closed:
            t.vanish()
    return {"kind": "vanish-control"}


def cut_close_and_connect(ctl, script_task, state):
    """server.close() and, in the same instant, a new client trying to connect"""
    wd = ctl.wd
    state["close_task"] = ctl.loop.create_task(_close_probe(wd, state))

    async def late():
        try:
            r, w = await wd.net.open_connection(wd.net.host, wd.port)
            state["late_connected"] = True
            state["late_writer"] = w
        except OSError:
            state["late_connected"] = False

    state["late_task"] = ctl.loop.create_task(late())
    return {"kind": "server-close+connect"}


def cut_server_close(ctl, script_task, state):
    wd = ctl.wd
    state["close_task"] = ctl.loop.create_task(_close_probe(wd, state))
    return {"kind": "server-close"}
