"""Translator, server part: decorator stacks of every handler (from the live bound methods),
nested worker stacks / return-False sites / reply codes / restart-offset reset set / censor list /
logger call sites / stream constructor keywords (from the ast), MRO facts and constants.
"""
import ast
import importlib
import inspect
import os
import sys

try:
    from .extract import lean_list, lean_str
except ImportError:  # run as a script
    from extract import lean_list, lean_str  # type: ignore


FIELD = {
    "user": "user",
    "logged": "logged",
    "passive_server": "passiveServer",
    "data_connection": "dataConnection",
    "rename_from": "renameFrom",
}
PATHCOND = {
    ("exists", False): "mustExist",
    ("exists", True): "mustNotExist",
    ("is_dir", False): "mustBeDir",
    ("is_file", False): "mustBeFile",
}
PERM = {"readable": "readable", "writable": "writable"}


def _fresh_aioftp():
    import aioftp  # noqa
    import aioftp.server, aioftp.client, aioftp.common, aioftp.pathio, aioftp.errors  # noqa

    return aioftp


def _src(modname):
    mod = sys.modules[modname]
    with open(mod.__file__) as f:
        return f.read(), mod.__file__


def walk_stack(func, server_mod):
    """outermost-first list of guards recovered from the closure cells of the wrappers"""
    out = []
    f = func
    seen = 0
    while hasattr(f, "__wrapped__") and seen < 20:
        seen += 1
        deco = None
        if f.__closure__:
            for name, cell in zip(f.__code__.co_freevars, f.__closure__):
                if name == "self":
                    deco = cell.cell_contents
        if isinstance(deco, server_mod.ConnectionConditions):
            fields = []
            for fld in deco.fields:
                fields.append(FIELD.get(fld[0], "unknown_" + str(fld[0])))
            out.append(("conn", fields, bool(deco.wait), str(deco.fail_code)))
        elif isinstance(deco, server_mod.PathConditions):
            conds = [PATHCOND.get((c[0], c[1]), "unknown_%s_%s" % (c[0], c[1])) for c in deco.conditions]
            out.append(("path", conds))
        elif isinstance(deco, server_mod.PathPermissions):
            out.append(("perm", [PERM.get(p, "unknown_" + str(p)) for p in deco.permissions]))
        else:
            out.append(("other", f.__qualname__))
        f = f.__wrapped__
    return out, f


def guard_lean(g):
    if g[0] == "conn":
        return ".conn [%s] %s %s" % (", ".join("." + x for x in g[1]), "true" if g[2] else "false", g[3])
    if g[0] == "path":
        return ".path [%s]" % ", ".join("." + x for x in g[1])
    if g[0] == "perm":
        return ".perm [%s]" % ", ".join("." + x for x in g[1])
    if g[0] == "worker":
        return ".worker"
    return ".unknownDecorator_" + "".join(ch if ch.isalnum() else "_" for ch in str(g[1]))


class ServerFacts:
    def __init__(self):
        aioftp = _fresh_aioftp()
        S = aioftp.server
        self.S = S
        self.server = S.Server()
        self.mapping = dict(self.server.commands_mapping)
        src, path = _src("aioftp.server")
        self.tree = ast.parse(src)
        self.src = src
        self.cls = next(n for n in self.tree.body if isinstance(n, ast.ClassDef) and n.name == "Server")
        self.methods = {n.name: n for n in self.cls.body if isinstance(n, (ast.AsyncFunctionDef, ast.FunctionDef))}
        self.verbs = sorted(self.mapping)
        self.method_of = {}
        self.own_stack = {}
        for verb, bound in self.mapping.items():
            stack, base = walk_stack(bound.__func__, S)
            self.method_of[verb] = base.__name__
            self.own_stack[verb] = stack
        self.verb_of_method = {m: v for v, m in self.method_of.items()}
        # delegation: body is `return await self.<other>(connection, ...)`
        self.delegate = {}
        for verb, m in self.method_of.items():
            node = self.methods[m]
            body = [s for s in node.body if not (isinstance(s, ast.Expr) and isinstance(s.value, ast.Constant))]
            if len(body) == 1 and isinstance(body[0], ast.Return) and isinstance(body[0].value, ast.Await):
                call = body[0].value.value
                if (
                    isinstance(call, ast.Call)
                    and isinstance(call.func, ast.Attribute)
                    and isinstance(call.func.value, ast.Name)
                    and call.func.value.id == "self"
                    and call.func.attr in self.verb_of_method
                ):
                    self.delegate[verb] = self.verb_of_method[call.func.attr]
        self.stack = {}
        for verb in self.verbs:
            st = list(self.own_stack[verb])
            v = verb
            hops = 0
            while v in self.delegate and hops < 5:
                v = self.delegate[v]
                st += self.own_stack[v]
                hops += 1
            self.stack[verb] = st

    # ---- ast helpers -------------------------------------------------------------------------
    def deco_of(self, d):
        """ast decorator expression -> guard tuple"""
        if isinstance(d, ast.Name) and d.id == "worker":
            return ("worker",)
        if isinstance(d, ast.Call) and isinstance(d.func, ast.Name):
            name = d.func.id
            if name == "ConnectionConditions":
                fields = []
                for a in d.args:
                    if isinstance(a, ast.Attribute):
                        tup = getattr(self.S.ConnectionConditions, a.attr, None)
                        fields.append(FIELD.get(tup[0], "unknown") if tup else "unknown_" + a.attr)
                    else:
                        fields.append("unknown_expr")
                kw = {k.arg: k.value for k in d.keywords}
                wait = bool(kw["wait"].value) if "wait" in kw and isinstance(kw["wait"], ast.Constant) else False
                code = kw["fail_code"].value if "fail_code" in kw and isinstance(kw["fail_code"], ast.Constant) else "503"
                return ("conn", fields, wait, str(code))
            if name == "PathConditions":
                conds = []
                for a in d.args:
                    tup = getattr(self.S.PathConditions, a.attr, None) if isinstance(a, ast.Attribute) else None
                    conds.append(PATHCOND.get((tup[0], tup[1]), "unknown") if tup else "unknown")
                return ("path", conds)
            if name == "PathPermissions":
                perms = []
                for a in d.args:
                    v = getattr(self.S.PathPermissions, a.attr, None) if isinstance(a, ast.Attribute) else None
                    perms.append(PERM.get(v, "unknown"))
                return ("perm", perms)
        return ("other", ast.dump(d)[:40])

    def worker_stacks(self):
        out = {}
        for verb in self.verbs:
            v = verb
            while v in self.delegate:
                v = self.delegate[v]
            node = self.methods[self.method_of[v]]
            for sub in node.body:
                if isinstance(sub, ast.AsyncFunctionDef) and sub.name.endswith("_worker"):
                    out[verb] = [self.deco_of(d) for d in sub.decorator_list]
        return out

    def worker_contexts(self):
        """for each verb with a nested worker: the items of its `async with`, in source order
        ("stream" = the data connection, "file" = anything else)"""
        out = {}
        for verb in self.verbs:
            v = verb
            while v in self.delegate:
                v = self.delegate[v]
            node = self.methods[self.method_of[v]]
            for sub in node.body:
                if isinstance(sub, ast.AsyncFunctionDef) and sub.name.endswith("_worker"):
                    # the names bound to the data connection inside the worker (`x = connection.data_connection`)
                    stream_names = set()
                    for n in ast.walk(sub):
                        if isinstance(n, ast.Assign) and isinstance(n.value, ast.Attribute) and n.value.attr == "data_connection":
                            for t in n.targets:
                                if isinstance(t, ast.Name):
                                    stream_names.add(t.id)
                    items = []
                    for n in ast.walk(sub):
                        if isinstance(n, ast.AsyncWith):
                            for it in n.items:
                                e = it.context_expr
                                items.append("stream" if isinstance(e, ast.Name) and e.id in stream_names else "file")
                    out[verb] = items
        return out

    def abor_touches_only_workers(self):
        """True only when `Server.abor` reads and writes nothing of the session but `extra_workers` and `response`
        (no data connection, listener, restart offset, login state ...), and calls nothing of the server"""
        node = self.methods["abor"]
        for n in ast.walk(node):
            if isinstance(n, ast.Attribute) and isinstance(n.value, ast.Name) and n.value.id == "connection" and n.attr not in ("extra_workers", "response"):
                return False
            if isinstance(n, ast.Attribute) and isinstance(n.value, ast.Name) and n.value.id == "self":
                return False
            if isinstance(n, ast.Subscript) and isinstance(n.value, ast.Name) and n.value.id == "connection":
                return False
            if isinstance(n, ast.Call) and isinstance(n.func, ast.Name) and n.func.id in ("getattr", "setattr", "delattr", "vars"):
                return False
        return True

    def abor_counts_finished(self):
        """does ABOR treat a worker task that has already finished as "something to abort"?
        False only when the tested collection is built with a `not <w>.done()` filter; any shape the
        translator does not recognise counts as True (the conservative answer: the proof obligation fails
        and the failing-input search decides)."""
        node = self.methods["abor"]
        filtered = set()
        for n in ast.walk(node):
            if isinstance(n, ast.Assign) and isinstance(n.value, (ast.ListComp, ast.SetComp, ast.GeneratorExp)):
                gen = n.value.generators[0]
                src_ok = isinstance(gen.iter, ast.Attribute) and gen.iter.attr == "extra_workers"
                cond_ok = any(
                    isinstance(c, ast.UnaryOp)
                    and isinstance(c.op, ast.Not)
                    and isinstance(c.operand, ast.Call)
                    and isinstance(c.operand.func, ast.Attribute)
                    and c.operand.func.attr == "done"
                    for c in gen.ifs
                )
                if src_ok and cond_ok:
                    for t in n.targets:
                        if isinstance(t, ast.Name):
                            filtered.add(t.id)
        for n in ast.walk(node):
            if isinstance(n, ast.If):
                t = n.test
                if isinstance(t, ast.Name) and t.id in filtered:
                    # the loop must cancel the same filtered collection
                    loops = [x for x in n.body if isinstance(x, ast.For)]
                    if loops and all(isinstance(l.iter, ast.Name) and l.iter.id in filtered for l in loops):
                        return False
                return True
        return True

    def reply_queue_facts(self):
        """(finishes_in_finally, drains_on_failure, skips_dead_writer) of the reply queue:
        * `response_writer` calls `response_queue.task_done()` in the `finally` of the try around `write_response`;
        * that try has a clause for BaseException (or a bare one) that empties the queue (get_nowait + task_done in a
          loop) and re-raises;
        * the `response=` callable handed to `Connection(...)` tests `<task>.done()` of the very task that runs
          `response_writer` (and that task is what the dispatcher creates) before it queues anything."""
        node = self.methods["response_writer"]
        fin = drain = False
        for n in ast.walk(node):
            if isinstance(n, ast.Try) and any("write_response" in ast.unparse(b) for b in n.body):
                fin = any("task_done()" in ast.unparse(b) for b in n.finalbody)
                for h in n.handlers:
                    names = ["BaseException"] if h.type is None else [ast.unparse(t).split(".")[-1] for t in (h.type.elts if isinstance(h.type, ast.Tuple) else [h.type])]
                    if "BaseException" in names:
                        loops = [x for b in h.body for x in ast.walk(b) if isinstance(x, ast.While)]
                        body = "\n".join(ast.unparse(l) for l in loops)
                        raises = any(isinstance(b, ast.Raise) and b.exc is None for b in h.body)
                        if loops and "get_nowait()" in body and "task_done()" in body and raises:
                            drain = True
        disp = self.methods["dispatcher"]
        writer_names = set()
        for n in ast.walk(disp):
            if isinstance(n, ast.Assign) and len(n.targets) == 1 and isinstance(n.targets[0], ast.Name) and "self.response_writer(" in ast.unparse(n.value) and "create_task" in ast.unparse(n.value):
                writer_names.add(n.targets[0].id)
        skip = False
        for n in ast.walk(disp):
            if isinstance(n, ast.Call) and ast.unparse(n.func) == "Connection":
                for kw in n.keywords:
                    if kw.arg == "response" and isinstance(kw.value, ast.Lambda):
                        text = ast.unparse(kw.value.body)
                        for w in writer_names:
                            if text.startswith("%s.done() or " % w) and "put_nowait" in text:
                                skip = True
        return fin, drain, skip

    def dispatcher_refuses_when_not_serving(self):
        """does `dispatcher` begin (before it registers anything) with
        `if not <server>.is_serving(): writer.close(); return` ?  A connection accepted while `close()` was on its way
        is invisible to `close()`; with this guard its dispatcher ends it at once."""
        node = self.methods["dispatcher"]
        body = [st for st in node.body if not (isinstance(st, ast.Expr) and isinstance(st.value, ast.Constant))]
        for st in body[:3]:
            test = ast.unparse(st.test) if isinstance(st, ast.If) else ""
            # `not X.is_serving()`, possibly behind `X is not None and` (a server object that was never started)
            negated = isinstance(st, ast.If) and any(
                isinstance(x, ast.UnaryOp) and isinstance(x.op, ast.Not) and "is_serving()" in ast.unparse(x.operand) for x in ast.walk(st.test)
            )
            if isinstance(st, ast.If) and negated and not any(isinstance(x, ast.BoolOp) and isinstance(x.op, ast.Or) for x in ast.walk(st.test)):
                text = [ast.unparse(x) for x in st.body]
                closes = any(t in ("writer.close()", "stream.close()") for t in text)
                returns = any(isinstance(x, ast.Return) for x in st.body)
                return bool(closes and returns)
            if "self.connections[" in ast.unparse(st):
                return False
        return False

    def dispatcher_one_command_at_a_time(self):
        """are command handlers started one at a time?  True when every `create_task(f(connection, rest))` of the
        dispatcher is assigned to ONE name N, sits in a loop guarded by `N is None`, and N is set back to None only
        where the finished task is recognised (`if task is N`)."""
        node = self.methods["dispatcher"]
        starts = []
        for n in ast.walk(node):
            if isinstance(n, ast.Call) and ast.unparse(n.func).endswith("create_task") and n.args and ast.unparse(n.args[0]) == "f(connection, rest)":
                starts.append(n)
        if len(starts) != 1:
            return False
        name = None
        for n in ast.walk(node):
            if isinstance(n, ast.Assign) and n.value is starts[0] and len(n.targets) == 1 and isinstance(n.targets[0], ast.Name):
                name = n.targets[0].id
        if name is None:
            return False
        guarded = False
        for n in ast.walk(node):
            if isinstance(n, ast.While) and ("%s is None" % name) in ast.unparse(n.test) and " or " not in ast.unparse(n.test):
                if any(x is starts[0] for x in ast.walk(n)):
                    guarded = True
        resets = [n for n in ast.walk(node) if isinstance(n, ast.Assign) and isinstance(n.targets[0], ast.Name) and n.targets[0].id == name
                  and isinstance(n.value, ast.Constant) and n.value.value is None]
        ok_resets = 0
        for n in ast.walk(node):
            if isinstance(n, ast.If) and ast.unparse(n.test) == "task is %s" % name:
                ok_resets += sum(1 for x in n.body if x in resets)
        # one reset is the initialisation before the loop, the other(s) must be under `if task is N`
        return bool(guarded and ok_resets >= 1 and len(resets) == ok_resets + 1)

    def passive_start_locked(self):
        """are the test `connection.future.passive_server.done()` and the `_start_passive_server` call of BOTH passive
        handlers (pasv, epsv) inside one `async with` on a per-connection lock created in the dispatcher's
        `Connection(...)` call?  (every command runs as its own task: without it two pipelined passive commands race)"""
        disp = self.methods["dispatcher"]
        lock_names = set()
        for n in ast.walk(disp):
            if isinstance(n, ast.Call) and ast.unparse(n.func) == "Connection":
                for kw in n.keywords:
                    if kw.arg and isinstance(kw.value, ast.Call) and ast.unparse(kw.value.func) in ("asyncio.Lock", "Lock"):
                        lock_names.add(kw.arg)
        if not lock_names:
            return False
        for name in ("pasv", "epsv"):
            node = self.methods[name]
            ok = False
            for n in ast.walk(node):
                if isinstance(n, ast.AsyncWith) and any(ast.unparse(it.context_expr) in {"connection." + l for l in lock_names} for it in n.items):
                    text = "\n".join(ast.unparse(b) for b in n.body)
                    if "passive_server.done()" in text and "_start_passive_server" in text and "connection.passive_server = " in text:
                        ok = True
            # nothing of the kind outside the locked region either
            outside = [x for x in ast.walk(node) if isinstance(x, ast.Call) and "_start_passive_server" in ast.unparse(x.func)]
            if not ok or len(outside) != 1:
                return False
        return True

    def passive_cancel_returns_port(self):
        """does `_start_passive_server` put the port back when the awaited start-up is cancelled?
        True when the try around `start_server` has a handler for CancelledError / BaseException (or a bare
        except) whose body calls `put_nowait` and re-raises."""
        node = self.methods["_start_passive_server"]
        for n in ast.walk(node):
            if isinstance(n, ast.Try):
                awaits_start = any(
                    isinstance(x, ast.Await) and "start_server" in ast.unparse(x) for b in n.body for x in ast.walk(b)
                )
                if not awaits_start:
                    continue
                for h in n.handlers:
                    names = []
                    if h.type is None:
                        names = ["BaseException"]
                    else:
                        ts = h.type.elts if isinstance(h.type, ast.Tuple) else [h.type]
                        names = [ast.unparse(t).split(".")[-1] for t in ts]
                    if "CancelledError" in names or "BaseException" in names:
                        puts = any(
                            isinstance(x, ast.Call) and isinstance(x.func, ast.Attribute) and x.func.attr == "put_nowait"
                            for b in h.body
                            for x in ast.walk(b)
                        )
                        raises = any(isinstance(b, ast.Raise) and b.exc is None for b in h.body)
                        if puts and raises:
                            return True
                for fb in n.finalbody:
                    pass
        return False

    def closing_codes(self):
        """for each verb: reply codes queued in the statements right before a `return False`"""
        out = {}
        for verb in self.verbs:
            node = self.methods[self.method_of[verb]]
            codes = []

            def visit(body):
                for i, st in enumerate(body):
                    if isinstance(st, ast.Return) and isinstance(st.value, ast.Constant) and st.value.value is False:
                        found = None
                        for prev in reversed(body[:i]):
                            c = self.codes_in(prev)
                            if c:
                                found = c
                                break
                        codes.extend(found or ["0"])
                    for fld in ("body", "orelse", "handlers", "finalbody"):
                        sub = getattr(st, fld, None)
                        if isinstance(sub, list):
                            visit([x for x in sub if isinstance(x, ast.stmt)])
                            for h in sub:
                                if isinstance(h, ast.ExceptHandler):
                                    visit(h.body)

            visit(node.body)
            out[verb] = sorted(set(codes))
        return out

    @staticmethod
    def codes_in(node):
        """3-digit string constants used as reply codes inside `node`"""
        found = []
        for n in ast.walk(node):
            if isinstance(n, ast.Call) and isinstance(n.func, ast.Attribute) and n.func.attr == "response":
                if n.args and isinstance(n.args[0], ast.Constant) and isinstance(n.args[0].value, str):
                    found.append(n.args[0].value)
            if isinstance(n, ast.Assign):
                for t in n.targets:
                    names = []
                    if isinstance(t, ast.Name):
                        names = [t.id]
                        vals = [n.value]
                    elif isinstance(t, ast.Tuple) and isinstance(n.value, ast.Tuple):
                        names = [e.id if isinstance(e, ast.Name) else None for e in t.elts]
                        vals = list(n.value.elts)
                    else:
                        vals = []
                    for nm, v in zip(names, vals):
                        if nm == "code" and isinstance(v, ast.Constant) and isinstance(v.value, str):
                            found.append(v.value)
        return [c for c in found if len(c) == 3 and c.isdigit()]

    def reply_codes(self):
        out = {}
        for verb in self.verbs:
            node = self.methods[self.method_of[verb]]
            out[verb] = sorted(set(self.codes_in(node)))
        return out

    def restart_keep_set(self):
        node = self.methods["dispatcher"]
        for n in ast.walk(node):
            if isinstance(n, ast.If) and isinstance(n.test, ast.Compare):
                t = n.test
                if (
                    isinstance(t.left, ast.Name)
                    and t.left.id == "cmd"
                    and len(t.ops) == 1
                    and isinstance(t.ops[0], ast.NotIn)
                    and isinstance(t.comparators[0], ast.Tuple)
                ):
                    assigns = [
                        s
                        for s in n.body
                        if isinstance(s, ast.Assign)
                        and isinstance(s.targets[0], ast.Attribute)
                        and s.targets[0].attr == "restart_offset"
                    ]
                    if assigns:
                        return [e.value for e in t.comparators[0].elts]
        return None

    def dispatch_offsets(self):
        """effect of the dispatcher's command branch on (restart_offset, transfer_offset), per verb and for an
        unknown verb: the statements of the `isinstance(result, tuple)` branch are interpreted in order, `if`
        tests evaluated with the concrete `cmd` and `f`; each offset ends up holding the OLD restart offset
        ("restart"), the OLD transfer offset ("transfer") or 0 ("zero").  Anything the interpreter does not
        understand gives "unknown" (which the model maps to no theorem going through)."""
        node = self.methods["dispatcher"]
        branch = None
        # the statement list that unpacks a parsed command line (`cmd, rest = ...`): the `isinstance(result, tuple)`
        # branch itself, or the loop that takes the parsed lines from a backlog one at a time
        for n in ast.walk(node):
            for body in (getattr(n, "body", None), getattr(n, "orelse", None)):
                if not isinstance(body, list):
                    continue
                for stt in body:
                    if (isinstance(stt, ast.Assign) and len(stt.targets) == 1 and isinstance(stt.targets[0], ast.Tuple)
                            and [getattr(e, "id", None) for e in stt.targets[0].elts] == ["cmd", "rest"]):
                        branch = body
        if branch is None:
            return None

        def offs_attr(e):
            return (
                e.attr
                if isinstance(e, ast.Attribute) and isinstance(e.value, ast.Name) and e.value.id == "connection" and e.attr in ("restart_offset", "transfer_offset")
                else None
            )

        def run(body, env, st):
            for stt in body:
                if st.get("_stopped"):
                    return st
                if isinstance(stt, (ast.Continue, ast.Break, ast.Return)):
                    # the rest of the branch is not executed for this verb
                    st["_stopped"] = True
                    return st
                if isinstance(stt, ast.Assign) and len(stt.targets) == 1 and offs_attr(stt.targets[0]):
                    tgt = offs_attr(stt.targets[0])
                    if isinstance(stt.value, ast.Constant) and stt.value.value == 0:
                        st[tgt] = "zero"
                    elif offs_attr(stt.value):
                        st[tgt] = st[offs_attr(stt.value)]
                    else:
                        st[tgt] = "unknown"
                elif isinstance(stt, ast.If):
                    try:
                        val = eval(compile(ast.Expression(stt.test), "<dispatcher>", "eval"), {"__builtins__": {}}, dict(env))
                    except Exception:
                        st["restart_offset"] = st["transfer_offset"] = "unknown"
                        continue
                    run(stt.body if val else stt.orelse, env, st)
            return st

        out = {}
        for verb in self.verbs + [None]:
            env = {"cmd": verb if verb is not None else "\x00unknown", "f": (self.mapping.get(verb) if verb is not None else None), "rest": ""}
            st = run(branch, env, {"restart_offset": "restart", "transfer_offset": "transfer"})
            out[verb] = (st["restart_offset"], st["transfer_offset"])
        return out

    def offset_fields(self):
        """which connection attribute each transfer worker seeks to: `await file.seek(connection.<attr>)`"""
        out = {}
        for verb in self.verbs:
            v = verb
            while v in self.delegate:
                v = self.delegate[v]
            node = self.methods[self.method_of[v]]
            for sub in node.body:
                if isinstance(sub, ast.AsyncFunctionDef) and sub.name.endswith("_worker"):
                    attrs = set()
                    for n in ast.walk(sub):
                        if isinstance(n, ast.Call) and isinstance(n.func, ast.Attribute) and n.func.attr == "seek":
                            for a in n.args:
                                if isinstance(a, ast.Attribute) and isinstance(a.value, ast.Name) and a.value.id == "connection":
                                    attrs.add(a.attr)
                    # every other mention of an *_offset attribute in the worker must be the same one
                    for n in ast.walk(sub):
                        if isinstance(n, ast.Attribute) and isinstance(n.value, ast.Name) and n.value.id == "connection" and n.attr.endswith("_offset"):
                            attrs.add(n.attr)
                    if attrs:
                        out[verb] = sorted(attrs)[0] if len(attrs) == 1 else "mixed:" + ",".join(sorted(attrs))
        return out

    def user_deletes(self):
        """attributes of `connection` that `Server.user` deletes unconditionally before it looks the new login up"""
        node = self.methods["user"]
        out = []
        for st in node.body:
            if isinstance(st, ast.Delete):
                for t in st.targets:
                    if isinstance(t, ast.Attribute) and isinstance(t.value, ast.Name) and t.value.id == "connection":
                        out.append(t.attr)
            if "get_user" in ast.unparse(st):
                break
        return out

    def censor_commands(self):
        node = self.methods["parse_command"]
        args = node.args
        names = [a.arg for a in args.args]
        defaults = args.defaults
        m = dict(zip(names[len(names) - len(defaults) :], defaults))
        d = m.get("censor_commands")
        if isinstance(d, ast.Tuple):
            return [e.value for e in d.elts]
        return None

    def permission_lookup_on_virtual_path(self):
        """True only when the wrapper of `PathPermissions.__call__` takes the virtual path from `get_paths` - the same
        call every handler makes for the location it acts on - and looks the permission up for exactly that value"""
        cls = next((n for n in self.tree.body if isinstance(n, ast.ClassDef) and n.name == "PathPermissions"), None)
        call = next((n for n in (cls.body if cls else []) if isinstance(n, ast.FunctionDef) and n.name == "__call__"), None)
        wrapper = next((n for n in (call.body if call else []) if isinstance(n, ast.AsyncFunctionDef)), None)
        if wrapper is None or len(wrapper.body) < 2:
            return False
        t0, t1 = ast.unparse(wrapper.body[0]), ast.unparse(wrapper.body[1])
        if t0 != "real_path, virtual_path = cls.get_paths(connection, rest)" or t1 != "current_permission = await connection.user.get_permissions(virtual_path)":
            return False
        # nothing re-binds virtual_path or rest before the lookup, and no other lookup is made
        return sum("get_permissions" in ast.unparse(n) for n in wrapper.body) == 1

    def get_permissions_shape(self):
        """True only for the body as written: the decision is a function of `self.permissions` as it is at the call and
        of the path - nothing is kept between two calls"""
        cls = next((n for n in self.tree.body if isinstance(n, ast.ClassDef) and n.name == "User"), None)
        fn = next((n for n in (cls.body if cls else []) if isinstance(n, ast.AsyncFunctionDef) and n.name == "get_permissions"), None)
        if fn is None:
            return False
        body = [st for st in fn.body if not (isinstance(st, ast.Expr) and isinstance(getattr(st, "value", None), ast.Constant))]
        want = [
            "path = pathlib.PurePosixPath(path)",
            "parents = filter(lambda p: p.is_parent(path), self.permissions)",
            "perm = min(parents, key=lambda p: len(path.relative_to(p.path).parts), default=Permission())",
            "return perm",
        ]
        return [ast.unparse(st) for st in body] == want

    def parse_command_shape(self):
        """True only for: `s = line.decode(encoding=self.encoding).rstrip()` (no argument: all white space),
        `cmd, _, rest = s.partition(' ')`, `return (cmd.lower(), rest)` - what `Model.Session.parseCommand` says"""
        node = self.methods["parse_command"]
        texts = [ast.unparse(st) for st in node.body]
        need = ["s = line.decode(encoding=self.encoding).rstrip()", "cmd, _, rest = s.partition(' ')", "return (cmd.lower(), rest)"]
        pos = -1
        for t in need:
            if t not in texts[pos + 1 :]:
                return False
            pos = texts.index(t, pos + 1)
        # nothing else may assign to s, cmd or rest
        for n in ast.walk(node):
            if isinstance(n, (ast.Assign, ast.AugAssign, ast.AnnAssign)) and ast.unparse(n) not in need:
                targets = n.targets if isinstance(n, ast.Assign) else [n.target]
                if any(isinstance(x, ast.Name) and x.id in ("s", "cmd", "rest") for t in targets for x in ast.walk(t)):
                    return False
        return True

    def rest_predicate(self):
        """the str predicate that guards `int(rest)` in the REST handler"""
        node = self.methods["rest"]
        for n in ast.walk(node):
            if isinstance(n, ast.If) and isinstance(n.test, ast.Call) and isinstance(n.test.func, ast.Attribute):
                if isinstance(n.test.func.value, ast.Name) and n.test.func.value.id == "rest":
                    return n.test.func.attr
        return "unknown"

    def stream_kwargs(self):
        """keywords passed to ThrottleStreamIO(...) in dispatcher / pasv / epsv handlers"""
        out = {}
        for m in ("dispatcher", "pasv", "epsv"):
            node = self.methods[m]
            for n in ast.walk(node):
                if isinstance(n, ast.Call) and isinstance(n.func, ast.Name) and n.func.id == "ThrottleStreamIO":
                    kws = {}
                    for k in n.keywords:
                        if k.arg in ("timeout", "read_timeout", "write_timeout"):
                            kws[k.arg] = ast.unparse(k.value)
                    out[m] = kws
        return out


def logger_sites():
    """every logger.<level>(...) call in the package: (module, function, level, first-arg source, n args)"""
    sites = []
    for modname in ("aioftp.server", "aioftp.client", "aioftp.common", "aioftp.pathio", "aioftp.errors"):
        src, _ = _src(modname)
        tree = ast.parse(src)

        def visit(node, qual):
            for child in ast.iter_child_nodes(node):
                q = qual
                if isinstance(child, (ast.FunctionDef, ast.AsyncFunctionDef, ast.ClassDef)):
                    q = (qual + "." if qual else "") + child.name
                if (
                    isinstance(child, ast.Call)
                    and isinstance(child.func, ast.Attribute)
                    and isinstance(child.func.value, ast.Name)
                    and child.func.value.id in ("logger", "logging")
                ):
                    args = [ast.unparse(a) for a in child.args]
                    sites.append((modname.split(".")[1], q, child.func.attr, args))
                visit(child, q)

        visit(tree, "")
        # any other use of print / warnings / logging that could carry a line
        for n in ast.walk(tree):
            if isinstance(n, ast.Call) and isinstance(n.func, ast.Name) and n.func.id == "print":
                sites.append((modname.split(".")[1], "?", "print", [ast.unparse(a) for a in n.args]))
    return sites


def gen_server():
    F = ServerFacts()
    verbs = F.verbs

    def ident(v):
        return v if v.isidentifier() else "v_" + "".join(ch if ch.isalnum() else "_" for ch in v)

    # Lean keywords among verbs (`type`) need «» quoting
    def lid(v):
        return "«%s»" % ident(v)

    ws = F.worker_stacks()
    closing = F.closing_codes()
    codes = F.reply_codes()
    censor = F.censor_commands()
    sk = F.stream_kwargs()
    lines = []
    lines.append("/- GENERATED by harness/extract_server.py from /repo/src/aioftp/server.py. Do not edit. -/")
    lines.append("import AioftpModel.Model.GuardTypes")
    lines.append("namespace Generated")
    lines.append("open Model")
    lines.append("")
    lines.append("/-- keys of `Server.commands_mapping` -/")
    lines.append("inductive Verb where")
    for v in verbs:
        lines.append("  | %s" % lid(v))
    lines.append("  deriving DecidableEq, Repr, Inhabited")
    lines.append("")
    lines.append("def Verb.all : List Verb := [%s]" % ", ".join("." + lid(v) for v in verbs))
    lines.append("")
    lines.append("def Verb.name : Verb → String")
    for v in verbs:
        lines.append("  | .%s => %s" % (lid(v), lean_str(v)))
    lines.append("")
    lines.append("/-- the Python method a verb is bound to -/")
    lines.append("def Verb.method : Verb → String")
    for v in verbs:
        lines.append("  | .%s => %s" % (lid(v), lean_str(F.method_of[v])))
    lines.append("")
    lines.append("/-- `return await self.<other>(…)` delegation -/")
    lines.append("def Verb.delegate : Verb → Option Verb")
    for v in verbs:
        d = F.delegate.get(v)
        lines.append("  | .%s => %s" % (lid(v), "some ." + lid(d) if d else "none"))
    lines.append("")
    lines.append("/-- decorator stack, outermost first, with delegation unfolded -/")
    lines.append("def Verb.guards : Verb → List Guard")
    for v in verbs:
        lines.append("  | .%s => [%s]" % (lid(v), ", ".join(guard_lean(g) for g in F.stack[v])))
    lines.append("")
    lines.append("/-- decorators of the nested `*_worker` (outermost first); [] = no worker -/")
    lines.append("def Verb.workerGuards : Verb → List Guard")
    for v in verbs:
        lines.append("  | .%s => [%s]" % (lid(v), ", ".join(guard_lean(g) for g in ws.get(v, []))))
    lines.append("")
    wc = F.worker_contexts()
    lines.append("/-- items of the worker's `async with`, in source order (entered left to right, exited right to left) -/")
    lines.append("inductive Ctx where | stream | file deriving DecidableEq, Repr")
    lines.append("def Verb.workerContexts : Verb → List Ctx")
    for v in verbs:
        lines.append("  | .%s => [%s]" % (lid(v), ", ".join("." + c for c in wc.get(v, []))))
    lines.append("")
    lines.append("/-- reply codes queued immediately before a `return False` in the handler -/")
    lines.append("def Verb.closingCodes : Verb → List Nat")
    for v in verbs:
        lines.append("  | .%s => [%s]" % (lid(v), ", ".join(str(int(c)) for c in closing[v])))
    lines.append("")
    lines.append("/-- every literal reply code appearing in the handler body (own method only) -/")
    lines.append("def Verb.replyCodes : Verb → List Nat")
    for v in verbs:
        lines.append("  | .%s => [%s]" % (lid(v), ", ".join(str(int(c)) for c in codes[v])))
    lines.append("")
    do = F.dispatch_offsets() or {}
    lines.append("/-- what an offset holds after the dispatcher's command branch ran: the old restart offset, the old")
    lines.append("    transfer offset, zero — or something the translator could not read -/")
    lines.append("inductive OffSrc where | restart | transfer | zero | unknown deriving DecidableEq, Repr")
    lines.append("/-- (restart_offset, transfer_offset) after dispatch, per verb -/")
    lines.append("def Verb.dispatchOffsets : Verb → OffSrc × OffSrc")
    for v in verbs:
        a, b = do.get(v, ("unknown", "unknown"))
        lines.append("  | .%s => (.%s, .%s)" % (lid(v), a, b))
    a, b = do.get(None, ("unknown", "unknown"))
    lines.append("/-- the same for a verb that is not in `commands_mapping` -/")
    lines.append("def dispatchOffsetsUnknown : OffSrc × OffSrc := (.%s, .%s)" % (a, b))
    of = F.offset_fields()
    lines.append("/-- the connection attribute a transfer worker takes its offset from (\"\" = the verb has no such worker) -/")
    lines.append("def Verb.offsetField : Verb → String")
    for v in verbs:
        lines.append("  | .%s => %s" % (lid(v), lean_str(of.get(v, ""))))
    lines.append("")
    lines.append("/-- what `Server.user` deletes from the connection before it looks the new login up -/")
    lines.append("def userDeletes : List String := [%s]" % ", ".join(lean_str(x) for x in F.user_deletes()))
    lines.append("")
    lines.append("/-- the predicate guarding `int(rest)` in the REST handler: `rest.<pred>()` -/")
    lines.append("def restPredicate : String := %s" % lean_str(F.rest_predicate()))
    lines.append("")
    lines.append("/-- default of `parse_command(censor_commands=…)` -/")
    lines.append("def censorCommands : List String := [%s]" % ", ".join(lean_str(c) for c in (censor or [])))
    lines.append("")
    lines.append("/-- timeout keywords of the three ThrottleStreamIO constructions (method, keyword, source expr) -/")
    trip = []
    for m in sorted(sk):
        for k in sorted(sk[m]):
            trip.append("(%s, %s, %s)" % (lean_str(m), lean_str(k), lean_str(sk[m][k])))
    lines.append("def streamTimeoutKw : List (String × String × String) := %s" % lean_list(trip, 1))
    lines.append("")
    E = sys.modules["aioftp.errors"]
    lines.append("/-- `issubclass(NoAvailablePort, OSError)` -/")
    lines.append("def noAvailablePortIsOSError : Bool := %s" % ("true" if issubclass(E.NoAvailablePort, OSError) else "false"))
    lines.append("/-- `issubclass(asyncio.CancelledError, OSError)` (never, but stated) -/")
    import asyncio

    lines.append("def cancelledIsOSError : Bool := %s" % ("true" if issubclass(asyncio.CancelledError, OSError) else "false"))
    lines.append("/-- ABOR counts a finished-but-unreaped worker task as something to abort -/")
    lines.append("def aborCountsFinished : Bool := %s" % ("true" if F.abor_counts_finished() else "false"))
    lines.append("/-- `Server.abor` touches nothing of the session but `extra_workers` and `response` -/")
    lines.append("def aborTouchesOnlyWorkers : Bool := %s" % ("true" if F.abor_touches_only_workers() else "false"))
    lines.append("/-- `_start_passive_server` puts the port back when the awaited start-up is cancelled -/")
    lines.append("def passiveCancelReturnsPort : Bool := %s" % ("true" if F.passive_cancel_returns_port() else "false"))
    lines.append("/-- PASV and EPSV test for an existing listener, start one and record it inside `async with` on a per-connection lock -/")
    lines.append("def passiveStartLocked : Bool := %s" % ("true" if F.passive_start_locked() else "false"))
    lines.append("/-- `dispatcher` starts with `if not self.server.is_serving(): writer.close(); return` -/")
    lines.append("def dispatcherRefusesWhenNotServing : Bool := %s" % ("true" if F.dispatcher_refuses_when_not_serving() else "false"))
    lines.append("/-- `User.get_permissions` is, as written, filter(is_parent) over `self.permissions` as it is at the call, then `min` by the depth below the entry, default allow-all: nothing is kept between calls -/")
    lines.append("def getPermissionsAsModelled : Bool := %s" % ("true" if F.get_permissions_shape() else "false"))
    lines.append("/-- `PathPermissions` looks the permission up for the virtual path `get_paths(connection, rest)` returns -/")
    lines.append("def permissionLookupOnVirtualPath : Bool := %s" % ("true" if F.permission_lookup_on_virtual_path() else "false"))
    lines.append("/-- `parse_command` is decode, `rstrip()` without argument, `partition(' ')`, `lower()` of the first word -/")
    lines.append("def parseCommandRstripPartitionLower : Bool := %s" % ("true" if F.parse_command_shape() else "false"))
    lines.append("/-- the dispatcher starts the handler of a command only when the handler of the previous one has returned -/")
    lines.append("def dispatcherOneCommandAtATime : Bool := %s" % ("true" if F.dispatcher_one_command_at_a_time() else "false"))
    _fin, _drain, _skip = F.reply_queue_facts()
    lines.append("/-- `response_writer` marks the reply it took as done in a `finally` (also when the write failed) -/")
    lines.append("def replyWriterFinishesInFinally : Bool := %s" % ("true" if _fin else "false"))
    lines.append("/-- a failing `response_writer` empties the queue (marking every item done) before it re-raises -/")
    lines.append("def replyWriterDrainsOnFailure : Bool := %s" % ("true" if _drain else "false"))
    lines.append("/-- `connection.response` queues nothing once the task that runs `response_writer` is done -/")
    lines.append("def replySkipsDeadWriter : Bool := %s" % ("true" if _skip else "false"))
    lines.append("def cancelledIsException : Bool := %s" % ("true" if issubclass(asyncio.CancelledError, Exception) else "false"))
    C = sys.modules["aioftp.common"]
    lines.append("")
    lines.append("def halfYearSeconds : Nat := %d" % int(C.HALF_OF_YEAR_IN_SECONDS))
    two = C.TWO_YEARS_IN_SECONDS
    assert float(two).is_integer()
    lines.append("def twoYearsSeconds : Nat := %d" % int(two))
    lines.append("def defaultBlockSize : Nat := %d" % int(C.DEFAULT_BLOCK_SIZE))
    lines.append("def endOfLine : List Nat := [%s]" % ", ".join(str(ord(c)) for c in C.END_OF_LINE))
    lines.append("")
    sites = logger_sites()
    lines.append("/-- every logging call site: (module, function, level, argument sources) -/")
    lines.append(
        "def logSites : List (String × String × String × List String) := %s"
        % lean_list(
            (
                "(%s, %s, %s, [%s])" % (lean_str(a), lean_str(b), lean_str(c), ", ".join(lean_str(x) for x in d))
                for a, b, c, d in sites
            ),
            1,
        )
    )
    lines.append("")
    lines.append("end Generated")
    return "\n".join(lines) + "\n"


GENERATORS = {"Server.lean": gen_server}

if __name__ == "__main__":
    print(gen_server())
