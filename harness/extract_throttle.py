"""Translator for the throttle wiring (C15): reads, with `ast`, the call sites in /repo that decide which
`Throttle` objects a stream waits on, and writes them as a table to Generated/ThrottleWiring.lean.
`Properties/C15.lean` closes `wiring_sites_as_modelled` over that table with `decide`, so a change of a
call site (a dropped `.clone()`, a data connection built with its own dict, a different default
`reset_rate`) stops the proof from checking.
"""
import ast
import os
import sys

REPO_SRC = os.path.join(os.environ.get("AIOFTP_REPO", "/repo"), "src")


def _src(name):
    return open(os.path.join(REPO_SRC, "aioftp", name)).read()


def _find_class(tree, name):
    for n in ast.walk(tree):
        if isinstance(n, ast.ClassDef) and n.name == name:
            return n
    raise KeyError(name)


def _find_func(cls, name):
    for n in cls.body:
        if isinstance(n, (ast.FunctionDef, ast.AsyncFunctionDef)) and n.name == name:
            return n
    raise KeyError(name)


def _calls(node, fname):
    out = []
    for n in ast.walk(node):
        if isinstance(n, ast.Call):
            f = n.func
            nm = f.id if isinstance(f, ast.Name) else (f.attr if isinstance(f, ast.Attribute) else None)
            if nm == fname:
                out.append(n)
    return out


def _kw(call, name):
    for k in call.keywords:
        if k.arg == name:
            return k.value
    return None


def _u(node):
    return ast.unparse(node) if node is not None else "<missing>"


def _assigns(func, target):
    """unparsed right-hand sides of `target = ...` inside func, in order"""
    out = []
    for n in ast.walk(func):
        if isinstance(n, ast.Assign) and len(n.targets) == 1 and _u(n.targets[0]) == target:
            out.append(_u(n.value))
    return out


def facts():
    f = {}
    server = ast.parse(_src("server.py"))
    client = ast.parse(_src("client.py"))
    common = ast.parse(_src("common.py"))

    S = _find_class(server, "Server")
    init = _find_func(S, "__init__")
    for tgt in ("self.throttle", "self.throttle_per_connection", "self.throttle_per_user"):
        f["server.__init__:" + tgt] = " ;; ".join(_assigns(init, tgt))
    disp = _find_func(S, "dispatcher")
    calls = _calls(disp, "ThrottleStreamIO")
    f["server.dispatcher:streams"] = str(len(calls))
    if calls:
        th = _kw(calls[0], "throttles")
        if isinstance(th, ast.Call) and _u(th.func) == "dict" and not th.args:
            f["server.dispatcher:throttles"] = " ;; ".join("%s=%s" % (k.arg, _u(k.value)) for k in th.keywords)
        else:
            f["server.dispatcher:throttles"] = _u(th)
    user = _find_func(S, "user")
    ups = [c for c in _calls(user, "update") if _u(c.func).endswith(".throttles.update")]
    f["server.user:update-target"] = " ;; ".join(_u(c.func) for c in ups)
    f["server.user:update"] = " ;; ".join("%s=%s" % (k.arg, _u(k.value)) for c in ups for k in c.keywords)
    f["server.user:update-positional"] = " ;; ".join(_u(a) for c in ups for a in c.args)
    # the per-user table: guard and initialiser
    guards = []
    for n in ast.walk(user):
        if isinstance(n, ast.If) and "throttle_per_user" in _u(n.test):
            guards.append(_u(n.test) + " => " + " ; ".join(_u(s) for s in n.body))
    f["server.user:per-user-init"] = " ;; ".join(guards)
    # every other construction of a throttled stream in the server (data connections)
    others = []
    for fn in S.body:
        if isinstance(fn, (ast.FunctionDef, ast.AsyncFunctionDef)) and fn.name != "dispatcher":
            for c in _calls(fn, "ThrottleStreamIO"):
                others.append("%s: %s" % (fn.name, _u(_kw(c, "throttles"))))
    f["server.data-connections:throttles"] = " ;; ".join(others)
    U = _find_class(server, "User")
    uinit = _find_func(U, "__init__")
    for a in ("read_speed_limit", "write_speed_limit", "read_speed_limit_per_connection", "write_speed_limit_per_connection"):
        f["server.User.__init__:self." + a] = " ;; ".join(_assigns(uinit, "self." + a))

    C = _find_class(client, "BaseClient")
    cinit = _find_func(C, "__init__")
    f["client.__init__:self.throttle"] = " ;; ".join(_assigns(cinit, "self.throttle"))
    sites = []
    for cls in (n for n in client.body if isinstance(n, ast.ClassDef)):
        for fn in cls.body:
            if isinstance(fn, (ast.FunctionDef, ast.AsyncFunctionDef)):
                for nm in ("ThrottleStreamIO", "DataConnectionThrottleStreamIO"):
                    for c in _calls(fn, nm):
                        sites.append("%s.%s: %s" % (cls.name, fn.name, _u(_kw(c, "throttles"))))
    f["client.streams:throttles"] = " ;; ".join(sites)

    T = _find_class(common, "Throttle")
    tinit = _find_func(T, "__init__")
    f["common.Throttle.__init__:defaults"] = ", ".join(
        "%s=%s" % (a.arg, _u(d)) for a, d in zip(tinit.args.kwonlyargs, tinit.args.kw_defaults)
    )
    f["common.Throttle.clone"] = " ;; ".join(_u(s) for s in _find_func(T, "clone").body if not isinstance(s, ast.Expr))
    ST = _find_class(common, "StreamThrottle")
    f["common.StreamThrottle.from_limits"] = " ;; ".join(
        _u(s) for s in _find_func(ST, "from_limits").body if not isinstance(s, ast.Expr)
    )
    f["common.StreamThrottle.clone"] = " ;; ".join(_u(s) for s in _find_func(ST, "clone").body if not isinstance(s, ast.Expr))
    TS = _find_class(common, "ThrottleStreamIO")
    f["common.ThrottleStreamIO.__init__"] = " ;; ".join(_u(s) for s in _find_func(TS, "__init__").body if not isinstance(s, ast.Expr))
    return f


# what Model/Throttle.lean (ServerW / ClientW / StreamThrottle.fromLimits / clone) transcribes
EXPECTED = {
    "server.__init__:self.throttle": "StreamThrottle.from_limits(read_speed_limit, write_speed_limit)",
    "server.__init__:self.throttle_per_connection": "StreamThrottle.from_limits(read_speed_limit_per_connection, write_speed_limit_per_connection)",
    "server.__init__:self.throttle_per_user": "{}",
    "server.dispatcher:streams": "1",
    "server.dispatcher:throttles": "server_global=self.throttle ;; server_per_connection=self.throttle_per_connection.clone()",
    "server.user:update-target": "connection.command_connection.throttles.update",
    "server.user:update": "user_global=self.throttle_per_user[connection.user] ;; user_per_connection=StreamThrottle.from_limits(connection.user.read_speed_limit_per_connection, connection.user.write_speed_limit_per_connection)",
    "server.user:update-positional": "",
    "server.user:per-user-init": "connection.user not in self.throttle_per_user => throttle = StreamThrottle.from_limits(connection.user.read_speed_limit, connection.user.write_speed_limit) ; self.throttle_per_user[connection.user] = throttle",
    "server.data-connections:throttles": "pasv: connection.command_connection.throttles ;; epsv: connection.command_connection.throttles",
    "server.User.__init__:self.read_speed_limit": "read_speed_limit",
    "server.User.__init__:self.write_speed_limit": "write_speed_limit",
    "server.User.__init__:self.read_speed_limit_per_connection": "read_speed_limit_per_connection",
    "server.User.__init__:self.write_speed_limit_per_connection": "write_speed_limit_per_connection",
    "client.__init__:self.throttle": "StreamThrottle.from_limits(read_speed_limit, write_speed_limit)",
    "client.streams:throttles": "BaseClient.connect: {'_': self.throttle} ;; Client.get_stream: {'_': self.throttle}",
    "common.Throttle.__init__:defaults": "limit=None, reset_rate=10",
    "common.Throttle.clone": "return Throttle(limit=self._limit, reset_rate=self.reset_rate)",
    "common.StreamThrottle.from_limits": "return cls(read=Throttle(limit=read_speed_limit), write=Throttle(limit=write_speed_limit))",
    "common.StreamThrottle.clone": "return StreamThrottle(read=self.read.clone(), write=self.write.clone())",
    "common.ThrottleStreamIO.__init__": "self.throttles = throttles",
}


def _lean_str(s):
    out = []
    for ch in s:
        if ch == '"':
            out.append('\\"')
        elif ch == "\\":
            out.append("\\\\")
        elif ch == "\n":
            out.append("\\n")
        elif 32 <= ord(ch) < 127:
            out.append(ch)
        else:
            out.append("\\u{%x}" % ord(ch))
    return '"' + "".join(out) + '"'


def wait_shape():
    """(waits on every limited throttle, cancels its waits in a finally clause) - from the body of `ThrottleStreamIO.wait`;
    an unrecognised body gives (False, False)"""
    import ast
    import os

    src_dir = os.path.join(os.environ.get("AIOFTP_REPO", "/repo"), "src")
    with open(os.path.join(src_dir, "aioftp", "common.py")) as fh:
        tree = ast.parse(fh.read())
    cls = next((n for n in tree.body if isinstance(n, ast.ClassDef) and n.name == "ThrottleStreamIO"), None)
    fn = next((n for n in (cls.body if cls else []) if isinstance(n, ast.AsyncFunctionDef) and n.name == "wait"), None)
    if fn is None:
        return False, False
    body = [st for st in fn.body if not (isinstance(st, ast.Expr) and isinstance(getattr(st, "value", None), ast.Constant))]
    texts = [ast.unparse(st) for st in body]
    head = [
        "tasks = []",
        "for throttle in self.throttles.values():\n    curr_throttle = getattr(throttle, name)\n    if curr_throttle.limit:\n        tasks.append(asyncio.create_task(curr_throttle.wait()))",
    ]
    if texts[:2] != head or len(texts) != 3:
        return False, False
    plain = "if tasks:\n    await asyncio.wait(tasks)"
    guarded = "if tasks:\n    try:\n        await asyncio.wait(tasks)\n    finally:\n        for task in tasks:\n            task.cancel()"
    if texts[2] == plain:
        return True, False
    if texts[2] == guarded:
        return True, True
    return False, False


def gen_throttle_wiring():
    f = facts()
    rows = ",\n".join("  (%s, %s)" % (_lean_str(k), _lean_str(f[k])) for k in sorted(f))
    return (
        "/- GENERATED by harness/extract_throttle.py from /repo/src/aioftp/{server,client,common}.py. Do not edit. -/\n"
        "namespace Generated\n\n"
        "/-- (call site, unparsed expression) for every place that decides which throttles a stream holds -/\n"
        "def throttleWiring : List (String × String) := [\n" + rows + "]\n\n"
        "/-- `ThrottleStreamIO.wait` starts a wait for EVERY limited throttle of the stream and awaits them all -/\n"
        "def throttleWaitOnEveryLimited : Bool := %s\n\n"
        "/-- ... and cancels those waits in a `finally` clause (they do not outlive a cancelled caller) -/\n"
        "def throttleWaitCancelsItsWaits : Bool := %s\n\n"
        "end Generated\n" % tuple("true" if x else "false" for x in wait_shape())
    )


def expected_lean():
    rows = ",\n".join("  (%s, %s)" % (_lean_str(k), _lean_str(EXPECTED[k])) for k in sorted(EXPECTED))
    return "[\n" + rows + "]"


GENERATORS = {"ThrottleWiring.lean": gen_throttle_wiring}

if __name__ == "__main__":
    fs = facts()
    for k in sorted(fs):
        print(k, "=>", fs[k], "" if EXPECTED.get(k) == fs[k] else "   <<<<< DIFFERS from EXPECTED")
    if "--lean" in sys.argv:
        print(expected_lean())
