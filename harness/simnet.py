"""In-memory network and virtual clock under which the *unmodified* aioftp server and client run.

* VLoop: a SelectorEventLoop whose time() is virtual.  When nothing is ready it first resolves the
  harness's `settle()` waiters (= "quiescent at the current virtual time"), otherwise jumps the clock to
  the next timer.  Executor jobs (AsyncPathIO) are really waited for without moving virtual time.
* Net: registry of listeners; `start_server` / `open_connection` replacements with the asyncio signatures.
* MemTransport: paired transports; ordered delivery through call_soon; optional segmentation of every
  write, optional latency, hold (peer stops reading -> flow control), orderly close (EOF) and abort (RST).
* install(net): rebinds `aioftp.server.asyncio` to a proxy module whose start_server is ours and
  `aioftp.client.open_connection` to ours.  No source hook is needed.
"""
import asyncio
import errno
import heapq
import selectors
import socket
import types


# ------------------------------------------------------------------------------------------------
# virtual-time loop
# ------------------------------------------------------------------------------------------------
class _VSelector:
    """wraps the real selector; never blocks on its own"""

    def __init__(self, real, loop):
        self._real = real
        self._loop = loop

    def __getattr__(self, name):
        return getattr(self._real, name)

    def select(self, timeout=None):
        loop = self._loop
        if _WATCHDOG["draining"] and _WATCHDOG.get("drain_deadline") is not None:
            import time as _time

            if _time.monotonic() > _WATCHDOG["drain_deadline"]:
                raise WallClockExceeded("leftover tasks did not end within the budget of the clean-up")
        if _WATCHDOG["fired"] and not _WATCHDOG["draining"]:
            # the watchdog fired inside some task, which only ended THAT task: a run that keeps yielding (a client that
            # lists a directory inside itself for ever) is ended here, from the loop itself
            raise WallClockExceeded("the run did not end within its wall-clock budget (watchdog fired %d time(s))" % _WATCHDOG["fired"])
        if timeout is not None and timeout <= 0:
            return self._real.select(0)
        ev = self._real.select(0)
        if ev:
            return ev
        # nothing ready right now
        if loop._executor_jobs > 0:
            # really wait for the worker thread; virtual time stands still
            return self._real.select(0.05)
        if loop._settle_waiters:
            ws, loop._settle_waiters = loop._settle_waiters, []
            for w in ws:
                if not w.done():
                    w.set_result(None)
            return []
        if timeout is None:
            # no timers, no waiters: deadlock.  Let the harness know.
            loop._deadlock = True
            if loop._main_task is not None and not loop._main_task.done():
                loop._main_task.cancel("simnet deadlock: nothing ready, no timers")
            return []
        # jump to the next timer
        sched = loop._scheduled
        if sched:
            loop._vtime = max(loop._vtime, sched[0]._when)
        else:
            loop._vtime += timeout
        return []


class VirtualExecutor:
    """an executor for AsyncPathIO whose jobs take VIRTUAL time: the function runs at once (in the loop's thread), its
    result is handed over `delay` virtual seconds later - so a slow disk can outlast `path_timeout` under the
    virtual clock.  `slow_at`: {submission index: seconds}; `slow_name`: {function name: seconds}."""

    virtual = True

    def __init__(self, loop):
        import concurrent.futures as cf

        self._cf = cf
        self.loop = loop
        self.n = 0
        self.log = []
        self.slow_at = {}
        self.slow_name = {}
        self.delay = 0.0

    def submit(self, fn, *args, **kwargs):
        f = self._cf.Future()
        name = getattr(getattr(fn, "func", fn), "__name__", "?")
        k = self.n
        self.n += 1
        self.log.append(name)
        try:
            res, exc = fn(*args, **kwargs), None
        except BaseException as e:  # noqa
            res, exc = None, e
        d = self.slow_at.get(k, self.slow_name.get(name, self.delay))

        def deliver():
            if f.cancelled():
                return
            if exc is not None:
                f.set_exception(exc)
            else:
                f.set_result(res)

        if d:
            self.loop.call_later(d, deliver)
        else:
            self.loop.call_soon(deliver)
        return f

    def shutdown(self, wait=True, **kw):
        pass


class SeqTask(asyncio.Task):
    """a Task whose hash is its creation number, not its address: the iteration order of every set of tasks
    (`done`, `pending | extra_workers`, the tasks cancelled at teardown) is then a function of the run and of the
    chosen salt alone - reproducible, and variable on purpose (the order of a set is a scheduling choice the code
    under test must not depend on).  salt 0: creation order for small sets; salt 1: the reverse; salt >= 2: scattered"""

    _salt = 0
    _vseq = 0

    def __hash__(self):
        n = self._vseq
        salt = SeqTask._salt
        if salt == 0:
            return n
        if salt == 1:
            return (1 << 20) - n
        return (n * 2654435761 + salt * 40503) & 0xFFFFF


class VLoop(asyncio.SelectorEventLoop):
    def __init__(self):
        super().__init__()
        self._task_seq = 0

        def factory(loop, coro, **kw):
            t = SeqTask(coro, loop=loop, **kw)
            loop._task_seq += 1
            t._vseq = loop._task_seq
            return t

        self.set_task_factory(factory)
        self._vtime = 0.0
        self._settle_waiters = []
        self._executor_jobs = 0
        self._deadlock = False
        self._main_task = None
        self._selector = _VSelector(self._selector, self)
        self.loop_errors = []
        self.set_exception_handler(lambda loop, ctx: loop.loop_errors.append(ctx))

    def time(self):
        return self._vtime

    def run_in_executor(self, executor, func, *args):
        if getattr(executor, "virtual", False):
            return super().run_in_executor(executor, func, *args)  # takes virtual time: the clock goes on
        self._executor_jobs += 1
        fut = super().run_in_executor(executor, func, *args)

        def done(_):
            self._executor_jobs -= 1

        fut.add_done_callback(done)
        return fut

    async def settle(self):
        """returns when the loop is quiescent at the current virtual time"""
        fut = self.create_future()
        self._settle_waiters.append(fut)
        await fut

    def run_main(self, coro):
        async def runner():
            self._main_task = asyncio.current_task()
            return await coro

        return self.run_until_complete(runner())


_WATCHDOG = {"fired": 0, "draining": False, "drain_deadline": None}


class WallClockExceeded(BaseException):
    """the code under test kept the CPU without ever yielding to the event loop (or the run needed more real
    time than any simulated run can need): raised from a SIGALRM handler so that it interrupts a busy loop"""


def _arm_watchdog(limit):
    import signal
    import threading

    if limit <= 0 or threading.current_thread() is not threading.main_thread():
        return None

    def handler(signum, frame):
        # raised inside whatever is executing - typically the code that keeps the CPU.  asyncio stores a
        # BaseException raised inside a task in that task and carries on, so the firing is also remembered and
        # `run` reports it when the run is over; the timer is re-armed in case the loop is starved again.
        _WATCHDOG["fired"] += 1
        signal.setitimer(signal.ITIMER_REAL, limit)
        raise WallClockExceeded("no return to the harness within %.0f s of wall-clock time" % limit)

    try:
        old = signal.signal(signal.SIGALRM, handler)
        signal.setitimer(signal.ITIMER_REAL, limit)
        return old
    except (ValueError, OSError):
        return None


def _disarm_watchdog(old):
    import signal

    if old is None:
        return
    try:
        signal.setitimer(signal.ITIMER_REAL, 0)
        signal.signal(signal.SIGALRM, old)
    except (ValueError, OSError):
        pass


def run(coro_fn, *args, **kw):
    """run `coro_fn(loop, *args)` on a fresh VLoop and close it; a run that does not come back within
    VERIF_WALL_LIMIT seconds (default 180) of real time raises WallClockExceeded"""
    import os

    SeqTask._salt = int(kw.pop("task_salt", os.environ.get("VERIF_TASK_SALT", "0")))
    loop = VLoop()
    limit = float(kw.pop("wall_limit", None) or os.environ.get("VERIF_WALL_LIMIT", "180"))
    _WATCHDOG["fired"] = 0
    _WATCHDOG["draining"] = False
    old = _arm_watchdog(limit)
    try:
        asyncio.set_event_loop(loop)
        out = loop.run_main(coro_fn(loop, *args, **kw))
        if _WATCHDOG["fired"]:
            raise WallClockExceeded("the event loop was starved for %.0f s of wall-clock time (%d time(s)) during this run" % (limit, _WATCHDOG["fired"]))
        return out
    finally:
        _disarm_watchdog(old)
        _WATCHDOG["draining"] = True
        # the leftovers are cancelled so that the loop closes quietly - but code that swallows its cancellation, or goes on
        # for ever inside its clean-up, must not keep this process: the drain has a wall-clock budget of its own, enforced
        # from the loop (select hook) and by the alarm (for code that never yields)
        import time as _time

        _WATCHDOG["drain_deadline"] = _time.monotonic() + 10.0
        old2 = _arm_watchdog(12.0)
        try:
            pend = [t for t in asyncio.all_tasks(loop) if not t.done()]
            for t in pend:
                t.cancel()
            if pend:
                loop.run_until_complete(asyncio.gather(*pend, return_exceptions=True))
            loop.run_until_complete(loop.shutdown_default_executor())
        except BaseException:  # noqa - WallClockExceeded included: give up on the leftovers
            pass
        finally:
            _disarm_watchdog(old2)
            _WATCHDOG["drain_deadline"] = None
        asyncio.set_event_loop(None)
        try:
            loop.close()
        except BaseException:  # noqa
            pass


# ------------------------------------------------------------------------------------------------
# transports
# ------------------------------------------------------------------------------------------------
class FakeSocket:
    def __init__(self, family, addr):
        self.family = family
        self._addr = addr

    def getsockname(self):
        return self._addr

    def getpeername(self):
        return self._addr

    def fileno(self):
        return -1


class MemTransport(asyncio.Transport):
    HIGH = 64 * 1024

    def __init__(self, net, loop, name, local, remote, family):
        super().__init__()
        self.net = net
        self.loop = loop
        self.name = name
        self.local = local
        self.remote = remote
        self.family = family
        self.peer = None
        self.protocol = None
        self.closing = False  # close() called locally
        self.closed = False  # connection_lost delivered
        self.peer_gone = False  # peer closed / aborted
        self.reading = True
        self.outbox = []  # segments not yet delivered (bytes) or EOF marker None
        self.outbox_size = 0
        self.hold = False  # harness: deliver nothing to the peer while True
        self.latency = 0.0
        self.segmenter = None  # callable(bytes)->list[bytes]
        self.write_paused = False
        self.bytes_written = 0
        self.bytes_delivered = 0
        self._pump_scheduled = False
        self.eof_sent = False
        self.eof_delivered = False
        self.close_called = False
        self.log = net.log
        self._extra = {
            "peername": remote,
            "sockname": local,
            "socket": FakeSocket(family, local),
        }

    # ---- asyncio.Transport API ----
    def get_extra_info(self, name, default=None):
        return self._extra.get(name, default)

    def is_closing(self):
        return self.closing or self.closed

    def set_protocol(self, protocol):
        self.protocol = protocol

    def get_protocol(self):
        return self.protocol

    def is_reading(self):
        return self.reading and not self.closed

    def pause_reading(self):
        self.reading = False

    def resume_reading(self):
        if not self.reading:
            self.reading = True
            if self.peer is not None:
                self.peer._schedule_pump()

    def set_write_buffer_limits(self, high=None, low=None):
        if high is not None:
            self.HIGH = high

    def get_write_buffer_size(self):
        return self.outbox_size

    def get_write_buffer_limits(self):
        return (0, self.HIGH)

    def can_write_eof(self):
        return True

    def write(self, data):
        if not data:
            return
        if self.closing or self.closed:
            return
        # as asyncio's selector transport does since Python 3.12: what is handed over as a bytearray or memoryview and
        # cannot leave at once is KEPT, not copied - whoever reuses that buffer before it has left changes what is sent
        data = memoryview(data) if isinstance(data, (bytearray, memoryview)) else bytes(data)
        self.bytes_written += len(data)
        if self.peer is None or self.peer.closed:
            # like a socket whose peer went away: the data is dropped and the RST comes back
            self.loop.call_soon(self._lost, ConnectionResetError(errno.ECONNRESET, "Connection reset by peer"))
            return
        segs = self.segmenter(data) if self.segmenter else [data]
        for s in segs:
            if s:
                self.outbox.append(s)
                self.outbox_size += len(s)
        self.net.event("write", self, len(data))
        self._maybe_pause_writing()
        self._schedule_pump()

    def writelines(self, lines):
        self.write(b"".join(lines))

    def write_eof(self):
        if self.eof_sent or self.closing:
            return
        if getattr(self, "peer_reset", False) and not self.closed and not self.outbox:
            # the peer's RST is already here but connection_lost has not been delivered yet: on a real socket
            # shutdown(SHUT_WR) fails (asyncio's write_eof does not guard it)
            raise OSError(errno.ENOTCONN, "Transport endpoint is not connected")
        self.eof_sent = True
        self.outbox.append(None)
        self._schedule_pump()

    def close(self):
        self.close_called = True  # the owner asked for it, whatever state the connection is in
        if self.closing or self.closed:
            return
        self.closing = True
        self.net.event("close", self)
        if not self.eof_sent:
            self.eof_sent = True
            self.outbox.append(None)
        self._schedule_pump()
        # the closer's own connection_lost comes once its buffer is flushed (see _pump)
        self._maybe_finish_close()

    def abort(self):
        self.close_called = True
        self._abort(None)

    # ---- internals ----
    def _abort(self, exc):
        if self.closed:
            return
        self.closing = True
        self.outbox = []
        self.outbox_size = 0
        self.net.event("abort", self)
        self._lost(exc)
        p = self.peer
        if p is not None and not p.closed:
            p.peer_gone = True
            p.peer_reset = True
            self.loop.call_soon(p._lost, ConnectionResetError(errno.ECONNRESET, "Connection reset by peer"))

    def _lost(self, exc):
        if self.closed:
            return
        self.closed = True
        self.closing = True
        self.net.open_transports.discard(self)
        srv = getattr(self, "server", None)
        if srv is not None:
            srv._detach()
        if self.write_paused and self.protocol is not None:
            self.write_paused = False
        try:
            if self.protocol is not None:
                self.protocol.connection_lost(exc)
        finally:
            pass

    def _maybe_finish_close(self):
        if self.closing and not self.closed and not [s for s in self.outbox if s is not None] :
            # buffer flushed (EOF marker may remain to be delivered)
            self.loop.call_soon(self._lost, None)

    def _maybe_pause_writing(self):
        if not self.write_paused and self.outbox_size > self.HIGH and self.protocol is not None:
            self.write_paused = True
            try:
                self.protocol.pause_writing()
            except Exception:
                pass

    def _maybe_resume_writing(self):
        if self.write_paused and self.outbox_size <= self.HIGH // 4 and self.protocol is not None:
            self.write_paused = False
            try:
                self.protocol.resume_writing()
            except Exception:
                pass

    def _schedule_pump(self):
        if self._pump_scheduled:
            return
        self._pump_scheduled = True
        if self.latency:
            self.loop.call_later(self.latency, self._pump)
        else:
            self.loop.call_soon(self._pump)

    def _pump(self):
        """deliver ONE segment to the peer (one per loop iteration keeps segment boundaries observable)"""
        self._pump_scheduled = False
        if not self.outbox:
            return
        p = self.peer
        if p is None or p.closed:
            # peer is gone: drop everything
            self.outbox = []
            self.outbox_size = 0
            self._maybe_resume_writing()
            self._maybe_finish_close()
            return
        if self.hold or not p.reading:
            return  # resumed by release() / resume_reading()
        seg = self.outbox.pop(0)
        if seg is None:
            self.eof_delivered = True
            p.peer_gone = True
            self.net.event("eof->", p)
            try:
                keep = p.protocol.eof_received() if p.protocol is not None else False
            except Exception:
                keep = False
            if not keep and not p.closing:
                p.close()
        else:
            seg = bytes(seg)
            self.outbox_size -= len(seg)
            self.bytes_delivered += len(seg)
            self.net.event("deliver", p, len(seg))
            if p.protocol is not None and not p.closed:
                p.protocol.data_received(seg)
            self._maybe_resume_writing()
        self._maybe_finish_close()
        if self.outbox:
            self._schedule_pump()

    # ---- harness controls ----
    def release(self):
        self.hold = False
        self._schedule_pump()

    def vanish(self):
        """the endpoint disappears abruptly (RST to the peer)"""
        self._abort(None)


# ------------------------------------------------------------------------------------------------
# listeners, registry
# ------------------------------------------------------------------------------------------------
START_SERVER_YIELDS = 4


class MemServer:
    def __init__(self, net, cb, host, port, family):
        self.net = net
        self.cb = cb
        self.host = host
        self.port = port
        self.family = family
        self._closed = False
        self._waiters = []
        self.accepted = 0
        self.active = 0
        addr = (host, port) if family == socket.AF_INET else (host, port, 0, 0)
        self.sockets = [FakeSocket(family, addr)]
        self._serving_forever = None

    def close(self):
        if self._closed:
            return
        self._closed = True
        self.sockets = []
        self.net.listeners.pop(self.port, None)
        self.net.open_listeners.discard(self)
        self.net.event("listener-close", self.port)
        self._wakeup()
        if self._serving_forever is not None and not self._serving_forever.done():
            self._serving_forever.cancel()

    def is_serving(self):
        return not self._closed

    def _wakeup(self):
        # CPython 3.12.1: wait_closed() returns once the listener is closed AND every accepted connection is gone
        if self._closed and self.active == 0:
            ws, self._waiters = self._waiters, []
            for w in ws:
                if not w.done():
                    w.set_result(None)

    def _detach(self):
        self.active -= 1
        self._wakeup()

    async def wait_closed(self):
        if self._closed and self.active == 0:
            return
        w = asyncio.get_running_loop().create_future()
        self._waiters.append(w)
        await w

    async def serve_forever(self):
        self._serving_forever = asyncio.get_running_loop().create_future()
        try:
            await self._serving_forever
        finally:
            self.close()

    async def __aenter__(self):
        return self

    async def __aexit__(self, *a):
        self.close()
        await self.wait_closed()


class Gate:
    """a point where the harness can hold a coroutine and later let it go (or cancel around it)"""

    def __init__(self, loop):
        self.loop = loop
        self.arrived = loop.create_future()
        self.go = loop.create_future()
        self.opened = False

    async def wait(self):
        if not self.arrived.done():
            self.arrived.set_result(None)
        # shielded: cancelling the waiter must not cancel the gate itself
        await asyncio.shield(self.go)

    def open(self):
        self.opened = True
        if not self.go.done():
            self.go.set_result(None)


class Net:
    def __init__(self, loop, family=socket.AF_INET, host="127.0.0.1"):
        self.loop = loop
        self.family = family
        self.host = host
        self.listeners = {}
        self.open_listeners = set()
        self.open_transports = set()
        self.all_transports = []
        self.next_port = 40000
        self.next_client_port = 50000
        self.port_faults = {}  # port -> list of errno (consumed per attempt) or callable
        self.start_gates = []  # Gate objects consumed by start_server calls after the first (control) one, FIFO
        self.events = []
        self.log = []
        self.record = False
        self.default_segmenter = None  # callable(direction, bytes)->list
        self.default_latency = 0.0
        self.start_server_calls = []
        self.connect_hook = None  # callable(port) -> None, may raise

    def event(self, kind, *args):
        if self.record:
            who = args[0].name if args and isinstance(args[0], MemTransport) else (args[0] if args else None)
            self.events.append((round(self.loop.time(), 6), kind, who) + tuple(args[1:]))

    # -- asyncio.start_server replacement
    async def start_server(self, client_connected_cb, host=None, port=None, *, limit=2**16, ssl=None, **kw):
        self.start_server_calls.append((host, port))
        # the real asyncio.start_server never returns without suspending: create_server gathers its address
        # look-ups (a child task: three loop iterations until the gather wakes the caller) and skips one more
        # iteration at the end - whoever awaits it lets the other tasks of the loop run meanwhile
        for _ in range(START_SERVER_YIELDS):
            await asyncio.sleep(0)
        if port in (None, 0):
            port = self.next_port
            self.next_port += 1
            while port in self.listeners:
                port = self.next_port
                self.next_port += 1
        gated = bool(self.start_gates) and len(self.start_server_calls) > 1
        if gated:
            gate = self.start_gates.pop(0)
            await gate.wait()
        faults = self.port_faults.get(port)
        if faults:
            e = faults.pop(0)
            if e is not None:
                raise OSError(e, "injected fault on port %s" % port)
        if port in self.listeners:
            raise OSError(errno.EADDRINUSE, "address already in use (simnet port %s)" % port)
        srv = MemServer(self, client_connected_cb, host or self.host, port, self.family)
        srv.limit = limit
        self.listeners[port] = srv
        self.open_listeners.add(srv)
        self.event("listen", port)
        return srv

    # -- asyncio.open_connection replacement
    async def open_connection(self, host=None, port=None, *, limit=2**16, ssl=None, **kw):
        if self.connect_hook is not None:
            self.connect_hook(port)
        srv = self.listeners.get(port)
        if srv is None or srv._closed:
            raise ConnectionRefusedError(errno.ECONNREFUSED, "simnet: nothing listens on %s" % port)
        loop = self.loop
        cport = self.next_client_port
        self.next_client_port += 1
        if self.family == socket.AF_INET:
            caddr, saddr = (self.host, cport), (srv.host, port)
        else:
            caddr, saddr = (self.host, cport, 0, 0), (srv.host, port, 0, 0)
        n = len(self.all_transports) // 2
        ct = MemTransport(self, loop, "c%d" % n, caddr, saddr, self.family)
        st = MemTransport(self, loop, "s%d" % n, saddr, caddr, self.family)
        ct.peer, st.peer = st, ct
        ct.port = st.port = port
        for t, d in ((ct, "c2s"), (st, "s2c")):
            t.latency = self.default_latency
            if self.default_segmenter is not None:
                t.segmenter = (lambda dd: (lambda b: self.default_segmenter(dd, b)))(d)
        self.all_transports += [ct, st]
        self.open_transports |= {ct, st}
        srv.accepted += 1
        srv.active += 1
        st.server = srv
        # server side, as asyncio.start_server's factory does
        sreader = asyncio.StreamReader(limit=srv.limit, loop=loop)
        sproto = asyncio.StreamReaderProtocol(sreader, srv.cb, loop=loop)
        st.set_protocol(sproto)
        creader = asyncio.StreamReader(limit=limit, loop=loop)
        cproto = asyncio.StreamReaderProtocol(creader, loop=loop)
        ct.set_protocol(cproto)
        self.event("connect", ct, port)
        loop.call_soon(sproto.connection_made, st)
        cproto.connection_made(ct)
        cwriter = asyncio.StreamWriter(ct, cproto, creader, loop)
        # one loop turn, like a real connect
        await asyncio.sleep(0)
        return creader, cwriter

    # -- ledger helpers
    def server_side_open(self):
        """server-side transports the server never called close()/abort() on - whether or not the network
        has torn them down meanwhile (a reset from the peer does not count as the server releasing them)"""
        return sorted(t.name for t in self.all_transports if t.name.startswith("s") and not t.close_called)

    def server_side_closing(self):
        """close() requested but the buffer could not be flushed yet (peer not reading)"""
        return sorted(t.name for t in self.open_transports if t.name.startswith("s") and t.closing)

    def client_side_open(self):
        return sorted(t.name for t in self.open_transports if t.name.startswith("c"))

    def listening_ports(self):
        return sorted(self.listeners)


class _AsyncioProxy(types.ModuleType):
    """stands in for the `asyncio` module inside aioftp.server: everything real except start_server"""

    def __init__(self, net):
        super().__init__("asyncio")
        self.__dict__["_net"] = net

    def __getattr__(self, name):
        if name == "start_server":
            return self._net.start_server
        if name == "open_connection":
            return self._net.open_connection
        return getattr(asyncio, name)


def install(net):
    """rebind the two module globals; returns an undo function"""
    import aioftp.client
    import aioftp.server

    old_s = aioftp.server.asyncio
    old_c = aioftp.client.open_connection
    aioftp.server.asyncio = _AsyncioProxy(net)
    aioftp.client.open_connection = net.open_connection

    def undo():
        aioftp.server.asyncio = old_s
        aioftp.client.open_connection = old_c

    return undo


# ------------------------------------------------------------------------------------------------
# a raw scripted control-channel client (for exact control over what is sent and when)
# ------------------------------------------------------------------------------------------------
class RawClient:
    def __init__(self, net):
        self.net = net
        self.reader = None
        self.writer = None
        self.replies = []  # list of (code, [lines]) in arrival order
        self.raw = bytearray()
        self.eof = False
        self.eof_time = None
        self.reply_times = []
        self._task = None
        self.data = None  # (reader, writer) of the current data connection

    async def connect(self, port):
        self.reader, self.writer = await self.net.open_connection(self.net.host, port)
        self.transport = self.writer.transport
        self._task = asyncio.get_running_loop().create_task(self._collect())
        return self

    async def _collect(self):
        cur = None
        try:
            while True:
                line = await self.reader.readline()
                if not line:
                    self.eof = True
                    self.eof_time = asyncio.get_running_loop().time()
                    return
                self.reply_times.append(asyncio.get_running_loop().time())
                self.raw += line
                s = line.decode("utf-8", "replace").rstrip("\r\n")
                if cur is None:
                    code = s[:3]
                    if len(s) > 3 and s[3] == "-":
                        cur = (code, [s[4:]])
                    else:
                        self.replies.append((code, [s[4:]]))
                else:
                    if s[:3] == cur[0] and s[3:4] == " ":
                        cur[1].append(s[4:])
                        self.replies.append(cur)
                        cur = None
                    elif s[:3] == cur[0] and s[3:4] == "-":
                        cur[1].append(s[4:])
                    else:
                        cur[1].append(s)
        except (ConnectionError, asyncio.CancelledError):
            self.eof = True
            if self.eof_time is None:
                try:
                    self.eof_time = asyncio.get_running_loop().time()
                except RuntimeError:
                    pass

    def send(self, line):
        if isinstance(line, str):
            line = line.encode("utf-8")
        self.writer.write(line + b"\r\n")

    def send_raw(self, data):
        self.writer.write(data)

    def codes(self):
        return [c for c, _ in self.replies]

    async def data_connect(self, port):
        self.data = await self.net.open_connection(self.net.host, port)
        return self.data

    def close(self):
        if self.writer is not None:
            self.writer.close()
        if self.data is not None:
            self.data[1].close()

    def vanish(self):
        if self.writer is not None:
            self.writer.transport.vanish()
        if self.data is not None:
            self.data[1].transport.vanish()

    def stop(self):
        if self._task is not None:
            self._task.cancel()
