"""Histories with a LATE data connection, at wire level, on the real server under the simulated network.

A transfer command is sent after EPSV but the data connection is opened only after further commands have
been sent ("interposed"): the server has answered 150 and the nested worker waits.  What the worker then
does must be what the command addressed WHEN IT WAS RECEIVED (user, base directory, working directory,
restart offset) - aioftp's own client never leaves that window open, so the repository's tests cannot see it.

A plan is a list of steps
    ("cmd", line)                       one command, wait for its final reply
    ("late", line, [interposed lines][, [lines sent between EPSV and the transfer command, e.g. REST n]])
                                        EPSV, the transfer command, the interposed commands, then the data
                                        connection is opened; uploads send PAYLOAD
and `run_plan` returns one record per step with the session state at the moment the command was received, the
backend calls (spy) made for it split into handler / interposed / worker, the replies, the bytes the data
connection delivered and the tree before and after.
"""
import asyncio
import pathlib

import simnet
import spyio
import world as W

PAYLOAD = b"NEWDATA"
PATH_CALLS = {"exists", "is_dir", "is_file", "mkdir", "rmdir", "unlink", "list", "stat", "open", "rename"}


def paths_of(call):
    name, p = call
    if p is None or name not in PATH_CALLS:
        return []
    if isinstance(p, list):
        return [x for x in p if not x.startswith("'")][: 2 if name == "rename" else 1]
    return [p]


def py_walk(cwd_parts, arg):
    pos = [] if arg.startswith("/") else list(cwd_parts)
    for seg in arg.split("/"):
        if seg in ("", "."):
            continue
        if seg == "..":
            if pos:
                pos.pop()
        else:
            pos.append(seg)
    return pos


async def _session(loop, users, bases, tree, plan, first_login, payload, backend="memory"):
    spy = spyio.Spy()
    wd = W.World(loop, users, spy=spy, backend=backend)
    await wd.start()
    recs = []
    try:
        wd.set_tree(tree)
        for u, b in zip(wd.users, bases):
            if b is not None:
                u.base_path = pathlib.Path(b) if backend == "memory" else wd.base_path / b
        raw = await wd.raw_client()
        for line in first_login:
            await W.run_line(wd, raw, line.encode())

        def state():
            conn = wd.connection_of(raw)
            if conn is None:
                return None
            ok, u = wd._get(conn, "user")
            ok2, c = wd._get(conn, "current_directory")
            logged = wd._get(conn, "logged")[0]
            return {
                "user": (wd.users.index(u) if ok else None),
                "base": (str(u.base_path) if ok else None),
                "cwd": (str(c) if ok2 else "/"),
                "logged": bool(logged),
            }

        def codes_since(i):
            return [int(c) for c, _ in raw.replies[i:] if str(c).isdigit()]

        for step in plan:
            st = state()
            if st is None or raw.eof:
                break
            tree0 = wd.tree()
            n0 = len(spy.log)
            c0 = len(raw.replies)
            if step[0] == "cmd":
                await W.run_line(wd, raw, step[1].encode())
                recs.append({"cmd": step[1], "state": st, "late": False, "replies": codes_since(c0), "calls": [(n, p) for _, n, p in spy.log[n0:]], "tree0": tree0, "tree1": wd.tree()})
                continue
            if step[0] == "pipe":
                # ("pipe", [lines], delay): the data connection is made first (as aioftp's own client does), then ALL the
                # lines go out in one segment, on a backend whose every call takes `delay` virtual seconds
                lines_, delay = step[1], step[2]
                await W.run_line(wd, raw, b"EPSV")
                await W.data_connect(wd, raw)
                st = state()
                tree0 = wd.tree()
                n0 = len(spy.log)
                c0 = len(raw.replies)
                if isinstance(delay, dict):
                    # per backend call: {"is_file": 0.5, "*": 0.0} - one call is slow, the others are not
                    spy.delay_fn = lambda name, shown, _d=delay: _d.get(name, _d.get("*", 0.0))
                else:
                    spy.delay = delay
                raw.send_raw("".join(l + "\r\n" for l in lines_).encode())
                await loop.settle()
                got = None
                transfers = [l.split(" ")[0].upper() for l in lines_ if l.split(" ")[0].upper() in ("RETR", "STOR", "APPE", "LIST", "MLSD")]
                handled = 0
                for _ in range(24):
                    finals = [c for c in codes_since(c0) if c >= 200]
                    if codes_since(c0).count(150) > handled:
                        # one data connection per 150: the one made ahead for the first, a new one for each further mark
                        if raw.data is None and not raw.eof and wd.connection_of(raw) is not None:
                            await W.data_connect(wd, raw)
                        if raw.data is not None:
                            dr, dw = raw.data
                            if handled < len(transfers) and transfers[handled] in ("STOR", "APPE"):
                                dw.write(payload)
                                dw.close()
                            else:
                                try:
                                    got = (got or b"") + await asyncio.wait_for(dr.read(), 30)
                                except Exception:  # noqa
                                    pass
                                dw.close()
                            raw.data = None
                            await loop.settle()
                        handled += 1
                    if len(finals) >= len(lines_) or raw.eof:
                        break
                    await asyncio.sleep(0.25)
                    await loop.settle()
                spy.delay = 0
                spy.delay_fn = None
                recs.append({"cmd": lines_[0], "pipe": list(lines_), "delay": delay, "state": st, "late": False, "replies": codes_since(c0), "data": got,
                             "pipe_calls": [(n, p) for _, n, p in spy.log[n0:]], "state_after": state(), "tree0": tree0, "tree1": wd.tree()})
                continue
            await W.run_line(wd, raw, b"EPSV")
            for line in (step[3] if len(step) > 3 else []):
                await W.run_line(wd, raw, line.encode())
            st = state()
            n0 = len(spy.log)
            c0 = len(raw.replies)
            raw.send_raw(step[1].encode() + b"\r\n")
            await loop.settle()
            accepted = any(c == "150" for c, _ in raw.replies[c0:])
            n1 = len(spy.log)
            inter = []
            for line in step[2]:
                await W.run_line(wd, raw, line.encode())
                inter.append(line)
            n2 = len(spy.log)
            got = None
            if accepted and not raw.eof and wd.connection_of(raw) is not None:
                ok = await W.data_connect(wd, raw)
                if ok and raw.data is not None:
                    dr, dw = raw.data
                    if step[1].split(" ")[0] in ("STOR", "APPE"):
                        dw.write(payload)
                        dw.close()
                    else:
                        try:
                            got = await asyncio.wait_for(dr.read(), 30)
                        except Exception:  # noqa
                            got = None
                        dw.close()
                    raw.data = None
                    await loop.settle()
                else:
                    await asyncio.sleep(1.5)
                    await loop.settle()
            # the completion reply of the transfer may take the data-wait timeout to arrive
            for _ in range(8):
                if any(c in (226, 200, 425, 451, 426, 550) for c in codes_since(c0)[1:]) or raw.eof:
                    break
                await asyncio.sleep(0.5)
                await loop.settle()
            recs.append(
                {
                    "cmd": step[1],
                    "state": st,
                    "late": True,
                    "interposed": inter,
                    "accepted": accepted,
                    "replies": codes_since(c0),
                    "data": got,
                    "calls": [(n, p) for _, n, p in spy.log[n0:n1]],
                    "interposed_calls": [(n, p) for _, n, p in spy.log[n1:n2]],
                    "worker_calls": [(n, p) for _, n, p in spy.log[n2:]],
                    "state_after": state(),
                    "tree0": tree0,
                    "tree1": wd.tree(),
                }
            )
        raw.close()
        await loop.settle()
    finally:
        try:
            await wd.stop()
        except Exception:  # noqa
            wd.finish()
    return recs


def run_plan(args):
    """args = (users, bases, tree, plan, first_login[, payload[, backend]]); returns the records or a HARNESS-ERROR string"""
    users, bases, tree, plan, first_login = args[:5]
    payload = args[5] if len(args) > 5 else PAYLOAD
    backend = args[6] if len(args) > 6 else "memory"
    try:
        return simnet.run(_session, users, bases, tree, plan, first_login, payload, backend)
    except BaseException as e:  # noqa
        return "HARNESS-ERROR %s: %s" % (type(e).__name__, e)


def run_many(jobs):
    import multiprocessing
    import os

    if not jobs:
        return []
    mp = multiprocessing.get_context("fork")
    with mp.Pool(min(16, os.cpu_count() or 4)) as pool:
        return pool.map(run_plan, jobs, chunksize=4)
