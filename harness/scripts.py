"""Corpus of scripted sessions covering every verb and transfer kind (used by C12, C13, C14, C16, C17)."""
import asyncio

import seqrun as S
import socket

import simnet
from scenario import Scenario

BIG = bytes(range(256)) * 3  # 768 bytes: many blocks at block_size 64


async def s_login_only(ctl):
    c = await ctl.client()
    await ctl.login(c)


async def s_failed_login(ctl):
    c = await ctl.client()
    await ctl.cmd(c, "USER alice")
    await ctl.cmd(c, "PASS wrong")
    await ctl.cmd(c, "USER nobody")
    await ctl.cmd(c, "PWD")


async def s_tree_ops(ctl):
    c = await ctl.client()
    await ctl.login(c)
    for line in ("PWD", "CWD d", "CDUP", "MKD n/m", "RMD n/m", "MLST f.txt", "RNFR f.txt", "RNTO g.txt", "DELE g.txt", "TYPE I", "SYST", "NOOP"):
        await ctl.cmd(c, line)


async def s_epsv_only(ctl):
    c = await ctl.client()
    await ctl.login(c)
    await ctl.cmd(c, "EPSV")


async def s_pasv_parked(ctl):
    c = await ctl.client()
    await ctl.login(c)
    await ctl.cmd(c, "PASV")
    await ctl.data(c)
    await ctl.cmd(c, "PWD")


async def s_pasv_twice(ctl):
    c = await ctl.client()
    await ctl.login(c)
    await ctl.cmd(c, "EPSV")
    await ctl.data(c)
    await ctl.cmd(c, "PASV")
    await ctl.data(c)
    await ctl.cmd(c, "RETR f.txt")


async def s_ipv6_passive(ctl):
    # over IPv6 PASV is refused (503) - and whatever it made on the way is given back - EPSV serves
    c = await ctl.client()
    await ctl.login(c)
    await ctl.cmd(c, "PASV")
    await ctl.cmd(c, "EPSV")
    await ctl.data(c)
    await ctl.cmd(c, "RETR f.txt")
    await ctl.cmd(c, "PASV")
    await ctl.cmd(c, "PWD")
    await ctl.cmd(c, "QUIT")


async def s_retr(ctl):
    c = await ctl.client()
    await ctl.login(c)
    await ctl.cmd(c, "EPSV")
    await ctl.data(c)
    await ctl.cmd(c, "RETR big.bin")


async def s_retr_late_data(ctl):
    """the command first, the data connection afterwards (worker waits for it)"""
    c = await ctl.client()
    await ctl.login(c)
    await ctl.cmd(c, "EPSV")
    codes = await ctl.send(c, "RETR big.bin")
    await ctl.data(c)
    dr, dw = c.data
    try:
        await asyncio.wait_for(dr.read(), 60)
    except Exception:
        pass
    dw.close()
    c.data = None
    await ctl.loop.settle()


async def s_retr_no_data(ctl):
    c = await ctl.client()
    await ctl.login(c)
    await ctl.cmd(c, "EPSV")
    await ctl.cmd(c, "RETR f.txt")  # 150 then 425 after wait_future_timeout
    await ctl.cmd(c, "PWD")


async def s_stor(ctl):
    c = await ctl.client()
    await ctl.login(c)
    await ctl.cmd(c, "EPSV")
    await ctl.data(c)
    await ctl.cmd(c, "STOR up.bin", BIG)
    await ctl.cmd(c, "MLST up.bin")


async def s_stor_slow(ctl):
    """upload in several pieces with quiescent points in between"""
    c = await ctl.client()
    await ctl.login(c)
    await ctl.cmd(c, "EPSV")
    await ctl.data(c)
    await ctl.send(c, "STOR up.bin")
    dr, dw = c.data
    for i in range(0, len(BIG), 100):
        dw.write(BIG[i : i + 100])
        await ctl.loop.settle()
    dw.close()
    c.data = None
    await ctl.loop.settle()


async def s_appe_rest(ctl):
    c = await ctl.client()
    await ctl.login(c)
    await ctl.cmd(c, "EPSV")
    await ctl.data(c)
    await ctl.cmd(c, "APPE f.txt", b"-more")
    await ctl.cmd(c, "EPSV")
    await ctl.data(c)
    await ctl.cmd(c, "REST 4")
    await ctl.cmd(c, "STOR f.txt", b"XY")
    await ctl.cmd(c, "EPSV")
    await ctl.data(c)
    await ctl.cmd(c, "REST 2")
    await ctl.cmd(c, "RETR f.txt")


async def s_list_mlsd(ctl):
    c = await ctl.client()
    await ctl.login(c)
    await ctl.cmd(c, "EPSV")
    await ctl.data(c)
    await ctl.cmd(c, "LIST")
    await ctl.data(c)
    await ctl.cmd(c, "MLSD d")


async def s_quit(ctl):
    c = await ctl.client()
    await ctl.login(c)
    await ctl.cmd(c, "EPSV")
    await ctl.data(c)
    await ctl.cmd(c, "QUIT")


async def s_pipelined_quit(ctl):
    """a passive command and QUIT in one segment: the two handlers run side by side, and so do their replies"""
    c = await ctl.client()
    await ctl.login(c)
    await ctl.send(c, "EPSV\r\nQUIT")


async def s_pipelined_passive(ctl):
    c = await ctl.client()
    await ctl.login(c)
    await ctl.send(c, "PASV\r\nEPSV\r\nNOOP")
    await ctl.data(c)
    await ctl.cmd(c, "LIST")
    await ctl.send(c, "EPSV\r\nFOO\r\nQUIT")


async def s_abor(ctl):
    c = await ctl.client()
    await ctl.login(c)
    await ctl.cmd(c, "EPSV")
    await ctl.data(c)
    # hold the data channel so that the transfer is still running when ABOR arrives
    c.data[1].transport.peer.hold = True
    await ctl.send(c, "RETR big.bin")
    await ctl.send(c, "ABOR")
    c.data[1].close()
    c.data = None
    await ctl.loop.settle()
    await ctl.cmd(c, "PWD")


async def s_abor_while_waiting(ctl):
    """the transfer command is sent without the data connection: its worker waits; ABOR finds it waiting; the session
    goes on (a new listener, a transfer that works) and ends with QUIT"""
    c = await ctl.client()
    await ctl.login(c)
    await ctl.cmd(c, "EPSV")
    await ctl.send(c, "RETR f.txt")
    await ctl.loop.settle()
    await ctl.cmd(c, "ABOR")
    await ctl.cmd(c, "PWD")
    await ctl.cmd(c, "EPSV")
    await ctl.data(c)
    await ctl.cmd(c, "RETR f.txt")
    await ctl.cmd(c, "QUIT")


async def s_transfer_then_quit_pipelined(ctl):
    """a peer that sends QUIT right behind a transfer command, in one segment, gets its 221, drops the control
    connection and leaves the data connection it had made idle: the session ends and gives everything back"""
    c = await ctl.client()
    await ctl.login(c)
    await ctl.cmd(c, "EPSV")
    await ctl.data(c)
    await ctl.send(c, "STOR up.bin\r\nQUIT")
    await ctl.loop.settle()
    c2 = await ctl.client()
    await ctl.login(c2)
    await ctl.cmd(c2, "EPSV")
    await ctl.data(c2)
    c2.data[1].transport.peer.hold = True
    await ctl.send(c2, "RETR big.bin\r\nQUIT")
    await ctl.loop.settle()


async def s_two_sessions(ctl):
    a = await ctl.client()
    b = await ctl.client()
    await ctl.login(a)
    await ctl.login(b, "alice", "secret")
    await ctl.cmd(a, "EPSV")
    await ctl.cmd(b, "EPSV")
    await ctl.data(a)
    await ctl.data(b)
    await ctl.send(a, "RETR big.bin")
    await ctl.cmd(b, "STOR sub/x.bin", BIG[:200])
    dr, dw = a.data
    try:
        await asyncio.wait_for(dr.read(), 60)
    except Exception:
        pass
    dw.close()
    a.data = None
    await ctl.loop.settle()
    await ctl.cmd(a, "QUIT")
    await ctl.cmd(b, "PWD")


async def s_idle(ctl):
    c = await ctl.client()
    await ctl.login(c)
    await asyncio.sleep(5)
    await ctl.cmd(c, "PWD")


async def s_retr_unread(ctl):
    """the peer makes the data connection but never reads from it: the server's send buffer stays full"""
    c = await ctl.client()
    await ctl.login(c)
    await ctl.cmd(c, "EPSV")
    await ctl.data(c)
    c.data[1].transport.peer.hold = True  # server -> client data direction: nothing is taken off the wire
    c.data[1].transport.peer.HIGH = 256
    await ctl.send(c, "RETR huge.bin")
    await asyncio.sleep(1)
    await ctl.loop.settle()
    await ctl.send(c, "PWD")


TREE_BIG = S.TREE + [(("big.bin",), BIG)]
TREE_HUGE = S.TREE + [(("huge.bin",), BIG * 8)]


def gate_backend(name, occ=0):
    def setup(spy, loop):
        spy.gate_name[name] = (occ, simnet.Gate(loop))

    return setup


def slow_backend(delay, only=None):
    def setup(spy, loop):
        spy.delay_fn = lambda name, shown: delay if (only is None or name in only) else 0.0

    return setup


def gate_listener(net, loop):
    net.start_gates.append(simnet.Gate(loop))
    net.used_gates = list(net.start_gates)


def corpus(thorough=False):
    small_blocks = {"block_size": 64}
    sc = [
        Scenario("login", s_login_only),
        Scenario("failed-login", s_failed_login),
        Scenario("tree-ops", s_tree_ops),
        Scenario("epsv-only", s_epsv_only),
        Scenario("pasv-parked", s_pasv_parked),
        Scenario("pasv-twice", s_pasv_twice, tree=TREE_BIG),
        Scenario("retr", s_retr, tree=TREE_BIG, server_kwargs=small_blocks),
        Scenario("retr-late-data", s_retr_late_data, tree=TREE_BIG, server_kwargs=small_blocks),
        Scenario("retr-no-data", s_retr_no_data),
        Scenario("stor", s_stor, server_kwargs=small_blocks),
        Scenario("stor-slow", s_stor_slow, server_kwargs=small_blocks),
        Scenario("appe-rest", s_appe_rest),
        Scenario("list-mlsd", s_list_mlsd),
        Scenario("quit", s_quit),
        Scenario("abor", s_abor, tree=TREE_BIG, server_kwargs=small_blocks),
        Scenario("abor-while-waiting", s_abor_while_waiting, server_kwargs={"wait_future_timeout": 5}),
        Scenario("transfer-quit-pipelined", s_transfer_then_quit_pipelined, tree=TREE_BIG, server_kwargs=small_blocks),
        Scenario("two-sessions", s_two_sessions, tree=TREE_BIG, server_kwargs=small_blocks),
        Scenario("limits", s_two_sessions, tree=TREE_BIG, server_kwargs={"block_size": 64, "maximum_connections": 3}),
        Scenario("pool", s_pasv_twice, tree=TREE_BIG, server_kwargs={"data_ports": [41001, 41002]}),
        Scenario("pool-two-sessions", s_two_sessions, tree=TREE_BIG, server_kwargs={"block_size": 64, "data_ports": [41001, 41002, 41003]}),
        Scenario("idle", s_idle, server_kwargs={"idle_timeout": 3}),
        Scenario("ipv6-passive", s_ipv6_passive, family=socket.AF_INET6),
        Scenario("ipv6-passive-pool", s_ipv6_passive, server_kwargs={"data_ports": [41001, 41002]}, family=socket.AF_INET6),
        # a backend whose calls take (virtual) time - above all close(), which a cancelled worker still awaits on its
        # way out: server.close() comes back only when that is over
        Scenario("stor@slow-backend", s_stor, server_kwargs=small_blocks, spy_setup=slow_backend(0.25)),
        Scenario("retr@slow-backend", s_retr, tree=TREE_BIG, server_kwargs=small_blocks, spy_setup=slow_backend(0.25)),
        Scenario("two-sessions@slow-close", s_two_sessions, tree=TREE_BIG, server_kwargs=small_blocks, spy_setup=slow_backend(0.5, only=("close",))),
        # backend calls held open (cuts land inside the awaited backend call)
        Scenario("retr@open-gated", s_retr, tree=TREE_BIG, server_kwargs=small_blocks, spy_setup=gate_backend("open")),
        Scenario("retr@read-gated", s_retr, tree=TREE_BIG, server_kwargs=small_blocks, spy_setup=gate_backend("read", 2)),
        Scenario("stor@open-gated", s_stor, server_kwargs=small_blocks, spy_setup=gate_backend("open")),
        Scenario("stor@write-gated", s_stor, server_kwargs=small_blocks, spy_setup=gate_backend("write", 1)),
        Scenario("stor@close-gated", s_stor, server_kwargs=small_blocks, spy_setup=gate_backend("close")),
        Scenario("list@stat-gated", s_list_mlsd, spy_setup=gate_backend("stat", 1)),
        Scenario("tree-ops@mkdir-gated", s_tree_ops, spy_setup=gate_backend("mkdir")),
        # listener start-up held open
        Scenario("epsv@listener-gated", s_epsv_only, net_setup=gate_listener),
        Scenario("pool@listener-gated", s_epsv_only, server_kwargs={"data_ports": [41001, 41002]}, net_setup=gate_listener),
    ]
    # the server's own speed limits at work (the worker sleeps in its throttle between blocks, and after the last one)
    sc.append(Scenario("retr-throttled", s_retr, tree=TREE_BIG, server_kwargs={"block_size": 64, "write_speed_limit": 640}))
    sc.append(Scenario("stor-throttled", s_stor, server_kwargs={"block_size": 64, "read_speed_limit_per_connection": 320}))
    sc.append(Scenario("list-throttled", s_list_mlsd, server_kwargs={"write_speed_limit_per_connection": 200}))
    sc.append(Scenario("limits-throttled", s_two_sessions, tree=TREE_BIG, server_kwargs={"block_size": 64, "maximum_connections": 3, "read_speed_limit": 400, "write_speed_limit": 2000}))
    sc.append(Scenario("retr-unread", s_retr_unread, tree=TREE_HUGE, server_kwargs=small_blocks))
    # pipelined commands, under several iteration orders of the server's task sets
    for salt in range(8 if thorough else 6):
        sc.append(Scenario("pipelined-quit~order%d" % salt, s_pipelined_quit, server_kwargs={"maximum_connections": 2}, task_salt=salt))
    for salt in (0, 1, 5):
        sc.append(Scenario("pipelined-passive~order%d" % salt, s_pipelined_passive, server_kwargs={"data_ports": [41001, 41002]}, task_salt=salt))
    if thorough:
        for backend in ("pathio", "async"):
            sc += [
                Scenario("retr/" + backend, s_retr, tree=TREE_BIG, server_kwargs=small_blocks, backend=backend),
                Scenario("stor/" + backend, s_stor, server_kwargs=small_blocks, backend=backend),
                Scenario("tree-ops/" + backend, s_tree_ops, backend=backend),
                Scenario("list-mlsd/" + backend, s_list_mlsd, backend=backend),
            ]
    if thorough:
        # every script again under two more iteration orders of the server's task sets
        import copy

        more = []
        for s0 in sc:
            if "~order" in s0.name:
                continue
            for salt in (1, 5):
                s1 = copy.copy(s0)
                s1.name = "%s~order%d" % (s0.name, salt)
                s1.task_salt = salt
                more.append(s1)
        sc += more
    return sc


GATE_BASES = ("tree-ops", "retr", "stor", "appe-rest", "list-mlsd", "pasv-twice", "two-sessions")


def corpus_with_gates(thorough=False):
    """the corpus plus, for each transfer / tree script, one variant per backend-call kind it makes, with that
    call held open (first occurrence; thorough: also the last one) so that cuts land inside every awaited
    backend call.  Deterministic: built from the fault-free spy log of each base script."""
    import scenario as SC

    base = corpus(thorough)
    have = {s.name for s in base}
    out = list(base)
    for sc in base:
        if sc.name not in GATE_BASES:
            continue
        calls = SC.run_scenario(sc)["spy_calls"]
        for name in sorted(set(calls)):
            n = calls.count(name)
            occs = [0] + ([n - 1] if thorough and n > 1 else [])
            for occ in occs:
                nm = "%s@%s#%d-gated" % (sc.name, name, occ)
                if nm in have:
                    continue
                have.add(nm)
                out.append(Scenario(nm, sc.script, users=sc.users, tree=sc.tree, server_kwargs=sc.server_kwargs, backend=sc.backend, spy_setup=gate_backend(name, occ)))
    return out
