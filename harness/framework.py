"""Shared machinery of bin/check: translator call, Lean build + axiom audit, model driver,
decision procedure (DESIGN.md section 2), replay / evidence / known-findings handling."""
import fcntl
import hashlib
import importlib
import json
import os
import random
import re
import subprocess
import sys
import time
import traceback

VERIF = os.path.dirname(os.path.dirname(os.path.abspath(__file__)))
LEAN = os.path.join(VERIF, "lean")
REPO = os.environ.get("AIOFTP_REPO", "/repo")
sys.path.insert(0, os.path.join(REPO, "src"))
sys.path.insert(0, os.path.dirname(os.path.abspath(__file__)))

ALLOWED_AXIOMS = {"propext", "Classical.choice", "Quot.sound"}
TRUSTED_BASE = [
    "Lean 4.33.0 kernel and elaborator",
    "axioms: subset of {propext, Classical.choice, Quot.sound} (audited per theorem on every run)",
    "translator harness/extract*.py (tables, decorator stacks, constants regenerated from /repo on every run)",
    "correspondence harness (generators, canonicalisers, in-memory network and clock)",
    "CPython 3.12 str/pathlib/io/time semantics as transcribed in lean/AioftpModel/Py (sampled, not proved)",
]


# ------------------------------------------------------------------------------------------------
# locking / lake
# ------------------------------------------------------------------------------------------------
class _Lock:
    def __init__(self, name):
        os.makedirs(os.path.join(LEAN, ".lake"), exist_ok=True)
        self.path = os.path.join(LEAN, ".lake", name)

    def __enter__(self):
        self.f = open(self.path, "w")
        fcntl.flock(self.f, fcntl.LOCK_EX)
        return self

    def __exit__(self, *a):
        fcntl.flock(self.f, fcntl.LOCK_UN)
        self.f.close()


def run(cmd, cwd=None, timeout=None, input=None):
    p = subprocess.run(cmd, cwd=cwd, capture_output=True, text=True, timeout=timeout, input=input)
    return p.returncode, p.stdout + p.stderr


def lake_build(targets, timeout=1500):
    with _Lock("verif-build.lock"):
        rc, out = run(["lake", "build"] + list(targets), cwd=LEAN, timeout=timeout)
    return rc == 0, out


def regenerate():
    """run the translator; returns (ok, info)"""
    try:
        import extract

        importlib.reload(extract)
        res = extract.regenerate()
        return True, res
    except Exception:
        return False, traceback.format_exc()


# ------------------------------------------------------------------------------------------------
# audit
# ------------------------------------------------------------------------------------------------
THEOREM_RE = re.compile(r"^\s*(?:protected\s+|private\s+)?theorem\s+([A-Za-z_][\w.'₀-₉]*)", re.M)
NAMESPACE_RE = re.compile(r"^namespace\s+(\S+)", re.M)


def property_theorems(pid):
    path = os.path.join(LEAN, "AioftpModel", "Properties", pid + ".lean")
    src = open(path).read()
    src_nc = strip_comments(src)
    ns = NAMESPACE_RE.search(src_nc)
    prefix = ns.group(1) + "." if ns else ""
    return [prefix + m.group(1) for m in THEOREM_RE.finditer(src_nc)], src


def strip_comments(src):
    # remove /- ... -/ (nested) and -- comments
    out = []
    i = 0
    depth = 0
    n = len(src)
    while i < n:
        if src.startswith("/-", i):
            depth += 1
            i += 2
        elif depth and src.startswith("-/", i):
            depth -= 1
            i += 2
        elif depth:
            i += 1
        elif src.startswith("--", i):
            while i < n and src[i] != "\n":
                i += 1
        else:
            out.append(src[i])
            i += 1
    return "".join(out)


FORBIDDEN = re.compile(r"\b(sorry|admit|native_decide|bv_decide|implemented_by|unsafe)\b|^\s*axiom\s|maxHeartbeats\s+0", re.M)


def forbidden_scan():
    hits = []
    for root, _, files in os.walk(os.path.join(LEAN, "AioftpModel")):
        for fn in files:
            if fn.endswith(".lean"):
                p = os.path.join(root, fn)
                body = strip_comments(open(p).read())
                for m in FORBIDDEN.finditer(body):
                    hits.append("%s: %s" % (os.path.relpath(p, LEAN), m.group(0).strip()))
    return hits


def audit(pid, extra_modules=()):
    """#print axioms for every theorem of Properties/<pid>.lean; returns (ok, {thm: [axioms]}, log)"""
    thms, _ = property_theorems(pid)
    mods = ["AioftpModel.Properties." + pid] + list(extra_modules)
    body = "\n".join("import " + m for m in mods) + "\n" + "\n".join("#print axioms " + t for t in thms) + "\n"
    adir = os.path.join(LEAN, ".lake", "audit")
    os.makedirs(adir, exist_ok=True)
    path = os.path.join(adir, "Audit_%s_%d.lean" % (pid, os.getpid()))
    with open(path, "w") as f:
        f.write(body)
    try:
        rc, out = run(["lake", "env", "lean", path], cwd=LEAN, timeout=900)
    finally:
        try:
            os.unlink(path)
        except OSError:
            pass
    axioms = {}
    # outputs: "'C02.foo' depends on axioms: [propext, Quot.sound]" or "'C02.foo' does not depend on any axioms"
    for m in re.finditer(r"'([^']+)' depends on axioms: \[([^\]]*)\]", out, re.S):
        axioms[m.group(1)] = [a.strip() for a in m.group(2).replace("\n", " ").split(",") if a.strip()]
    for m in re.finditer(r"'([^']+)' does not depend on any axioms", out):
        axioms[m.group(1)] = []
    ok = rc == 0 and all(t in axioms for t in thms)
    bad = {t: a for t, a in axioms.items() if not set(a) <= ALLOWED_AXIOMS}
    if bad:
        ok = False
    return ok, axioms, out if not ok else ""


# ------------------------------------------------------------------------------------------------
# model driver
# ------------------------------------------------------------------------------------------------
def enc_str(s):
    return "-" if s == "" else ",".join(str(ord(c)) for c in s)


def dec_str(tok):
    return "" if tok == "-" else "".join(chr(int(x)) for x in tok.split(","))


def enc_strs(l):
    l = list(l)
    return "~" if not l else "|".join(enc_str(x) for x in l)


def enc_bytes(b):
    return "-" if not b else bytes(b).hex()


def dec_bytes(tok):
    return b"" if tok == "-" else bytes.fromhex(tok)


def enc_nats(l):
    l = list(l)
    return "~" if not l else ",".join(str(int(x)) for x in l)


def drive(lines, timeout=1200, shards=1):
    """pipe `lines` through the Lean model driver, return the output lines (same length)"""
    lines = list(lines)
    if not lines:
        return []
    if shards > 1 and len(lines) > 2000:
        import concurrent.futures as cf

        k = min(shards, 16)
        size = (len(lines) + k - 1) // k
        parts = [lines[i : i + size] for i in range(0, len(lines), size)]
        with cf.ThreadPoolExecutor(max_workers=k) as ex:
            outs = list(ex.map(lambda p: drive(p, timeout=timeout), parts))
        return [x for o in outs for x in o]
    _ensure_driver()
    data = "\n".join(lines) + "\n"
    p = subprocess.run(
        ["lake", "env", "lean", "--run", "Driver.lean"], cwd=LEAN, input=data, capture_output=True, text=True, timeout=timeout
    )
    out = p.stdout.split("\n")
    if out and out[-1] == "":
        out.pop()
    if p.returncode != 0 or len(out) != len(lines):
        raise DriverError("driver rc=%s, %d lines in, %d out\n%s" % (p.returncode, len(lines), len(out), p.stderr[-2000:]))
    return out


class DriverError(Exception):
    pass


_DRIVER_READY = False


def _ensure_driver():
    """the driver imports model files of every property: build them (a no-op when they are up to date), once per run -
    a check builds its own property's closure only, and an earlier run on another tree may have left the rest stale"""
    global _DRIVER_READY
    if _DRIVER_READY:
        return
    ok, out = lake_build(["AioftpModel.DriverAll"])
    if not ok:
        raise DriverError("the model driver does not build:\n" + out[-2000:])
    _DRIVER_READY = True


# ------------------------------------------------------------------------------------------------
# results
# ------------------------------------------------------------------------------------------------
class Result:
    """what a correspondence / oracle run produced"""

    def __init__(self):
        self.cases = 0
        self.distinct = set()
        self.disagreements = []  # dicts: {input, model, impl, correspondence}
        self.oracle_failures = []  # dicts: {input, what, signature}
        self.distribution = {}
        self.samples = []
        self.notes = []
        self.exhaustive = False
        self.lines = 0

    def count(self, key, n=1):
        self.distribution[key] = self.distribution.get(key, 0) + n

    def merge(self, other):
        self.cases += other.cases
        self.distinct |= other.distinct
        self.disagreements += other.disagreements
        self.oracle_failures += other.oracle_failures
        for k, v in other.distribution.items():
            self.count(k, v)
        self.samples += other.samples[: max(0, 8 - len(self.samples))]
        self.notes += other.notes
        self.lines += other.lines


def load_known():
    p = os.path.join(VERIF, "KNOWN_FINDINGS.json")
    try:
        return json.load(open(p)).get("findings", [])
    except FileNotFoundError:
        return []


def write_replay(pid, kind, payload):
    os.makedirs(os.path.join(VERIF, "replays"), exist_ok=True)
    blob = json.dumps(payload, sort_keys=True, default=str)
    h = hashlib.sha1(blob.encode()).hexdigest()[:12]
    path = os.path.join(VERIF, "replays", "%s-%s.json" % (pid, h))
    doc = {"property": pid, "kind": kind}
    doc.update(payload)
    with open(path, "w") as f:
        json.dump(doc, f, indent=1, sort_keys=True, default=str)
    return os.path.relpath(path, VERIF)


def write_evidence(pid, doc):
    os.makedirs(os.path.join(VERIF, "evidence"), exist_ok=True)
    path = os.path.join(VERIF, "evidence", pid + ".json")
    tmp = path + ".tmp%d" % os.getpid()
    with open(tmp, "w") as f:
        json.dump(doc, f, indent=1, default=str)
    os.replace(tmp, path)


class Ctx:
    def __init__(self, pid, tier, seed):
        self.pid = pid
        self.tier = tier
        self.seed = seed
        self.rng = random.Random("%s-%s" % (pid, seed))
        self.t0 = time.time()
        self.model_ok = True  # False when the Lean side did not build: the driver may be stale/unavailable

    def thorough(self):
        return self.tier == "thorough"

    def pick(self, quick, thorough):
        return thorough if self.tier == "thorough" else quick


# ------------------------------------------------------------------------------------------------
# the decision procedure
# ------------------------------------------------------------------------------------------------
def run_check(pid, tier, seed, replay=None):
    t0 = time.time()
    mod = importlib.import_module("props." + pid.lower())
    ctx = Ctx(pid, tier, seed)
    known = [k for k in load_known() if k.get("property") == pid and k.get("status") == "known"]
    out_lines = []
    log = []

    if replay:
        return run_replay(mod, ctx, replay)

    # 1. translator + build + audit
    gen_ok, gen_info = regenerate()
    obligations = {}
    build_ok, build_out = (False, "translator failed:\n" + str(gen_info))
    thms = []
    axioms = {}
    audit_log = ""
    forb = []
    if gen_ok:
        targets = ["AioftpModel.Properties." + pid] + list(getattr(mod, "EXTRA_LEAN_TARGETS", []))
        build_ok, build_out = lake_build(targets)
        try:
            thms, _ = property_theorems(pid)
        except Exception:
            thms = []
        if build_ok:
            a_ok, axioms, audit_log = audit(pid)
            forb = forbidden_scan()
            if not a_ok or forb:
                build_ok = False
                build_out += "\nAUDIT: " + audit_log + "\nFORBIDDEN: " + repr(forb)
            elif ctx.thorough():
                # independent re-check of the compiled property module (and everything it imports) by leanchecker
                rc_lc, out_lc = run(["lake", "env", "leanchecker", "AioftpModel.Properties." + pid], cwd=LEAN, timeout=1800)
                ctx.leanchecker = "ok" if rc_lc == 0 else "FAILED"
                if rc_lc != 0:
                    build_ok = False
                    build_out += "\nLEANCHECKER: " + out_lc[-3000:]
    proof_ok = gen_ok and build_ok
    ctx.model_ok = proof_ok
    for t in thms:
        obligations[t] = proof_ok
    gen_obl = list(getattr(mod, "GENERATED_OBLIGATIONS", []))
    for g in gen_obl:
        obligations["generated:" + g] = proof_ok

    # 2. corpus, correspondence, oracle
    res = Result()
    corr_error = None
    try:
        if proof_ok:
            r = mod.correspondence(ctx)
            res.merge(r)
            res.exhaustive = r.exhaustive
        else:
            log.append("Lean side does not check; skipping model comparison, running implementation-side oracle search")
    except DriverError as e:
        corr_error = "driver: " + str(e)
    except Exception:
        corr_error = traceback.format_exc()

    # known findings: direct probes
    known_lines = []
    probe_new = []
    if hasattr(mod, "probe_known"):
        try:
            for k in known:
                st = mod.probe_known(ctx, k)
                if st:
                    known_lines.append("KNOWN-FINDING: property=%s %s" % (pid, k["what"]))
                else:
                    log.append("known finding no longer reproduces: %s" % k.get("signature"))
        except Exception:
            log.append("probe_known failed:\n" + traceback.format_exc())
    else:
        for k in known:
            known_lines.append("KNOWN-FINDING: property=%s %s" % (pid, k["what"]))

    def is_known(f):
        sig = f.get("signature")
        return any(k.get("signature") == sig for k in known)

    new_fail = [f for f in res.oracle_failures if not is_known(f)]
    broken = (not proof_ok) or bool(res.disagreements) or corr_error is not None

    violation = None
    if new_fail:
        f = min(new_fail, key=lambda f: len(json.dumps(f.get("input"), default=str)))
        path = write_replay(pid, "counterexample", {"failure": f, "seed": seed, "tier": tier})
        violation = "VIOLATION property=%s replay=%s" % (pid, path)
    elif broken:
        # 5. search the implementation for a failing input
        found = None
        search_error = None
        try:
            if hasattr(mod, "search"):
                sres = mod.search(ctx, res)
                cand = [f for f in sres.oracle_failures if not is_known(f)]
                res.cases += sres.cases
                res.distinct |= sres.distinct
                for k, v in sres.distribution.items():
                    res.count("search:" + k, v)
                if cand:
                    found = min(cand, key=lambda f: len(json.dumps(f.get("input"), default=str)))
        except Exception:
            search_error = traceback.format_exc()
            log.append("search failed:\n" + search_error)
        if found:
            path = write_replay(pid, "counterexample", {"failure": found, "seed": seed, "tier": tier, "found_by": "search"})
            violation = "VIOLATION property=%s replay=%s" % (pid, path)
        else:
            what = {}
            if not gen_ok:
                what["translator"] = str(gen_info)[-3000:]
            if gen_ok and not build_ok:
                what["unchecked_theorems_or_build"] = build_out[-4000:]
                what["theorems"] = thms
            if res.disagreements:
                what["correspondence_disagreements"] = res.disagreements[:5]
            if corr_error:
                what["correspondence_error"] = corr_error[-3000:]
            if search_error:
                what["search_error"] = search_error[-3000:]  # the search itself broke off: the harness, not the code, needs a look
            path = write_replay(pid, "unchecked-obligation", {"no_longer_checks": what, "seed": seed, "tier": tier})
            violation = "VIOLATION property=%s replay=%s no-failing-input-found" % (pid, path)

    # evidence
    n_obl = max(1, len(obligations))
    discharged = sum(1 for v in obligations.values() if v)
    cov = {
        "obligations": n_obl,
        "discharged": discharged if obligations else 0,
        "checker_cmd": "cd lean && lake build AioftpModel.Properties.%s  (+ `#print axioms` audit of each theorem, forbidden-token scan%s)"
        % (pid, "; leanchecker re-check: " + getattr(ctx, "leanchecker", "-") if ctx.thorough() else ""),
        "trusted_base": TRUSTED_BASE + list(getattr(mod, "TRUSTED_EXTRA", [])),
        "theorems": sorted(obligations),
        "axioms": axioms,
        "evaluations": res.cases,
        "distinct_nontrivial": len(res.distinct),
        "rule": getattr(mod, "RULE", ""),
        "samples": res.samples[:8] or ["(no correspondence cases ran)"],
        "exhaustive": bool(res.exhaustive),
        "correspondence": {
            "driver_lines": res.lines,
            "disagreements": len(res.disagreements),
            "oracle_failures_total": len(res.oracle_failures),
            "oracle_failures_new": len(new_fail),
            "distribution": res.distribution,
            "error": corr_error,
        },
        "known_findings_reported": known_lines,
        "notes": res.notes + log,
        "explanation": getattr(mod, "EXPLANATION", ""),
    }
    doc = {
        "property_id": pid,
        "tier": tier,
        "seed": seed,
        "level": "proof",
        "coverage": cov,
        "assumptions": list(getattr(mod, "ASSUMPTIONS", [])),
        "wall_s": round(time.time() - t0, 3),
        "violations": 1 if violation else 0,
    }
    write_evidence(pid, doc)
    for l in known_lines:
        print(l)
    for l in log:
        print("note:", l.splitlines()[0] if l else "")
    print(
        "%s tier=%s seed=%s theorems=%d/%d cases=%d distinct=%d disagreements=%d oracle_failures=%d(new %d) wall=%.1fs"
        % (pid, tier, seed, discharged, n_obl, res.cases, len(res.distinct), len(res.disagreements), len(res.oracle_failures), len(new_fail), time.time() - t0)
    )
    if violation:
        print(violation)
        return 1
    return 0


def run_replay(mod, ctx, path):
    if not os.path.isabs(path):
        path = os.path.join(VERIF, path)
    doc = json.load(open(path))
    if doc.get("kind") == "unchecked-obligation":
        print("replay: unchecked obligation / correspondence, nothing to execute:")
        print(json.dumps(doc.get("no_longer_checks"), indent=1)[:4000])
        return 1
    if hasattr(mod, "replay"):
        still = mod.replay(ctx, doc)
        print("replay: failure %s" % ("REPRODUCED" if still else "not reproduced"))
        return 1 if still else 0
    print("replay: no replay function for this property")
    return 2


def main(argv):
    import argparse

    ap = argparse.ArgumentParser()
    ap.add_argument("pid")
    ap.add_argument("--tier", default=None)
    ap.add_argument("--replay", default=None)
    a = ap.parse_args(argv)
    tier = os.environ.get("VERIF_TIER") or a.tier or "quick"
    if tier not in ("quick", "thorough"):
        tier = "quick"
    try:
        seed = int(os.environ.get("VERIF_SEED", "0"))
    except ValueError:
        seed = 0
    try:
        return run_check(a.pid.upper(), tier, seed, a.replay)
    except subprocess.TimeoutExpired:
        print("timeout")
        return 2
