"""A server under the simulated network, scripted raw clients, state snapshots and the sequential
event runner shared by the session-level checks (C03, C04 wire level, C05, C10, C17, C18)."""
import asyncio
import logging
import os
import pathlib
import shutil
import socket
import tempfile

import aioftp

import simnet
import spyio
from framework import enc_bytes, enc_nats, enc_str, enc_strs


def canon_ppath(p):
    root = len(p.root)
    parts = list(p.parts[1:] if p.root else p.parts)
    return "%d:%s" % (root, enc_strs(parts))


class LogCatcher(logging.Handler):
    def __init__(self):
        super().__init__(level=logging.DEBUG)
        self.records = []
        self.exceptions = 0

    def emit(self, record):
        try:
            msg = record.getMessage()
        except Exception:
            msg = str(record.msg)
        self.records.append((record.name, record.levelname, msg))
        if record.exc_info or "dispatcher caught exception" in msg:
            self.exceptions += 1


class UserSpec:
    """plain description of a user, convertible to aioftp.User and to the driver's cfg token"""

    def __init__(self, login=None, password=None, home="/", perms=(), max_conn=None, **limits):
        self.login = login
        self.password = password
        self.home = home
        self.perms = list(perms)  # (path, readable, writable)
        self.max_conn = max_conn
        self.limits = limits

    def make(self, base_path):
        perms = [aioftp.Permission(p, readable=r, writable=w) for p, r, w in self.perms] or None
        return aioftp.User(
            self.login, self.password, base_path=base_path, home_path=self.home, permissions=perms, maximum_connections=self.max_conn, **self.limits
        )

    def token(self):
        def opt(s):
            return "n" if s is None else "s" + enc_str(s)

        perms = "+".join(
            "%s^%d^%d" % (canon_ppath(pathlib.PurePosixPath(p)), 1 if r else 0, 1 if w else 0) for p, r, w in self.perms
        )
        # aioftp: `permissions or [Permission()]`
        if not self.perms:
            perms = "1:~^1^1"
        return ";".join(
            [opt(self.login), opt(self.password), canon_ppath(pathlib.PurePosixPath(self.home)), "n" if self.max_conn is None else str(self.max_conn), perms]
        )


class World:
    def __init__(self, loop, users, backend="memory", server_kwargs=None, spy=None, family=socket.AF_INET, port=2121, manager_factory=None):
        self.loop = loop
        # manager_factory(list of aioftp.User) -> an AbstractUserManager: a user manager other than the shipped one
        self.manager_factory = manager_factory
        self.net = simnet.Net(loop, family=family, host="127.0.0.1" if family == socket.AF_INET else "::1")
        self.user_specs = users
        self.backend = backend
        self.spy = spy if spy is not None else spyio.Spy()
        self.tmpdir = None
        self.port = port
        self.kw = dict(server_kwargs or {})
        self.log = LogCatcher()
        self.clients = []

    async def start(self):
        self.undo = simnet.install(self.net)
        for name in ("aioftp.server", "aioftp.client", "aioftp"):
            lg = logging.getLogger(name)
            lg.setLevel(logging.DEBUG)
        self.root_logger = logging.getLogger("aioftp")
        self.root_logger.addHandler(self.log)
        self.root_logger.propagate = False
        if self.backend == "memory":
            base_cls, base_path = aioftp.MemoryPathIO, pathlib.Path(".")
        else:
            self.tmpdir = tempfile.mkdtemp(prefix="aioftp-verif-")
            base_path = pathlib.Path(self.tmpdir)
            base_cls = aioftp.PathIO if self.backend == "pathio" else aioftp.AsyncPathIO
        self.base_path = base_path
        self.users = [u.make(base_path) for u in self.user_specs]
        # somebody else's classes: a backend class / a Server subclass of one's own (harness/thirdparty.py)
        base_cls = getattr(self, "backend_cls", None) or base_cls
        factory = spyio.make_spy_factory(base_cls, self.spy)
        self.vexec = None
        if self.backend == "vasync":
            # AsyncPathIO on an executor whose jobs take virtual time (a slow disk under the virtual clock)
            import functools

            self.vexec = simnet.VirtualExecutor(self.loop)
            factory = functools.partial(factory, executor=self.vexec)
        server_cls = getattr(self, "server_cls", None) or aioftp.Server
        self.server = server_cls(self.users if self.manager_factory is None else self.manager_factory(self.users), path_io_factory=factory, **self.kw)
        await self.server.start(self.net.host, self.port)
        return self

    async def stop(self):
        try:
            await self.server.close()
        finally:
            self.finish()

    def finish(self):
        for c in self.clients:
            c.stop()
        self.undo()
        self.root_logger.removeHandler(self.log)
        self.root_logger.propagate = True
        if self.tmpdir:
            shutil.rmtree(self.tmpdir, ignore_errors=True)
            self.tmpdir = None

    async def raw_client(self):
        c = simnet.RawClient(self.net)
        await c.connect(self.port)
        self.clients.append(c)
        await self.loop.settle()
        return c

    # ---- introspection ----
    def connection_of(self, raw):
        cport = raw.transport.local[1]
        for conn in self.server.connections.values():
            if dict.__contains__(conn, "client_port") and conn["client_port"].done() and conn["client_port"].result() == cport:
                return conn
        return None

    @staticmethod
    def _get(conn, key):
        if dict.__contains__(conn, key):
            f = dict.__getitem__(conn, key)
            if f.done() and not f.cancelled():
                return True, f.result()
        return False, None

    def tree(self):
        """canonical tree: sorted list of 'path=D' / 'path=F<hex>' tokens"""
        items = []
        if self.backend == "memory":
            state = self.server.path_io_factory.state
            if state is None:
                return "~"

            def walk(node, prefix, depth=0):
                if depth > 50:
                    return
                for ch in node.content:
                    p = prefix + [ch.name]
                    if ch.type == "dir":
                        items.append(enc_strs(p) + "=D")
                        walk(ch, p, depth + 1)
                    else:
                        items.append(enc_strs(p) + "=F" + enc_bytes(bytes(ch.content.getbuffer())))

            walk(state[0], [])
        else:
            base = self.tmpdir
            for dirpath, dirnames, filenames in os.walk(base):
                rel = os.path.relpath(dirpath, base)
                prefix = [] if rel == "." else rel.split(os.sep)
                for d in dirnames:
                    items.append(enc_strs(prefix + [d]) + "=D")
                for fn in filenames:
                    with open(os.path.join(dirpath, fn), "rb") as f:
                        items.append(enc_strs(prefix + [fn]) + "=F" + enc_bytes(f.read()))
        return ";".join(sorted(items)) if items else "~"

    def set_tree(self, entries):
        """entries: list of (path tuple, None for dir | bytes); parents first"""
        if self.backend == "memory":
            from aioftp.pathio import Node
            import io

            root = Node("dir", "/", content=[])
            index = {(): root}
            for path, content in entries:
                parent = index[tuple(path[:-1])]
                if content is None:
                    n = Node("dir", path[-1], content=[])
                else:
                    n = Node("file", path[-1], content=io.BytesIO(content))
                    n.content.seek(0, 2)
                parent.content.append(n)
                index[tuple(path)] = n
            self.server.path_io_factory.state = [root]
        else:
            for path, content in entries:
                p = os.path.join(self.tmpdir, *path)
                if content is None:
                    os.makedirs(p, exist_ok=True)
                else:
                    with open(p, "wb") as f:
                        f.write(content)

    def fs_token(self, entries):
        items = []
        for path, content in entries:
            items.append(enc_strs(list(path)) + ("=D" if content is None else "=F" + enc_bytes(content)))
        return ";".join(items) if items else "~"

    def snapshot(self, raw, replies, crashed, out=b"", listing=None):
        conn = self.connection_of(raw)
        alive = conn is not None and not raw.eof
        user = "n"
        logged = False
        cwd = "1:~"
        rnfr = "n"
        rest = 0
        xfer = "-"
        passive = data = False
        if conn is not None:
            ok, x = self._get(conn, "transfer_offset")
            xfer = str(x) if ok else "-"
            ok, u = self._get(conn, "user")
            if ok:
                user = str(self.users.index(u))
            logged = self._get(conn, "logged")[0]
            ok, c = self._get(conn, "current_directory")
            if ok:
                cwd = canon_ppath(c)
            ok, r = self._get(conn, "rename_from")
            if ok:
                bp = self.base_path.parts
                rp = pathlib.PurePosixPath(r).parts
                rnfr = "s" + enc_strs(list(rp[len(bp) :]) if rp[: len(bp)] == bp else ["<outside-base>"] + list(rp))
            ok, r = self._get(conn, "restart_offset")
            rest = r if ok else 0
            passive = self._get(conn, "passive_server")[0]
            data = self._get(conn, "data_connection")[0]
        else:
            # the model's `finish` is a separate event; a dead session compares only the reply part
            pass
        return {
            "replies": enc_nats(replies),
            "crashed": "1" if crashed else "0",
            "alive": "1" if alive else "0",
            "user": user,
            "logged": "1" if logged else "0",
            "cwd": cwd,
            "rnfr": rnfr,
            "rest": str(rest),
            "xfer": xfer,
            "passive": "1" if passive else "0",
            "data": "1" if data else "0",
            "out": enc_bytes(out),
            "listing": "n" if listing is None else "s" + ("|".join(sorted(enc_str(x) for x in listing)) if listing else "~"),
            "srvfree": "n" if self.server.available_connections.value is None else str(self.server.available_connections.value),
            "ufree": ",".join(
                "n" if self.server.user_manager.available_connections[u].value is None else str(self.server.user_manager.available_connections[u].value)
                for u in self.users
            ),
            "fs": self.tree(),
            "spy": str(self.spy.n),
            "listeners": str(len(self.net.listeners)),
        }

    def driver_init_lines(self, fs_entries=()):
        mc = self.kw.get("maximum_connections")
        lines = ["sess init %s %d %s" % ("n" if mc is None else mc, 1 if self.net.family == socket.AF_INET6 else 0, " ".join(u.token() for u in self.user_specs))]
        lines.append("sess fs " + self.fs_token(fs_entries))
        return lines


def parse_model_state(line):
    return dict(tok.split("=", 1) for tok in line.split(" ") if "=" in tok)


def drop_stale_data(raw):
    """the server closes a parked data connection on PASV/EPSV: the client side sees EOF and lets go of it"""
    if getattr(raw, "keep_data", False):
        return  # the scenario wants the client to go on using the connection it made, whatever happened to the other end
    if raw.data is not None and (raw.data[0].at_eof() or raw.data[1].transport.is_closing()):
        try:
            raw.data[1].close()
        except Exception:
            pass
        raw.data = None


async def run_line(world, raw, line_bytes, payload=b"", wft=None):
    """send one command line, play the data phase if a worker starts, return (codes, crashed, out, listing)"""
    loop = world.loop
    drop_stale_data(raw)
    n0 = len(raw.replies)
    e0 = world.log.exceptions
    raw.send_raw(line_bytes + b"\r\n")
    await loop.settle()
    # a reply may legitimately take (virtual) time: wait for the final reply, not just for quiescence
    waited = 0.0
    while waited < 4.0 and not raw.eof and not any(not c.startswith("1") for c, _ in raw.replies[n0:]) and world.connection_of(raw) is not None:
        await asyncio.sleep(0.25)
        waited += 0.25
        await loop.settle()
    new = raw.replies[n0:]
    codes = [int(c) if c.isdigit() else -1 for c, _ in new]
    out = b""
    listing = None
    verb = line_bytes.split(b" ")[0].strip().lower()
    if 150 in codes and not raw.eof:
        if raw.data is not None:
            dr, dw = raw.data
            if verb in (b"stor", b"appe"):
                if payload:
                    dw.write(payload)
                dw.close()
                await loop.settle()
            else:
                try:
                    out = await asyncio.wait_for(dr.read(), 60)
                except (ConnectionError, asyncio.TimeoutError):
                    pass
                dw.close()
                await loop.settle()
                if verb in (b"list", b"mlsd"):
                    listing = []
                    for ln in out.decode("utf-8", "replace").split("\r\n"):
                        if not ln:
                            continue
                        if verb == b"mlsd":
                            listing.append(ln.partition(" ")[2])
                        else:
                            listing.append(ln.split(None, 8)[8] if len(ln.split(None, 8)) > 8 else ln)
                    out = b""
            raw.data = None
        elif codes[-1] == 150:
            w = world.kw.get("wait_future_timeout", 1) if wft is None else wft
            if w is not None:
                await asyncio.sleep(w + 0.01)
                await loop.settle()
        new = raw.replies[n0:]
        codes = [int(c) if c.isdigit() else -1 for c, _ in new]
    crashed = world.log.exceptions > e0
    return codes, crashed, out, listing


async def data_connect(world, raw):
    conn = world.connection_of(raw)
    if conn is None:
        return False
    ok, ps = world._get(conn, "passive_server")
    if not ok or world._get(conn, "data_connection")[0]:
        return False
    drop_stale_data(raw)
    if raw.data is not None:
        return False
    await raw.data_connect(ps.port)
    await world.loop.settle()
    return True
