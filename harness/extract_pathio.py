"""Translator, storage-backend part (C18): the methods of `PathIO` and `AsyncPathIO` as
(name, decorator stack, signature, body) tables, taken from the ast of the live `pathio.py`.

`AsyncPathIO` is `PathIO` run in an executor: every method must have the same signature and the same body
(the same call on the same `pathlib` object) and the same decorators once `with_timeout` and `_blocking_io`
are removed.  That statement is a `decide` over the two generated tables (`Properties/C18.lean`,
`fs_backends_same_bodies`), so a change to one class only stops the proof.

Texts travel as lists of code points (kernel-friendly); the readable text is in the comment above each entry.
`list` is represented by `Lister.__anext__` with the call `self.worker()` replaced by the body of `worker`
(the only structural difference between the two classes).
"""
import ast
import os
import sys

DECOS = {
    "universal_exception": "universalException",
    "defend_file_methods": "defendFileMethods",
    "with_timeout": "withTimeout",
    "_blocking_io": "blockingIo",
}


def _strip_doc(body):
    if body and isinstance(body[0], ast.Expr) and isinstance(getattr(body[0], "value", None), ast.Constant) and isinstance(body[0].value.value, str):
        return body[1:]
    return body


def _unparse(stmts):
    return "\n".join(ast.unparse(s) for s in stmts)


def _deco_name(d):
    return ast.unparse(d)


def _method_entry(fn, name=None, inline=None):
    body = _strip_doc(fn.body)
    if inline is not None:
        new = []
        for st in body:
            if (
                isinstance(st, ast.Return)
                and isinstance(st.value, ast.Call)
                and ast.unparse(st.value.func) == "self.worker"
                and not st.value.args
                and not st.value.keywords
            ):
                new += _strip_doc(inline.body)
            else:
                new.append(st)
        body = new
    return {
        "name": name or fn.name,
        "decos": [_deco_name(d) for d in fn.decorator_list],
        "sig": ast.unparse(fn.args),
        "body": _unparse(body),
        "is_async": isinstance(fn, ast.AsyncFunctionDef),
    }


def class_table(tree, clsname):
    cls = next(n for n in tree.body if isinstance(n, ast.ClassDef) and n.name == clsname)
    out = []
    for n in cls.body:
        if not isinstance(n, (ast.FunctionDef, ast.AsyncFunctionDef)):
            continue
        if n.name == "__init__":
            continue
        if n.name == "list":
            lister = next(x for x in n.body if isinstance(x, ast.ClassDef))
            fns = {x.name: x for x in lister.body if isinstance(x, (ast.FunctionDef, ast.AsyncFunctionDef))}
            out.append(_method_entry(fns["__anext__"], name="list.__anext__", inline=fns.get("worker")))
            # what is globbed is part of `list` itself when it is not in __anext__
            continue
        out.append(_method_entry(n))
    return out


def tables():
    src_dir = os.path.join(os.environ.get("AIOFTP_REPO", "/repo"), "src")
    path = os.path.join(src_dir, "aioftp", "pathio.py")
    with open(path) as f:
        tree = ast.parse(f.read())
    return class_table(tree, "PathIO"), class_table(tree, "AsyncPathIO")


def memory_file_own_position():
    """True only when `MemoryPathIO._open` hands out, on every path, a fresh object of a class of the module whose
    `seek`, `read` and `write` position the node's BytesIO from the object's own `position` before they work and
    record the position afterwards.  Any other shape gives False (the proof then does not go through)."""
    src_dir = os.path.join(os.environ.get("AIOFTP_REPO", "/repo"), "src")
    with open(os.path.join(src_dir, "aioftp", "pathio.py")) as f:
        tree = ast.parse(f.read())
    classes = {n.name: n for n in tree.body if isinstance(n, ast.ClassDef)}
    mem = classes.get("MemoryPathIO")
    if mem is None:
        return False
    opener = next((n for n in mem.body if isinstance(n, ast.AsyncFunctionDef) and n.name == "_open"), None)
    if opener is None:
        return False
    returned = set()
    for n in ast.walk(opener):
        if isinstance(n, ast.Return):
            if not isinstance(n.value, ast.Name):
                return False
            returned.add(n.value.id)
    if len(returned) != 1:
        return False
    var = next(iter(returned))
    handle_classes = set()
    for n in ast.walk(opener):
        targets = []
        if isinstance(n, ast.Assign):
            targets = n.targets
        elif isinstance(n, (ast.AugAssign, ast.AnnAssign)):
            targets = [n.target]
        if any(isinstance(t, ast.Name) and t.id == var for t in targets):
            v = n.value
            if not (isinstance(n, ast.Assign) and len(targets) == 1 and isinstance(v, ast.Call) and isinstance(v.func, ast.Name) and v.func.id in classes):
                return False
            handle_classes.add(v.func.id)
        elif any(isinstance(t, ast.Tuple) for t in targets) and any(isinstance(x, ast.Name) and x.id == var for t in targets for x in ast.walk(t)):
            return False
    if len(handle_classes) != 1:
        return False
    cls = classes[next(iter(handle_classes))]
    fns = {n.name: n for n in cls.body if isinstance(n, ast.FunctionDef)}
    if any(isinstance(n, ast.AsyncFunctionDef) for n in cls.body):
        return False
    want_content = "content = self.node.content\ncontent.seek(self.position, io.SEEK_SET)\nreturn content"
    shapes = {
        "_content": want_content,
        "seek": "self.position = self._content().seek(offset, whence)\nreturn self.position",
        "read": "content = self._content()\ndata = content.read(*args)\nself.position = content.tell()\nreturn data",
        "write": "content = self._content()\ncount = content.write(data)\nself.position = content.tell()\nreturn count",
        "__init__": "self.node = node\nself.position = position",
    }
    for name, want in shapes.items():
        fn = fns.get(name)
        if fn is None or _unparse(_strip_doc(fn.body)) != want:
            return False
    if set(fns) - set(shapes):
        return False
    return True


def memory_rename_guards():
    """the refusals of `MemoryPathIO.rename`, in order, as (test, exception) texts - up to the first statement that
    changes the tree"""
    src_dir = os.path.join(os.environ.get("AIOFTP_REPO", "/repo"), "src")
    with open(os.path.join(src_dir, "aioftp", "pathio.py")) as f:
        tree = ast.parse(f.read())
    mem = next((n for n in tree.body if isinstance(n, ast.ClassDef) and n.name == "MemoryPathIO"), None)
    fn = next((n for n in (mem.body if mem else []) if isinstance(n, ast.AsyncFunctionDef) and n.name == "rename"), None)
    out = []
    if fn is None:
        return out

    def walk(stmts):
        for st in stmts:
            if isinstance(st, ast.If) and len(st.body) == 1 and isinstance(st.body[0], ast.Raise) and not st.orelse:
                exc = st.body[0].exc
                name = ast.unparse(exc.func) if isinstance(exc, ast.Call) else ast.unparse(exc)
                out.append((ast.unparse(st.test), name))
            elif isinstance(st, ast.If):
                out.append(("if " + ast.unparse(st.test), ""))
                if not walk(st.body):
                    return False
            elif isinstance(st, ast.Assign) and isinstance(st.value, ast.Call) and ast.unparse(st.value.func) == "self.get_node":
                continue
            elif isinstance(st, ast.Expr) and isinstance(st.value, ast.Constant):
                continue
            else:
                return False  # the first statement that does something else: the guards are over
        return True

    walk(fn.body)
    return out


MEMORY_RENAME_GUARDS = [
    ("snode is None", "FileNotFoundError"),
    ("if source != destination", ""),
    ("dparent is None", "FileNotFoundError"),
    ("dparent.type != 'dir'", "NotADirectoryError"),
    ("source in destination.parents", "OSError"),
]


def _module_tree():
    src_dir = os.path.join(os.environ.get("AIOFTP_REPO", "/repo"), "src")
    with open(os.path.join(src_dir, "aioftp", "pathio.py")) as f:
        return ast.parse(f.read())


def universal_exception_facts():
    """(classes re-raised unchanged, the rest of Exception is re-raised as PathIOError) - from the one try statement of
    the wrapper in `universal_exception`; an unrecognised shape gives ([], False)"""
    fn = next((n for n in _module_tree().body if isinstance(n, ast.FunctionDef) and n.name == "universal_exception"), None)
    if fn is None:
        return [], False
    wrapper = next((n for n in fn.body if isinstance(n, ast.AsyncFunctionDef)), None)
    if wrapper is None or len(wrapper.body) != 1 or not isinstance(wrapper.body[0], ast.Try):
        return [], False
    t = wrapper.body[0]
    if t.finalbody or t.orelse or len(t.handlers) != 2 or ast.unparse(t.body[0]) != "return await coro(*args, **kwargs)" or len(t.body) != 1:
        return [], False
    h0, h1 = t.handlers
    if not (len(h0.body) == 1 and isinstance(h0.body[0], ast.Raise) and h0.body[0].exc is None):
        return [], False
    names = [ast.unparse(e) for e in (h0.type.elts if isinstance(h0.type, ast.Tuple) else [h0.type])]
    wraps = (
        ast.unparse(h1.type) == "Exception"
        and len(h1.body) == 1
        and isinstance(h1.body[0], ast.Raise)
        and isinstance(h1.body[0].exc, ast.Call)
        and ast.unparse(h1.body[0].exc.func) == "errors.PathIOError"
    )
    return names, wraps


def blocking_io_plain():
    """`_blocking_io`'s wrapper is one statement: `return await <loop>.run_in_executor(...)` - no try, no shield, so a
    cancellation of the awaiting task is a cancellation of the call as far as the caller is concerned"""
    fn = next((n for n in _module_tree().body if isinstance(n, ast.FunctionDef) and n.name == "_blocking_io"), None)
    wrapper = next((n for n in (fn.body if fn else []) if isinstance(n, ast.AsyncFunctionDef)), None)
    if wrapper is None or len(wrapper.body) != 1:
        return False
    st = wrapper.body[0]
    return (
        isinstance(st, ast.Return)
        and isinstance(st.value, ast.Await)
        and isinstance(st.value.value, ast.Call)
        and isinstance(st.value.value.func, ast.Attribute)
        and st.value.value.func.attr == "run_in_executor"
        and "shield" not in ast.unparse(st)
    )


def file_context_exit_returns_nothing():
    """`AsyncPathIOContext.__aexit__` has no `return <value>`: it cannot swallow what the body raised"""
    cls = next((n for n in _module_tree().body if isinstance(n, ast.ClassDef) and n.name == "AsyncPathIOContext"), None)
    fn = next((n for n in (cls.body if cls else []) if isinstance(n, ast.AsyncFunctionDef) and n.name == "__aexit__"), None)
    if fn is None:
        return False
    return not any(isinstance(n, ast.Return) and n.value is not None for n in ast.walk(fn))


def nursery_instance_per_call():
    """`PathIONursery.__call__` builds a NEW backend instance on every call (one per session) and shares only `state`"""
    cls = next((n for n in _module_tree().body if isinstance(n, ast.ClassDef) and n.name == "PathIONursery"), None)
    fn = next((n for n in (cls.body if cls else []) if isinstance(n, ast.FunctionDef) and n.name == "__call__"), None)
    if fn is None:
        return False
    want = ["instance = self.factory(*args, state=self.state, **kwargs)", "if self.state is None:\n    self.state = instance.state", "return instance"]
    return [ast.unparse(st) for st in fn.body] == want


def _nats(s):
    return "[" + ", ".join(str(ord(c)) for c in s) + "]"


def _entry(e):
    decos = []
    for d in e["decos"]:
        decos.append("." + DECOS[d] if d in DECOS else ".other " + _nats(d))
    comment = "%s  @[%s]  (%s)%s\n%s" % (e["name"], ", ".join(e["decos"]), e["sig"], "  async" if e["is_async"] else "", e["body"])
    comment = comment.replace("-/", "- /").replace("/-", "/ -")
    return "  /- %s -/\n  { name := %s, decos := [%s], sig := %s, body := %s }" % (
        comment.replace("\n", "\n     "),
        _nats(e["name"]),
        ", ".join(decos),
        _nats(e["sig"]),
        _nats(e["body"]),
    )


def gen_pathio():
    p, a = tables()
    out = [
        "/- GENERATED by harness/extract_pathio.py from /repo/src/aioftp/pathio.py. Do not edit. -/",
        "namespace Generated.PathIO",
        "",
        "/-- decorators that occur on the storage-backend methods -/",
        "inductive Deco where",
        "  | universalException | defendFileMethods | withTimeout | blockingIo",
        "  | other (name : List Nat)",
        "  deriving DecidableEq, Repr",
        "",
        "/-- one method: texts as code points -/",
        "structure BackendMethod where",
        "  name : List Nat",
        "  decos : List Deco        -- outermost first",
        "  sig : List Nat",
        "  body : List Nat",
        "  deriving DecidableEq, Repr",
        "",
        "/-- `class PathIO` -/",
        "def pathioMethods : List BackendMethod := [",
        ",\n".join(_entry(e) for e in p),
        "]",
        "",
        "/-- `class AsyncPathIO` -/",
        "def asyncPathioMethods : List BackendMethod := [",
        ",\n".join(_entry(e) for e in a),
        "]",
        "",
        "/-- `MemoryPathIO._open` returns, on every path, a fresh `MemoryFile`, whose `seek`/`read`/`write` work from the",
        "    file's own position (exact shapes checked by the translator; any other shape gives `false`) -/",
        "def memoryFileOwnPosition : Bool := %s" % ("true" if memory_file_own_position() else "false"),
        "",
        "/-- `PathIONursery.__call__` makes a new backend instance per call (per session); only `state` is shared -/",
        "def nurseryInstancePerCall : Bool := %s" % ("true" if nursery_instance_per_call() else "false"),
        "",
        "/-- `universal_exception`: the classes its wrapper re-raises unchanged -/",
        "def universalExceptionPassThrough : List String := [%s]" % ", ".join('"%s"' % n for n in universal_exception_facts()[0]),
        "/-- ... and every other `Exception` is re-raised as `errors.PathIOError` -/",
        "def universalExceptionWrapsTheRest : Bool := %s" % ("true" if universal_exception_facts()[1] else "false"),
        "/-- `_blocking_io` awaits `run_in_executor(...)` and nothing else (no try, no shield) -/",
        "def blockingIoPlainAwait : Bool := %s" % ("true" if blocking_io_plain() else "false"),
        "/-- `AsyncPathIOContext.__aexit__` returns nothing (it cannot swallow what the body of `async with` raised) -/",
        "def fileContextExitReturnsNothing : Bool := %s" % ("true" if file_context_exit_returns_nothing() else "false"),
        "",
        "/-- `MemoryPathIO.rename` refuses, before it changes anything and in this order: a missing source; then, for",
        "    different paths, a missing destination parent, a destination parent that is no directory, and a source",
        "    that is among the destination's parents (`source in destination.parents`: at ANY depth).  Found: %s -/" % repr(memory_rename_guards()).replace("-/", "- /"),
        "def memoryRenameGuardsAsModelled : Bool := %s" % ("true" if memory_rename_guards() == MEMORY_RENAME_GUARDS else "false"),
        "",
        "end Generated.PathIO",
        "",
    ]
    return "\n".join(out)


GENERATORS = {"PathIO.lean": gen_pathio}

if __name__ == "__main__":
    print(gen_pathio())
