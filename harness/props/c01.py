"""C01  transferred bytes are exact (STOR / APPE / RETR, whole or from a restart offset).

End to end under the simulated network: the real `aioftp.Client` talks to the real `aioftp.Server` whose
backend is wrapped by a spy.  A case is a small *sequence* of transfers on one file (so that hidden handle state
left by one transfer meets the next one), under one configuration (backend, server block size, EPSV/PASV,
throttles, segmentation of control and data channels, latency, backend latency).  For every transfer the
write sizes the spy recorded are the chunking fed to the Lean model (`xfer stor` / `xfer retr`), which answers the
stored / delivered bytes, whether that chunking satisfies the theorems' `ValidChunking` hypothesis, and the event
trace; these are diffed against the implementation.  The oracle states the property on the implementation only.
"""
import asyncio
import os
import pathlib
import random

import aioftp

import simnet
import spyio
import world as W
from framework import Result, drive, enc_nats

PID = "C01"
THROTTLE_LEGS = ("srv_read", "srv_write", "srv_read_pc", "srv_write_pc", "cli_read", "cli_write", "user_read_pc", "user_write_pc")
RULE = (
    "case = configuration (backend memory/pathio/async, block_size in {1,2,7,64,8192}, EPSV/PASV, throttle off/on, "
    "segmenter whole/1-byte/random/block+-1 on control and on data channels, latency 0/>0, backend latency 0/>0) x "
    "1..4 transfers on one file: STOR/APPE with payload size in {0,1,bs-1,bs,bs+1,2bs+3,3bs,random,>64KiB}, content in "
    "{all 256 values, CR/LF/NUL/IAC runs, pseudo-random, ramp, zeros}, restart offset in {0, inside, =len, >len}, "
    "client write chunkings, or RETR with offset in the same classes and client read size; through the stream API "
    "or Client.upload/download; a transfer is non-trivial unless it is a whole-file, single-chunk, offset-0 transfer "
    "over an unsegmented channel; distinct = distinct (verb, size class, offset class, bs, chunking signature, "
    "segmenters, backend, passive, throttle) tuples"
)
EXPLANATION = (
    "Theorems in Properties/C01.lean hold for every payload, old content, offset, block size > 0 and every chunking "
    "(unbounded).  This run ties Model.Transfer to the live client+server: the spy's write sizes are the chunking the "
    "model is given, stored/delivered bytes, ValidChunking of the observed chunking and the observable event order "
    "(open, seek, read/write sizes, data-connection close, file close, 226 at the client) are compared, and the "
    "arithmetic specification, the 226-after-close order, the block structure and what a second session sees are "
    "evaluated on the implementation."
)
ASSUMPTIONS = [
    "in-memory transport stands in for sockets (ordered, reliable, arbitrary segmentation/latency, flow control)",
    "StreamReader.read(n) returns b'' only at EOF; BytesIO / regular-file read, write, seek as in Py/BytesIO.lean",
    "one writer per file at a time (concurrent transfers on the same file are C17)",
    "offset upload to a file that does not exist is backend dependent (memory creates, PathIO/AsyncPathIO answer 451): "
    "modelled and compared, not counted as a C01 violation (C18/C13, findings F6/F7)",
]
GENERATED_OBLIGATIONS = ["Transfer.lean (worker shapes, modes, iterator)"]
EXTRA_LEAN_TARGETS = ["AioftpModel.Driver.Transfer"]
TRUSTED_EXTRA = ["translator harness/extract_transfer.py (ast of stor_worker / retr_worker / AsyncStreamIterator / iter_by_block)"]

BLOCK_SIZES = [1, 2, 7, 64, 8192]
SEGS = ["whole", "one", "random", "block"]
MODE_NUM = {"rb": 0, "wb": 1, "ab": 2, "r+b": 3}
FINALS = ("226", "451", "425", "426", "550", "553")


# ------------------------------------------------------------------------------------------------
# generators
# ------------------------------------------------------------------------------------------------
def gen_content(rng, n, kind=None):
    kind = kind or rng.choice(["all256", "ctl", "random", "ramp", "zeros"] if rng.random() < 0.9 else ["zeros"])
    if n == 0:
        return b""
    if kind == "all256":
        s = rng.randrange(256)
        return bytes((s + i) % 256 for i in range(n))
    if kind == "ctl":
        runs = [b"\r\n", b"\r", b"\n", b"\0", b"\xff", b"\xff\xff", b"\xff\xf4\xff\xf2", b"\r\0", b"\n\r", b"\xff\xfb\x01", b"x"]
        out = bytearray()
        while len(out) < n:
            out += rng.choice(runs) * rng.randint(1, 3)
        return bytes(out[:n])
    if kind == "random":
        return rng.randbytes(n)
    if kind == "ramp":
        a = rng.choice([7, 11, 13, 101])
        return bytes((i * a + (i >> 8) + 3) % 251 for i in range(n))
    return bytes(n)


def gen_size(rng, bs, allow_big=True):
    r = rng.random()
    cands = [0, 1, max(bs - 1, 0), bs, bs + 1, 2 * bs + 3, 3 * bs, 2 * bs, 2 * bs - 1]
    if r < 0.62:
        return rng.choice(cands)
    if r < 0.9:
        return rng.randint(0, 4 * bs + 1) if bs <= 64 else rng.randint(0, 3 * bs)
    if bs <= 64:
        return rng.randint(100, 700)
    if allow_big and r > 0.985:
        return rng.randint(66000, 140000)
    return rng.randint(0, 3 * bs)


def gen_offset(rng, length, bs):
    """(offset, class)"""
    c = rng.choice(["zero", "zero", "inside", "inside", "end", "beyond"])
    if c == "inside" and length < 2:
        c = "end" if length else "beyond"
    if c == "zero":
        return 0, c
    if c == "inside":
        return rng.choice([1, length - 1, rng.randint(1, length - 1), min(length - 1, bs), min(length - 1, max(1, bs - 1))]), c
    if c == "end":
        return (length, c) if length else (rng.randint(1, bs + 2), "beyond")
    return length + rng.choice([1, 2, bs, bs + 1, rng.randint(1, 2 * bs + 2)]), c


def gen_writes(rng, n, bs):
    """client-side write sizes for a payload of n bytes"""
    if n == 0:
        return rng.choice([[], [0], []])
    k = rng.choice(["one", "blocks", "random", "bytes", "tail"])
    if k == "one":
        return [n]
    if k == "bytes" and n <= 200:
        return [1] * n
    if k == "blocks":
        step = rng.choice([max(1, bs - 1), bs, bs + 1, 2 * bs + 1])
        return [min(step, n - i) for i in range(0, n, step)]
    if k == "tail":
        return [n - 1, 1] if n > 1 else [n]
    out = []
    left = n
    hi = max(1, min(n, rng.choice([3, bs, 2 * bs + 1, n])))
    while left:
        s = min(left, rng.randint(1, hi))
        if rng.random() < 0.05:
            out.append(0)  # an empty write in the middle (must not end anything)
        out.append(s)
        left -= s
        if len(out) > 400:
            out.append(left)
            break
    return out


def size_class(n, bs):
    if n in (0, 1):
        return str(n)
    if n == bs - 1:
        return "bs-1"
    if n == bs:
        return "bs"
    if n == bs + 1:
        return "bs+1"
    if n < bs:
        return "<bs"
    if n % bs == 0:
        return "k*bs"
    if n > 65536:
        return ">64K"
    return "multi+tail"


def gen_case(rng, tier_big=True, force=None):
    force = force or {}
    bs = force.get("bs", rng.choice([1, 2, 2, 7, 7, 7, 64, 64, 64, 8192]))
    backend = force.get("backend", rng.choice(["memory", "memory", "pathio", "async"]))
    seg_data = force.get("seg_data", rng.choice(SEGS))
    seg_ctrl = force.get("seg_ctrl", rng.choice(SEGS))
    case = {
        "seed": rng.getrandbits(32),
        "backend": backend,
        "bs": bs,
        "passive": rng.choice(["epsv", "pasv"]),
        "throttle": None,
        "seg_ctrl": seg_ctrl,
        "seg_data": seg_data,
        "latency": rng.choice([0, 0, 0.004, 0.05]),
        "spy_delay": rng.choice([0, 0, 0.002]),
        "subdir": rng.random() < 0.5,
        "initial": None,
        "initial_pos": None,
        "ops": [],
    }
    if rng.random() < 0.3:
        lim = lambda: rng.choice([None, 997, 4096, 50000, 1000003])  # noqa: E731
        case["throttle"] = {k: lim() for k in THROTTLE_LEGS}
    heavy = seg_data == "one" or bool(case["spy_delay"]) or backend == "async" or (bool(case["throttle"]) and seg_data != "whole")
    cap = 500 if heavy else 10**9
    if rng.random() < 0.6:
        n = gen_size(rng, bs, allow_big=False)
        if n > cap:
            n = rng.randint(0, cap)
        case["initial"] = gen_content(rng, n).hex()
        if backend == "memory":
            # the BytesIO of a memory node keeps the position its last user left (possibly past the end)
            case["initial_pos"] = rng.choice([0, n, n // 2, n + 3])
    cur = None if case["initial"] is None else len(case["initial"]) // 2
    nops = rng.choice([1, 1, 2, 3, 4])
    for _ in range(nops):
        if cur is None or rng.random() < 0.6:
            verb = rng.choice(["STOR", "APPE"])
            n = gen_size(rng, bs, allow_big=tier_big and not heavy)
            if n > cap:
                n = rng.randint(0, cap)
            off, oc = gen_offset(rng, cur or 0, bs) if rng.random() < (0.65 if cur is not None else 0.08) else (0, "zero")
            api = "stream"
            if off == 0 and verb == "STOR" and rng.random() < 0.12:
                api = "upload"
            op = {"op": "up", "verb": verb, "offset": off, "payload": gen_content(rng, n).hex(), "writes": gen_writes(rng, n, bs), "api": api}
            if api == "upload":
                op["writes"] = [rng.choice([1, 3, bs, bs + 1, 8192])]  # Client.upload(block_size=...)
            case["ops"].append(op)
            # predicted length only steers the generator (offset classes); the checks never use it
            if off == 0:
                cur = n if verb == "STOR" else (cur or 0) + n
            elif cur is None:
                cur = None  # `r+b` on a missing file fails on every shipped backend
            elif n:
                cur = max(cur or 0, off + n)
            else:
                cur = cur or 0
        else:
            off, oc = gen_offset(rng, cur, bs) if rng.random() < 0.8 else (0, "zero")
            api = rng.choice(["iter", "iter", "iter", "readall", "download"])
            if off and api == "download":
                api = "iter"
            case["ops"].append({"op": "down", "offset": off, "read": rng.choice([1, 2, 5, bs, bs + 1, max(1, bs - 1), 8192, 100000]), "api": api})
    if cur is None and not any(o["op"] == "up" for o in case["ops"]):
        case["ops"].append({"op": "down", "offset": 0, "read": bs, "api": "iter"})
    return case


def det_case(rng, bs, n, verb="STOR"):
    """everything buffered at once: the server must cut the data into blocks of exactly block_size"""
    return {
        "seed": rng.getrandbits(32), "backend": rng.choice(["memory", "pathio"]), "bs": bs, "passive": "epsv", "throttle": None,
        "seg_ctrl": "whole", "seg_data": "whole", "latency": 0, "spy_delay": 0, "subdir": False, "initial": gen_content(rng, 5).hex(),
        "initial_pos": None,
        "ops": [
            {"op": "up", "verb": verb, "offset": 0, "payload": gen_content(rng, n, "ramp").hex(), "writes": [n], "api": "stream"},
            {"op": "down", "offset": 0, "read": 8192, "api": "iter"},
        ],
    }


def gen_cases(ctx, scale=1.0):
    rng = ctx.rng
    cases = []
    # systematic part: every size 0..3bs+1 for the small block sizes (thorough), boundary sizes otherwise
    for bs in (1, 2, 7):
        sizes = range(0, 3 * bs + 2) if ctx.thorough() else sorted({0, 1, bs - 1, bs, bs + 1, 2 * bs + 3} - {-1})
        for n in sizes:
            for verb in ("STOR", "APPE"):
                cases.append(det_case(rng, bs, n, verb))
    for bs in (64, 8192):
        for n in (0, 1, bs - 1, bs, bs + 1, 2 * bs + 3, 3 * bs):
            cases.append(det_case(rng, bs, n))
    # every (backend, segmenter on data) pair at least once per block size
    for backend in ("memory", "pathio", "async"):
        for seg in SEGS:
            cases.append(gen_case(rng, force={"backend": backend, "seg_data": seg, "bs": rng.choice([2, 7, 64])}))
    # beyond the transport's 64 KiB high-water mark (pause_writing / drain on both legs)
    for _ in range(ctx.pick(1, 12)):
        c = det_case(rng, 8192, rng.randint(66000, 140000))
        c["seg_data"] = rng.choice(["whole", "block", "random"])
        c["ops"][0]["writes"] = gen_writes(rng, len(c["ops"][0]["payload"]) // 2, 8192)
        cases.append(c)
    n_random = int(ctx.pick(200, 5000) * scale)
    for _ in range(n_random):
        cases.append(gen_case(rng, tier_big=ctx.thorough()))
    # every throttle leg on its own, with single writes several times larger than one second's worth of the limit
    for key in THROTTLE_LEGS:
        for limit, bs in ((3, 64), (997, 8192)):
            c = det_case(rng, bs, 3 * limit + 5)
            c["throttle"] = {k: (limit if k == key else None) for k in THROTTLE_LEGS}
            c["ops"].append({"op": "down", "offset": 0, "read": 100000, "api": "readall"})
            cases.append(c)
    # a backend whose read() returns fewer bytes than asked for while data remains (short reads are legal: pipes,
    # network file systems, a custom path_io_factory): every byte is still delivered, once
    for backend in ("memory", "pathio"):
        for bs, cap in ((64, 1), (64, 63), (8192, 1000), (7, 3)):
            for n in (cap - 1, cap, cap + 1, bs, bs + 1, 3 * bs + cap + 1):
                c = det_case(rng, bs, 0)
                c["backend"] = backend
                c["initial"] = gen_content(rng, max(n, 0), "ramp").hex()
                c["read_cap"] = cap
                c["ops"] = [{"op": "down", "offset": 0, "read": 8192, "api": "iter"}, {"op": "down", "offset": min(2, max(n, 0)), "read": 5, "api": "readall"}]
                cases.append(c)
    # a sender that pauses in the middle of the data, shorter and longer than the server's socket_timeout: whenever the
    # completion reply is sent, the stored bytes are the bytes sent
    for backend in ("memory", "pathio"):
        for pause in (1.0, 3.0):
            for verb in ("STOR", "APPE"):
                c = det_case(rng, 64, 200, verb)
                c["backend"] = backend
                c["socket_timeout"] = 2.0
                c["ops"][0].update({"writes": [70, 70, 60], "stall": [1, pause]})
                cases.append(c)
    # a speed limit of 0 (and of less than one byte per second with nothing to send) means "no limit": one leg at a time
    for key in THROTTLE_LEGS:
        c = det_case(rng, 64, 200)
        c["throttle"] = {k: (0 if k == key else None) for k in THROTTLE_LEGS}
        c["ops"].append({"op": "down", "offset": 0, "read": 100000, "api": "download"})
        c["ops"][0]["api"] = "stream"
        cases.append(c)
    # a second session looks at the file (MLST) in the middle of the transfer
    for backend in ("memory", "pathio"):
        for bs in (2, 7, 64):
            for _ in range(ctx.pick(3, 20)):
                c = gen_case(rng, force={"backend": backend, "bs": bs})
                c["bystander"] = True
                cases.append(c)
            # written out: an upload resumed inside the old content, in several writes, and a download of several blocks
            for verb in ("STOR", "APPE"):
                c = det_case(rng, bs, 3 * bs, verb)
                c["backend"] = backend
                c["initial"] = gen_content(rng, 6 * bs + 1).hex()
                c["ops"][0].update({"offset": bs, "writes": [bs, bs, bs]})
                c["ops"][1].update({"read": bs})
                c["bystander"] = True
                cases.append(c)
        # a download that is still being produced when the other session looks (beyond the transport's buffer)
        c = det_case(rng, 8192, 0)
        c["backend"] = backend
        c["initial"] = gen_content(rng, 150001).hex()
        c["ops"] = [{"op": "down", "offset": 0, "read": 8192, "api": "iter"}]
        c["bystander"] = True
        cases.append(c)
    return cases


# ------------------------------------------------------------------------------------------------
# the implementation under the simulated network
# ------------------------------------------------------------------------------------------------
def make_segmenter(policy, rng, bs):
    if policy == "whole":
        return None
    if policy == "one":
        return lambda b: [b[i : i + 1] for i in range(len(b))]
    if policy == "block":
        def seg(b):
            out, i, k = [], 0, 0
            steps = [max(1, bs - 1), bs + 1, bs]
            while i < len(b):
                s = steps[k % 3]
                out.append(b[i : i + s])
                i += s
                k += 1
            return out

        return seg

    def segr(b):
        out, i = [], 0
        hi = rng.choice([1, 2, 3, bs, 2 * bs + 1, 1500]) if len(b) <= 1500 else rng.choice([bs, 2 * bs + 1, 1500, 5000])
        while i < len(b):
            s = rng.randint(1, max(1, hi))
            out.append(b[i : i + s])
            i += s
        return out

    return segr


class TSpy(spyio.Spy):
    """spy that also writes into the shared, totally ordered event list"""

    def __init__(self, events):
        super().__init__()
        self.events = events

    async def hit(self, name, arg=None):
        self.events.append(("spy", name, arg))
        await super().hit(name, arg)


def done_factory(base, events):
    """records the COMPLETION of open/write/close (the spy records the call)"""

    class Done(base):
        async def _open(self, path, *a, **kw):
            f = await super()._open(path, *a, **kw)
            events.append(("done", "open", None))
            return f

        async def write(self, file, data):
            r = await super().write(file, data)
            events.append(("done", "write", len(data)))
            return r

        async def close(self, file):
            r = await super().close(file)
            events.append(("done", "close", None))
            return r

    Done.__name__ = base.__name__
    return Done


def make_client_class(events):
    class TClient(aioftp.Client):
        tag = "?"

        async def parse_response(self):
            code, info = await super().parse_response()
            events.append(("reply", self.tag, str(code)))
            return code, info

    return TClient


def file_path(case):
    return ("d", "f.bin") if case["subdir"] else ("f.bin",)


def read_target(world, case):
    parts = file_path(case)
    if world.backend == "memory":
        state = world.server.path_io_factory.state
        node = None
        nodes = state[0].content
        for p in parts:
            node = next((x for x in nodes if x.name == p), None)
            if node is None:
                return None
            nodes = node.content
        return bytes(node.content.getbuffer()) if node.type == "file" else None
    import os

    p = os.path.join(world.tmpdir, *parts)
    if not os.path.isfile(p):
        return None
    with open(p, "rb") as f:
        return f.read()


async def _run_case(loop, case):
    rng = random.Random(case["seed"])
    bs = case["bs"]
    th = case["throttle"] or {}
    limits = {}
    # (`is not None`: a limit of 0 is a value to pass on - it means "no limit" and must reach the constructors as 0)
    if th.get("user_read_pc") is not None:
        limits["read_speed_limit_per_connection"] = th["user_read_pc"]
    if th.get("user_write_pc") is not None:
        limits["write_speed_limit_per_connection"] = th["user_write_pc"]
    kw = {"block_size": bs}
    if case.get("socket_timeout") is not None:
        kw["socket_timeout"] = case["socket_timeout"]
    for leg, option in (("srv_read", "read_speed_limit"), ("srv_write", "write_speed_limit"), ("srv_read_pc", "read_speed_limit_per_connection"), ("srv_write_pc", "write_speed_limit_per_connection")):
        if th.get(leg) is not None:
            kw[option] = th[leg]
    world = W.World(loop, [W.UserSpec(login=None, **limits)], backend=case["backend"], server_kwargs=kw)
    net = world.net
    events = net.events  # shared order: net events (when record), spy calls/completions, client replies
    world.spy = TSpy(events)
    world.spy.enabled = False
    net.record = True
    server_data = set()
    orig_open = net.open_connection

    async def open_connection(host=None, port=None, **kwargs):
        r = await orig_open(host, port, **kwargs)
        ct, st = net.all_transports[-2], net.all_transports[-1]
        kind = "ctrl" if port == world.port else "data"
        for t in (ct, st):
            t.segmenter = make_segmenter(case["seg_ctrl"] if kind == "ctrl" else case["seg_data"], rng, bs)
            t.latency = case["latency"]
        if kind == "data":
            server_data.add(st.name)
        return r

    net.open_connection = open_connection
    obs = []
    await world.start()
    try:
        nursery = world.server.path_io_factory
        nursery.factory = done_factory(nursery.factory, events)
        entries = [(("d",), None)]
        fp = file_path(case)
        if case["initial"] is not None:
            entries.append((fp, bytes.fromhex(case["initial"])))
        world.set_tree(entries)
        if case["initial"] is not None and case["backend"] == "memory" and case["initial_pos"] is not None:
            node = world.server.path_io_factory.state[0]
            for p in fp:
                node = next(x for x in node.content if x.name == p)
            node.content.seek(case["initial_pos"])
        TClient = make_client_class(events)
        pc = (case["passive"],)
        a = TClient(path_io_factory=aioftp.MemoryPathIO, passive_commands=pc, read_speed_limit=th.get("cli_read"), write_speed_limit=th.get("cli_write"))
        a.tag = "A"
        b = TClient(path_io_factory=aioftp.MemoryPathIO)
        b.tag = "B"
        await a.connect("127.0.0.1", world.port)
        await a.login()
        await b.connect("127.0.0.1", world.port)
        await b.login()
        world.spy.enabled = True
        world.spy.delay = case["spy_delay"]
        world.spy.read_cap = case.get("read_cap")
        path = "/" + "/".join(fp)
        closed_data = set()
        for i, op in enumerate(case["ops"]):
            o = {"pre": read_target(world, case)}
            i0 = len(events)
            # data connections that exist before this transfer starts (e.g. one parked by a refused RETR and
            # dropped by the next PASV/EPSV) are not this transfer's: their close is not an event of its worker
            closed_data |= set(server_data)
            try:
                by = None
                if case.get("bystander"):
                    async def by(b=b, path=path):
                        try:
                            await asyncio.wait_for(b.stat(path), 600)  # MLST on the control channel: no data connection of its own
                        except (aioftp.StatusCodeError, asyncio.TimeoutError):
                            pass

                await asyncio.wait_for(_do_op(a, op, path, o, by), 36000)
            except aioftp.StatusCodeError as e:
                o["status"] = ",".join(str(c) for c in e.received_codes)
            except asyncio.TimeoutError:
                o["status"] = "timeout"
            except Exception as e:  # noqa: whatever the client raises is the outcome of the transfer
                o["status"] = "exc:" + type(e).__name__
                # the server closed the data connection under a client that was still writing (a refused
                # transfer): the completion reply is on the control connection, unread - read it, so that the
                # trace does not depend on how far the client had got
                try:
                    await asyncio.wait_for(a.parse_response(), 30)
                except Exception:  # noqa
                    pass
            else:
                o["status"] = "226"
            await asyncio.sleep(0.5)
            await loop.settle()
            window = events[i0:]
            o["trace"], o["order"] = trace_of(window, server_data, closed_data)
            closed_data |= {e[2] for e in window if len(e) > 2 and e[1] == "close" and e[2] in server_data}
            o["writes"] = [e[2] for e in window if e[0] == "spy" and e[1] == "write"]
            o["reads"] = [e[2][0] if e[2] else -1 for e in window if e[0] == "spy" and e[1] == "read"]
            o["blocks"] = [e[3] for e in window if len(e) > 3 and e[1] == "write" and e[2] in server_data]
            o["post"] = read_target(world, case)
            o["log_exc"] = world.log.exceptions
            # what a second session sees afterwards
            world.spy.enabled = False
            if op["op"] == "up":
                await second_session(b, path, fp, o, rng)
            world.spy.enabled = True
            obs.append(o)
            if o["status"] in ("timeout",) or o["status"].startswith("exc:"):
                break
        world.spy.enabled = False
        for c in (a, b):
            try:
                await asyncio.wait_for(c.quit(), 100)
            except Exception:
                pass
    finally:
        try:
            await asyncio.wait_for(world.stop(), 100)
        except Exception:
            world.finish()
    return obs


async def _do_op(a, op, path, o, bystander=None):
    """`bystander`: a coroutine function called once in the middle of the transfer (another session looking at
    the same file: MLST / LIST): it must not change what is transferred"""

    async def look():
        nonlocal bystander
        if bystander is not None:
            f, bystander = bystander, None
            await f()

    if op["op"] == "up":
        payload = bytes.fromhex(op["payload"])
        if op["api"] == "upload":
            src = pathlib.PurePosixPath("/src.bin")
            async with a.path_io.open(src, mode="wb") as f:
                await f.write(payload)
            await a.upload(src, path, write_into=True, block_size=op["writes"][0])
            return
        mk = a.upload_stream if op["verb"] == "STOR" else a.append_stream
        async with mk(path, offset=op["offset"]) as stream:
            i = 0
            for wi, n in enumerate(op["writes"]):
                await stream.write(payload[i : i + n])
                i += n
                if i:
                    await look()
                if op.get("stall") and op["stall"][0] == wi:
                    await asyncio.sleep(op["stall"][1])  # the sender pauses in the middle of the data
            if i < len(payload):
                await stream.write(payload[i:])
    else:
        got = []
        if op["api"] == "download":
            dst = pathlib.PurePosixPath("/dst.bin")
            await a.download(path, dst, write_into=True, block_size=op["read"])
            async with a.path_io.open(dst, mode="rb") as f:
                got.append(await f.read())
            o["client_sizes"] = None
        else:
            async with a.download_stream(path, offset=op["offset"]) as stream:
                if op["api"] == "readall":
                    got.append(await stream.read())
                else:
                    async for block in stream.iter_by_block(op["read"]):
                        got.append(block)
                        await look()
            o["client_sizes"] = [len(x) for x in got if x]
        o["data"] = b"".join(got)


async def second_session(b, path, fp, o, rng):
    try:
        st = await asyncio.wait_for(b.stat(path), 36000)
        o["b_stat"] = int(st["size"])
    except aioftp.StatusCodeError as e:
        o["b_stat"] = "code:" + ",".join(str(c) for c in e.received_codes)
    try:
        lst = await asyncio.wait_for(b.list("/" + "/".join(fp[:-1])), 36000)
        o["b_list"] = next((int(info["size"]) for p, info in lst if p.name == fp[-1]), None)
    except aioftp.StatusCodeError as e:
        o["b_list"] = "code:" + ",".join(str(c) for c in e.received_codes)
    if rng.random() < 0.5 and isinstance(o["b_stat"], int):
        got = []
        try:
            async with b.download_stream(path) as stream:
                async for block in stream.iter_by_block(4096):
                    got.append(block)
            o["b_data"] = b"".join(got)
        except Exception as e:  # noqa
            o["b_data"] = None
            o["b_err"] = type(e).__name__


def trace_of(window, server_data, closed_before=frozenset()):
    """observable event tokens of one transfer + the order facts the oracle needs; `closed_before`: data
    transports already seen closed in an earlier transfer (a second close() of those is not an event of this one)"""
    toks = []
    opened = False
    idx226 = None
    last_write_done = None
    close_done = None
    for i, e in enumerate(window):
        if e[0] == "spy":
            name, arg = e[1], e[2]
            if name == "open":
                path, a, kw = arg
                mode = kw.get("mode", a[0] if a else "rb")
                toks.append(["F", MODE_NUM.get(mode, 9)])  # becomes O when the open completes
            elif name == "seek":
                toks.append("S%d" % arg[0])
            elif name == "write":
                toks.append("W%d" % arg)
            elif name == "read":
                toks.append("R%d" % (arg[0] if arg else -1))
        elif e[0] == "done":
            if e[1] == "open":
                for t in reversed(toks):
                    if isinstance(t, list):
                        t[0] = "O"
                        break
            elif e[1] == "write":
                last_write_done = i
            elif e[1] == "close":
                toks.append("C")
                close_done = i
        elif e[0] == "reply":
            if e[1] == "A" and e[2] in FINALS:
                toks.append(e[2])
                if e[2] == "226" and idx226 is None:
                    idx226 = i
        elif len(e) > 2 and e[1] == "close" and e[2] in server_data:
            if e[2] not in closed_before:
                toks.append("X")
        elif len(e) > 3 and e[1] == "write" and e[2] in server_data:
            toks.append("w%d" % e[3])
    toks = ["%s%d" % (t[0], t[1]) if isinstance(t, list) else t for t in toks]
    order = {"i226": idx226, "last_write_done": last_write_done, "close_done": close_done}
    return ",".join(toks) if toks else "~", order


def run_case(case):
    try:
        return simnet.run(_run_case, case)
    except asyncio.CancelledError as e:  # a deadlock in the simulator cancels the main task
        return "hang:%s" % (str(e)[:200])
    except Exception as e:  # noqa: the harness itself broke (not an outcome of the implementation)
        return "harness:%s:%s" % (type(e).__name__, str(e)[:200])


# ------------------------------------------------------------------------------------------------
# the property, stated on the implementation
# ------------------------------------------------------------------------------------------------
def spec_stored(old, verb, k, payload):
    """arithmetic specification of the target after an upload (old=None: no file)"""
    o = old or b""
    if k == 0:
        return payload if verb == "STOR" else o + payload
    if not payload:
        return o
    base = o + bytes(max(0, k - len(o)))
    return base[:k] + payload + o[k + len(payload) :]


def offset_class(k, length):
    if k == 0:
        return "zero"
    if length is None:
        return "nofile"
    return "inside" if k < length else ("end" if k == length else "beyond")


def oracle(case, obs):
    """list of failures; every clause looks at implementation outputs only"""
    fails = []

    def fail(i, sig, what):
        fails.append({"input": dict(case, failing_op=i), "what": what, "signature": sig})

    if isinstance(obs, str):
        if obs.startswith("hang:"):
            fail(-1, "C01:no-completion", "client and server stopped making progress (nothing ready, no timer): %s" % obs)
        return fails
    bs = case["bs"]
    for i, (op, o) in enumerate(zip(case["ops"], obs)):
        pre, post, st = o["pre"], o["post"], o["status"]
        if op["op"] == "up":
            payload = bytes.fromhex(op["payload"])
            k = op["offset"]
            if pre is None and k and st != "226":
                # offset upload to a missing file refused (POSIX backends): nothing may have been stored
                if post is not None:
                    fail(i, "C01:refused-upload-left-a-file", "upload answered %s but a file of %d bytes exists" % (st, len(post)))
                continue
            if st != "226" and op.get("stall"):
                continue  # a sender that pauses longer than the server's socket_timeout is given up (C16): no completion reply, no claim
            if st != "226":
                fail(i, "C01:upload-not-completed", "%s offset %d of %d bytes answered %s" % (op["verb"], k, len(payload), st))
                continue
            want = spec_stored(pre, op["verb"], k, payload)
            if post != want:
                fail(i, "C01:stored-bytes-differ:%s" % op["verb"].lower(), "%s offset %d: stored %s, specification says %s" % (op["verb"], k, _show(post), _show(want)))
                continue
            od = o["order"]
            if od["i226"] is None or od["close_done"] is None or od["close_done"] > od["i226"] or (od["last_write_done"] is not None and od["last_write_done"] > od["i226"]):
                fail(i, "C01:226-before-write-or-close", "the client had the 226 at event %s, last write completed at %s, file close completed at %s" % (od["i226"], od["last_write_done"], od["close_done"]))
                continue
            if any(w < 1 or w > bs for w in o["writes"]) or sum(o["writes"]) != len(payload):
                fail(i, "C01:block-size-not-honoured", "backend writes %r for %d bytes with block_size %d" % (o["writes"][:12], len(payload), bs))
                continue
            if buffered_case(case, op) and o["writes"] != full_blocks(len(payload), bs):
                fail(i, "C01:block-size-not-honoured", "all %d bytes were buffered, block_size %d, but the backend writes were %r" % (len(payload), bs, o["writes"][:12]))
                continue
            for key in ("b_stat", "b_list"):
                if o.get(key) != len(want):
                    fail(i, "C01:second-session-size", "after the 226 a second session's %s says %r, the file has %d bytes" % (key[2:], o.get(key), len(want)))
                    break
            if "b_data" in o and o["b_data"] != want:
                fail(i, "C01:second-session-download", "after the 226 a second session downloaded %s, want %s" % (_show(o["b_data"]), _show(want)))
        else:
            k = op["offset"]
            if pre is None:
                if st == "226":
                    fail(i, "C01:download-of-missing-file", "RETR of a missing file completed")
                continue
            if st != "226":
                fail(i, "C01:download-not-completed", "RETR offset %d of a %d-byte file answered %s" % (k, len(pre), st))
                continue
            want = pre[k:]
            if o.get("data") != want:
                fail(i, "C01:downloaded-bytes-differ", "RETR offset %d of %d bytes: got %s, want %s" % (k, len(pre), _show(o.get("data")), _show(want)))
                continue
            if post != pre:
                fail(i, "C01:download-changed-the-file", "file changed by RETR")
                continue
            if case.get("read_cap"):
                # the backend hands out short blocks: they are passed on as they come, none larger than a block
                if any(r != bs for r in o["reads"]) or any(x < 1 or x > bs for x in o["blocks"]) or sum(o["blocks"]) != len(want):
                    fail(i, "C01:block-size-not-honoured", "RETR of %d bytes with block_size %d from a backend with short reads: read requests %r, blocks sent %r" % (len(want), bs, o["reads"][:6], o["blocks"][:12]))
                continue
            if o["blocks"] != full_blocks(len(want), bs) or any(r != bs for r in o["reads"]):
                fail(i, "C01:block-size-not-honoured", "RETR of %d bytes with block_size %d: read requests %r, blocks sent %r" % (len(want), bs, o["reads"][:6], o["blocks"][:12]))
                continue
            od = o["order"]
            if od["i226"] is None or od["close_done"] is None or od["close_done"] > od["i226"]:
                fail(i, "C01:226-before-write-or-close", "RETR: 226 at event %s, file close completed at %s" % (od["i226"], od["close_done"]))
    return fails


def buffered_case(case, op):
    return (
        case["seg_data"] == "whole" and case["latency"] == 0 and not case["throttle"] and not case["spy_delay"]
        and op["api"] == "stream" and op["writes"] == [len(bytes.fromhex(op["payload"]))] and 0 < len(op["payload"]) // 2 <= 60000
    )


def full_blocks(n, bs):
    return [bs] * (n // bs) + ([n % bs] if n % bs else [])


def _show(b):
    if b is None:
        return "<no file>"
    if len(b) <= 24:
        return "%d:%s" % (len(b), b.hex())
    return "%d:%s..%s" % (len(b), b[:10].hex(), b[-6:].hex())


# ------------------------------------------------------------------------------------------------
# model lines and comparison
# ------------------------------------------------------------------------------------------------
def opt_bytes(b):
    return "n" if b is None else "s" + (b.hex() if b else "-")


def model_lines(case, obs):
    """one `xfer` line per transfer (+ one spec line per upload); returns [(line, kind, op index)]"""
    be = "m" if case["backend"] == "memory" else "p"
    lines = []
    for i, (op, o) in enumerate(zip(case["ops"], obs)):
        if op["op"] == "up":
            payload = op["payload"] or "-"
            lines.append(("xfer stor %s %s %s %d %d %s %s" % (be, opt_bytes(o["pre"]), op["verb"].lower(), op["offset"], case["bs"], payload, enc_nats(o["writes"])), "stor", i))
            if len(payload) + len(o["pre"] or b"") * 2 <= 6000:
                lines.append(("xfer spec %s %s %d %s" % (opt_bytes(o["pre"]), op["verb"].lower(), op["offset"], payload), "spec", i))
        elif o["pre"] is None and o["status"] == "550":
            continue  # RETR of a missing file is refused by the handler's guard (C05): no worker, no trace to compare
        else:
            sizes = o.get("client_sizes")
            n = op["read"] if op["api"] == "iter" else 10**9
            lines.append(("xfer retr %s %d %d %d %s" % (opt_bytes(o["pre"]), op["offset"], case["bs"], n, enc_nats(sizes or [])), "retr", i))
    return lines


def impl_line(case, op, o, kind):
    if kind == "stor":
        # `valid` is the model's verdict on the observed chunking; the implementation side expects it to be 1
        # whenever the transfer completed
        return "stored=%s valid=%s trace=%s" % (opt_bytes(o["post"]) if o["status"] == "226" else "n", "1", o["trace"])
    if kind == "spec":
        pre = o["pre"]
        return (spec_stored(pre, op["verb"], op["offset"], bytes.fromhex(op["payload"])).hex() or "-")
    if o["status"] != "226":
        return "data=n blocks=~ trace=%s client=n valid=0" % o["trace"]
    data = o.get("data", b"")
    blocks = enc_nats(o["blocks"])
    if o.get("client_sizes") is None:
        return "data=%s blocks=%s trace=%s client=*" % (opt_bytes(data), blocks, o["trace"])
    return "data=%s blocks=%s trace=%s client=%s valid=1" % (opt_bytes(data), blocks, o["trace"], opt_bytes(data))


def canon_model(line, kind, o):
    if kind == "retr" and o.get("client_sizes") is None and " client=" in line:
        return line.split(" client=")[0] + " client=*"
    if kind == "stor" and line.startswith("stored=n "):
        # a refused upload: the chunking verdict is irrelevant
        return line.replace(" valid=0 ", " valid=1 ")
    return line


def distinct_key(case, op, o):
    if op["op"] == "up":
        n = len(op["payload"]) // 2
        plen = None if o["pre"] is None else len(o["pre"])
        return ("up", op["verb"], size_class(n, case["bs"]), offset_class(op["offset"], plen), case["bs"], min(len(o["writes"]), 6), min(len(op["writes"]), 4),
                case["seg_data"], case["seg_ctrl"], case["backend"], case["passive"], bool(case["throttle"]), op["api"])
    plen = None if o["pre"] is None else len(o["pre"])
    return ("down", size_class(plen or 0, case["bs"]), offset_class(op["offset"], plen), case["bs"], op["read"] if op["read"] < 100 else "big", case["seg_data"], case["seg_ctrl"],
            case["backend"], case["passive"], bool(case["throttle"]), op["api"])


def trivial(case, op, o):
    return case["seg_data"] == "whole" and case["seg_ctrl"] == "whole" and op["offset"] == 0 and len(o.get("writes") or []) <= 1 and op["op"] == "up" and op["verb"] == "STOR"


def _run(ctx, cases, compare=True, stop_after_failures=None):
    res = Result()
    pending = []
    for case in cases:
        obs = run_case(case)
        res.cases += 1
        fl = oracle(case, obs)
        res.oracle_failures += fl
        if isinstance(obs, str):
            res.count("harness_or_hang")
            if compare:
                res.disagreements.append({"correspondence": "case ran to completion", "input": case, "impl": obs, "model": "every transfer completes"})
            continue
        res.count("backend=" + case["backend"])
        res.count("bs=%d" % case["bs"])
        res.count("passive=" + case["passive"])
        res.count("throttle=" + ("on" if case["throttle"] else "off"))
        res.count("seg_data=" + case["seg_data"])
        res.count("seg_ctrl=" + case["seg_ctrl"])
        res.count("latency=" + ("0" if not case["latency"] else ">0"))
        res.count("backend_latency=" + ("0" if not case["spy_delay"] else ">0"))
        for op, o in zip(case["ops"], obs):
            res.count("transfers")
            plen = None if o["pre"] is None else len(o["pre"])
            if op["op"] == "up":
                n = len(op["payload"]) // 2
                res.count("op=%s" % op["verb"])
                res.count("payload_size=" + size_class(n, case["bs"]))
                res.count("up_offset=" + offset_class(op["offset"], plen))
                res.count("server_chunks=%s" % (len(o["writes"]) if len(o["writes"]) < 4 else "4+"))
                res.count("api=" + op["api"])
                if o["pre"] is None and op["offset"]:
                    res.count("offset_upload_to_missing_file:%s:%s" % (case["backend"], o["status"]))
            else:
                res.count("op=RETR")
                res.count("file_size=" + size_class(plen or 0, case["bs"]))
                res.count("down_offset=" + offset_class(op["offset"], plen))
                res.count("api=" + op["api"])
            res.count("status=" + o["status"])
            if not trivial(case, op, o):
                res.distinct.add(distinct_key(case, op, o))
        if compare and not case.get("read_cap") and case.get("socket_timeout") is None:  # (short reads and stalled senders are judged by the oracle alone)
            for line, kind, i in model_lines(case, obs):
                pending.append((line, kind, case, i, obs[i]))
        if len(res.samples) < 6 and res.cases % 37 == 1:
            res.samples.append({"case": _brief(case), "observed": [{k: (_show(v) if isinstance(v, (bytes, type(None))) else v) for k, v in o.items() if k in ("status", "pre", "post", "writes", "trace", "data", "b_stat")} for o in obs]})
        if stop_after_failures and len([f for f in res.oracle_failures]) >= stop_after_failures:
            break
    if compare and ctx.model_ok and pending:
        outs = drive_balanced([p[0] for p in pending])
        res.lines += len(pending)
        for (line, kind, case, i, o), out in zip(pending, outs):
            want = impl_line(case, case["ops"][i], o, kind)
            got = canon_model(out, kind, o)
            if want != got:
                if len(res.disagreements) < 12:
                    res.disagreements.append(
                        {"correspondence": "Model.Transfer (%s) vs client+server under simnet" % kind, "input": dict(case, failing_op=i), "line": line[:300], "model": got[:600], "impl": want[:600]}
                    )
                else:
                    res.count("more_disagreements")
    return res


def drive_balanced(lines, k=4):
    """the driver is interpreted (about 20 us per byte of a line): split by total length, run the parts in parallel"""
    total = sum(len(x) for x in lines)
    if total < 200000 or len(lines) < 2 * k:
        return drive(lines)
    import concurrent.futures as cf

    parts, cur, acc = [], [], 0
    for x in lines:
        cur.append(x)
        acc += len(x)
        if acc >= total / k and len(parts) < k - 1:
            parts.append(cur)
            cur, acc = [], 0
    if cur:
        parts.append(cur)
    with cf.ThreadPoolExecutor(max_workers=k) as ex:
        outs = list(ex.map(drive, parts))
    return [y for o in outs for y in o]


def _brief(case):
    c = dict(case)
    c["ops"] = [dict(o, payload=("%d bytes" % (len(o["payload"]) // 2))) if "payload" in o else o for o in case["ops"]]
    if c.get("initial"):
        c["initial"] = "%d bytes" % (len(c["initial"]) // 2)
    return c


def _late(ctx):
    """REST, the transfer command, OTHER commands, and only then the data connection (see harness/latewire.py)"""
    import world as W2
    from props import late_common as LC

    users = [W2.UserSpec("bob", None)]
    return LC.run_family(ctx, "C01", LC.c01_plans(ctx), lambda p: (users, [None], LC.C01_TREE, p, ["USER bob"]), LC.c01_oracle)


def _close_faults(ctx):
    """what a buffered backend has not written yet is written by `close()`: when THAT fails (ENOSPC, EIO of a network
    file system, a quota) the upload is not complete, and 226 must not say it is.  (The situations and the fault
    injection are C13's; the judgement here is C01's: no completion reply for bytes that were not stored.)"""
    from props import c13

    res = Result()
    for i, sit in enumerate(c13.SITUATIONS):
        if sit[2].split(" ")[0] not in ("STOR", "APPE", "RETR"):
            continue
        for backend in ("memory", "pathio"):
            for fc in (0, 1):
                r = c13._job((i, backend, None, "close", False, fc))
                res.cases += 1
                res.count("close_fault")
                inp = {"kind": "close-fault", "situation": sit[0], "preparation": sit[1], "command": sit[2], "backend": backend, "fault_class": c13.FAULT_CLASSES[fc][0], "job": [i, backend, None, "close", False, fc]}
                if isinstance(r, str):
                    res.disagreements.append({"correspondence": "C01 close-fault harness", "input": inp, "impl": r})
                    continue
                res.distinct.add(("close-fault", sit[0], backend, fc))
                if "close" in r["calls"] and 226 in r["codes"]:
                    res.oracle_failures.append({"input": inp, "what": "%r: the backend's close() failed (%s) - what it had buffered is not stored - and the transfer was answered %r" % (sit[2], inp["fault_class"], r["codes"]), "signature": "C01:226-although-close-failed"})
    return res


async def _half_close_case(loop, size, bs, backend, listing):
    """a client that is not aioftp's: it has nothing to send on the data connection of a RETR (or LIST), so it shuts its
    sending side down at once (shutdown(SHUT_WR) - legal, common) and then reads SLOWLY: the server's transport still
    holds the tail of the file when the worker has written its last block and closes.  Every byte must arrive."""
    import world as W2

    content = bytes((i * 31 + 7) % 251 for i in range(size))
    wd = W2.World(loop, [W2.UserSpec("bob", None)], backend=backend, server_kwargs={"block_size": bs})
    await wd.start()
    out = {}
    try:
        tree = [(("big.bin",), content), (("d",), None)] + [(("d", "entry-%03d" % i), b"") for i in range(40)]
        wd.set_tree(tree)
        c = await wd.raw_client()
        await W2.run_line(wd, c, b"USER bob")
        await W2.run_line(wd, c, b"EPSV")
        await W2.data_connect(wd, c)
        dr, dw = c.data
        dw.write_eof()
        await loop.settle()
        sp = dw.transport.peer  # the server's end of the data connection
        sp.HIGH = 1024
        sp.hold = True  # the client reads nothing for now
        n0 = len(c.replies)
        c.send_raw(b"LIST d\r\n" if listing else b"RETR big.bin\r\n")
        await loop.settle()
        # the client reads in small sips, pausing in between, until the server says it is done and beyond
        got = b""
        for _ in range(4000):
            sp.hold = False
            sp._schedule_pump()
            try:
                b = await asyncio.wait_for(dr.read(700), 1.0)
            except asyncio.TimeoutError:
                b = None
            except ConnectionError as e:
                out["data_error"] = type(e).__name__
                break
            sp.hold = True
            if b == b"":
                break
            if b:
                got += b
            await asyncio.sleep(0.01)
        await loop.settle()
        out["codes"] = [int(x) for x, _ in c.replies[n0:]]
        out["got"] = len(got)
        if listing:
            names = sorted(l.split(" ")[-1] for l in got.decode("utf-8").splitlines())
            out["exact"] = names == sorted("entry-%03d" % i for i in range(40))
        else:
            out["exact"] = got == content
            out["first_difference"] = next((i for i in range(min(len(got), len(content))) if got[i] != content[i]), min(len(got), len(content)))
        c.data = None
        dw.close()
        out["follow"], _, _, _ = await W2.run_line(wd, c, b"PWD")
        c.close()
        await loop.settle()
    finally:
        try:
            await wd.stop()
        except Exception:
            wd.finish()
    return out


def _half_close_job(args):
    try:
        return simnet.run(_half_close_case, *args, wall_limit=120)
    except BaseException as e:  # noqa
        return "HARNESS-ERROR %s: %s" % (type(e).__name__, e)


def _half_close_judge(inp, o):
    if isinstance(o, str):
        return {"input": inp, "what": o, "signature": "C01:half-closed-download-hang"}
    if not o.get("exact") or 226 not in o["codes"]:
        return {"input": inp, "what": "a client that shut down its sending side of the data connection and read slowly got %d bytes of %s (exact: %r, data error: %r), the server answered %r" % (
            o["got"], "the listing of 40 entries" if inp["listing"] else "the %d of the file" % inp["size"], o.get("exact"), o.get("data_error"), o["codes"]), "signature": "C01:half-closed-download-truncated"}
    return None


def _half_close(ctx):
    res = Result()
    jobs = []
    for backend in ("memory", "pathio") + (("async",) if ctx.thorough() else ()):
        for bs in (512, 8192):
            for size in (0, 1, bs - 1, bs, bs * 3 + 1, 40000) + ((200000,) if ctx.thorough() else ()):
                jobs.append((size, bs, backend, False))
            jobs.append((0, bs, backend, True))
    import multiprocessing

    with multiprocessing.get_context("fork").Pool(min(16, os.cpu_count() or 4)) as pool:
        outs = pool.map(_half_close_job, jobs, chunksize=1)
    for (size, bs, backend, listing), o in zip(jobs, outs):
        res.cases += 1
        res.count("half_closed_download")
        res.distinct.add(("half-close", size, bs, backend, listing))
        inp = {"kind": "half-close", "size": size, "block_size": bs, "backend": backend, "listing": listing}
        f = _half_close_judge(inp, o)
        if f:
            res.oracle_failures.append(f)
    return res


def correspondence(ctx):
    res = _run(ctx, gen_cases(ctx))
    res.merge(_half_close(ctx))
    res.merge(_late(ctx))
    res.merge(_close_faults(ctx))
    if res.oracle_failures:
        by_sig = {}
        for f in res.oracle_failures:
            by_sig.setdefault(f["signature"], f)
        res.oracle_failures = [shrink(f) if "ops" in f.get("input", {}) else f for f in list(by_sig.values())[:3]] + res.oracle_failures
    return res


# ------------------------------------------------------------------------------------------------
# search, shrinking, replay
# ------------------------------------------------------------------------------------------------
def still_fails(case, sig):
    f = oracle(case, run_case(case))
    return next((x for x in f if x["signature"] == sig), None)


def shrink(fail, budget=160):
    """greedy simplification of a failing case, keeping the signature"""
    sig = fail["signature"]
    best = {k: v for k, v in fail["input"].items() if k != "failing_op"}
    best_f = fail
    tries = 0
    tried = set()

    def attempt(c):
        nonlocal best, best_f, tries
        import json

        key = json.dumps(c, sort_keys=True)
        if tries >= budget or key in tried:
            return False
        tried.add(key)
        tries += 1
        f = still_fails(c, sig)
        if f:
            best, best_f = c, f
            return True
        return False

    def variants(c):
        fo = best_f["input"].get("failing_op", len(c["ops"]) - 1)
        ops = c["ops"]
        if sig == "C01:226-before-write-or-close" and (not c["spy_delay"] or c["backend"] != "memory"):
            yield dict(c, spy_delay=0.002, backend="memory")  # make the order deterministic (virtual-time backend latency)
        if len(ops) > 1:
            yield dict(c, ops=ops[: fo + 1]) if fo + 1 < len(ops) else None
            for j in range(len(ops)):
                if j != fo:
                    yield dict(c, ops=ops[:j] + ops[j + 1 :])
        for key, val in (("seg_ctrl", "whole"), ("seg_data", "whole"), ("latency", 0), ("throttle", None), ("passive", "epsv"), ("backend", "memory"), ("subdir", False), ("spy_delay", 0)):
            if sig == "C01:226-before-write-or-close" and key in ("spy_delay", "backend"):
                continue  # the order is only observable when a backend call takes time: keep the deterministic delay
            if c.get(key) != val:
                yield dict(c, **{key: val})
        if c.get("initial"):
            yield dict(c, initial=c["initial"][: 2 * max(1, len(c["initial"]) // 4)])
        for j, op in enumerate(ops):
            if op["op"] == "up":
                n = len(op["payload"]) // 2
                for m in (n // 2, n - 1, c["bs"] + 1, 2 * c["bs"] + 1):
                    if 0 <= m < n:
                        yield dict(c, ops=ops[:j] + [dict(op, payload=op["payload"][: 2 * m], writes=[m] if op["api"] == "stream" else op["writes"])] + ops[j + 1 :])
                if op["api"] == "stream" and op["writes"] != [n]:
                    yield dict(c, ops=ops[:j] + [dict(op, writes=[n])] + ops[j + 1 :])
                if op["offset"] > 1:
                    yield dict(c, ops=ops[:j] + [dict(op, offset=1)] + ops[j + 1 :])
            elif op.get("api") != "iter":
                yield dict(c, ops=ops[:j] + [dict(op, api="iter")] + ops[j + 1 :])

    progress = True
    while progress and tries < budget:
        progress = False
        for v in variants(best):
            if v is None:
                continue
            if attempt(v):
                progress = True
                break
    return best_f


def search(ctx, prior):
    res = Result()
    res.merge(_half_close(ctx))
    res.merge(_late(ctx))
    res.merge(_close_faults(ctx))
    cases = []
    for d in prior.disagreements:
        c = d.get("input")
        if isinstance(c, dict) and "ops" in c:
            cases.append({k: v for k, v in c.items() if k != "failing_op"})
    r = _run(ctx, cases, compare=False)
    res.merge(r)
    if not res.oracle_failures:
        big = _run(ctx, gen_cases(ctx, scale=1.5), compare=False, stop_after_failures=6)
        res.merge(big)
    # shrink one failure per signature
    by_sig = {}
    for f in res.oracle_failures:
        by_sig.setdefault(f["signature"], f)
    res.oracle_failures = [shrink(f) if "ops" in f.get("input", {}) else f for f in list(by_sig.values())[:3]] + res.oracle_failures
    return res


def replay(ctx, doc):
    inp = doc["failure"]["input"]
    if inp.get("kind") == "half-close":
        o = _half_close_job((inp["size"], inp["block_size"], inp["backend"], inp["listing"]))
        print(o)
        return _half_close_judge(inp, o) is not None
    if inp.get("kind") == "close-fault":
        from props import c13

        r = c13._job(tuple(inp["job"]))
        print(r if isinstance(r, str) else {k: r[k] for k in ("codes", "calls")})
        return isinstance(r, str) or ("close" in r["calls"] and 226 in r["codes"])
    if "late_plan" in inp:
        import latewire as LW
        import world as W2
        from props import late_common as LC

        plan = [tuple(x) for x in inp["late_plan"]]
        recs = LW.run_plan(([W2.UserSpec("bob", None)], [None], LC.C01_TREE, plan, ["USER bob"]))
        f = LC.c01_oracle(plan, recs) if not isinstance(recs, str) else {"what": recs}
        print("plan:", plan)
        print("oracle:", f)
        return f is not None
    case = {k: v for k, v in inp.items() if k != "failing_op"}
    obs = run_case(case)
    f = oracle(case, obs)
    print("case:", _brief(case))
    if isinstance(obs, str):
        print("run:", obs)
    else:
        for op, o in zip(case["ops"], obs):
            print(" ", {k: v for k, v in op.items() if k != "payload"}, "->", o["status"], "pre", _show(o["pre"]), "post", _show(o["post"]), "writes", o["writes"][:10], "trace", o["trace"][:120],
                  ("data " + _show(o.get("data"))) if "data" in o else "")
    for x in f:
        print("oracle:", x["signature"], "-", x["what"])
    return bool(f)


# somebody else's classes: the documented extension points used the way a third party uses them (props/thirdparty.py)
from props import thirdparty as _thirdparty  # noqa: E402

correspondence, search, replay = _thirdparty.attach(PID, correspondence, search, replay)


# somebody else's machine: the same small sessions in other environments, in child processes (props/envs.py)
from props import envs as _envs  # noqa: E402

correspondence, search, replay = _envs.attach(PID, correspondence, search, replay)
