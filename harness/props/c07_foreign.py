"""C07, listings of a server that is not aioftp: the `dir`-style (IIS) LIST format with its 12-hour clock, and the unix
format with the date spellings other servers use.  aioftp's own server only ever writes one unix spelling, so the
Windows parser and half of the date branches are never reached between aioftp and aioftp.

 (1) function level: a line is MADE from a known (mtime, size, kind, name); `parse_list_line` must give back exactly
     those facts (minute precision; day precision for the year form).  Every hour of the day x every minute is swept.
 (2) correspondence: the hour the implementation reads from `HH:MM AM|PM`, for all 12 x 2 spellings, against
     `Model.ListDate.hour24` (C07.windows_clock_roundtrip / windows_clock_spelling).
 (3) session level: `Client.list` / `Client.stat` against the scripted server of harness/foreign.py, MLSD/MLST refused
     with 500 / 502 / 504, Windows or unix listing - against the scripted server's own tree and clock."""
import datetime

from framework import Result, drive

MONTHS = ["Jan", "Feb", "Mar", "Apr", "May", "Jun", "Jul", "Aug", "Sep", "Oct", "Nov", "Dec"]


def win_line(t, size, is_dir, name, wide=True):
    h12 = t.hour % 12 or 12
    stamp = "%02d/%02d/%04d  %02d:%02d %s" % (t.month, t.day, t.year, h12, t.minute, "AM" if t.hour < 12 else "PM")
    if not wide:
        stamp = "%02d/%02d/%04d %02d:%02d %s" % (t.month, t.day, t.year, h12, t.minute, "AM" if t.hour < 12 else "PM")
    if is_dir:
        return "%s       <DIR>          %s" % (stamp, name)
    return "%s %19s %s" % (stamp, "{:,}".format(size), name)


def function_cases(ctx):
    rng = ctx.rng
    days = [(2021, 3, 14), (2020, 2, 29), (1999, 12, 31), (2000, 1, 1), (2038, 1, 19), (1980, 1, 1), (2024, 2, 29), (2023, 2, 28), (2099, 12, 31)]
    out = []
    for h in range(24):
        for mi in (range(60) if ctx.thorough() else (0, 1, 7, 29, 30, 59)):
            y, mo, d = days[(h + mi) % len(days)]
            out.append((datetime.datetime(y, mo, d, h, mi), rng.choice([0, 1, 999, 1000, 1204, 123456789, 2**40]), (h + mi) % 3 == 0, rng.choice(["name", "a b", "12 AM", "x.PM", "M", "<DIR>", "1,204"])))
    for _ in range(ctx.pick(300, 20000)):
        t = datetime.datetime(rng.randrange(1980, 2100), 1, 1) + datetime.timedelta(minutes=rng.randrange(0, 525600))
        out.append((t, rng.randrange(0, 2**40), rng.random() < 0.3, rng.choice(["f", "a b", "ümlaut", "AM", "12:00 PM x", "file.txt"])))
    return out


def run(ctx):
    import aioftp

    res = Result()
    client = aioftp.Client()
    # (1)
    for t, size, is_dir, name in function_cases(ctx):
        for wide in (True, False):
            line = win_line(t, size, is_dir, name, wide)
            res.cases += 1
            res.count("foreign_windows_line hour=%02d" % t.hour)
            res.distinct.add(("win", t, wide))
            inp = {"kind": "foreign-list-line", "line": line, "mtime": t.strftime("%Y%m%d%H%M00"), "size": size, "is_dir": is_dir, "name": name}
            f = judge_line(client, inp)
            if f:
                res.oracle_failures.append(f)
    # unix lines with the year form, as other servers pad it
    for (y, mo, d) in [(2018, 1, 3), (1958, 11, 18), (2020, 2, 29), (1999, 12, 31), (2001, 9, 9)]:
        for form in ("%s %2d  %04d", "%s %02d %04d", "%s %02d  %04d"):
            date = form % (MONTHS[mo - 1], d, y)
            for name in ("name", "a b", "7 days"):
                line = "-rw-r--r--   1 ftp      ftp          1204 %s %s" % (date, name)
                res.cases += 1
                res.count("foreign_unix_year_line")
                inp = {"kind": "foreign-list-line", "line": line, "mtime": "%04d%02d%02d000000" % (y, mo, d), "size": 1204, "is_dir": False, "name": name}
                f = judge_line(client, inp)
                if f:
                    res.oracle_failures.append(f)
    # (2)
    lines, got = [], []
    for h12 in range(1, 13):
        for pm in (0, 1):
            for mi in (0, 59):
                line = "03/14/2021  %02d:%02d %s              7 f" % (h12, mi, "PM" if pm else "AM")
                try:
                    p, info = client.parse_list_line_windows(line.encode("utf-8"))
                    g = str(int(info["modify"][8:10]))
                except Exception as e:  # noqa
                    g = "raised " + type(e).__name__
                lines.append("calendar hour24 %d %d" % (h12, pm))
                got.append((g, line))
                res.cases += 1
    if getattr(ctx, "model_ok", False):
        outs = drive(lines)
        res.lines += len(lines)
        for (g, line), o, l in zip(got, outs, lines):
            if g != o:
                res.disagreements.append({"correspondence": "Model.ListDate.hour24 vs parse_list_line_windows", "input": {"kind": "foreign-list-line", "line": line}, "line": l, "model": o, "impl": g})
    # (3)
    for f in session_cases(ctx, res):
        res.oracle_failures.append(f)
    return res


def judge_line(client, inp):
    line = inp["line"]
    try:
        p, info = client.parse_list_line(line.encode("utf-8"))
    except Exception as e:  # noqa
        return {"input": inp, "what": "the LIST line %r of another server is not parsable (%s: %s)" % (line, type(e).__name__, e), "signature": "C07:foreign-line-unparsable"}
    want_type = "dir" if inp["is_dir"] else "file"
    if str(p) != inp["name"] or info.get("type") != want_type or info.get("modify") != inp["mtime"] or (not inp["is_dir"] and info.get("size") != str(inp["size"])):
        return {"input": inp, "what": "the LIST line %r of another server is read as name %r type %r size %r modify %r; it says %r %r %r %r" % (
            line, str(p), info.get("type"), info.get("size"), info.get("modify"), inp["name"], want_type, inp["size"], inp["mtime"]), "signature": "C07:foreign-line-misread"}
    return None


async def _session(loop, style, tree, mtimes):
    import aioftp
    import foreign

    wd = foreign.ForeignWorld(loop, style)
    await wd.start()
    out = {}
    try:
        wd.set_tree(tree, mtimes)
        c = aioftp.Client(path_io_factory=aioftp.MemoryPathIO)
        await c.connect("127.0.0.1", wd.port)
        await c.login()
        try:
            out["list"] = sorted((str(p), i.get("type"), i.get("size") if i.get("type") == "file" else None, i.get("modify")) for p, i in await c.list("/d"))
            out["stat"] = []
            for p, v in tree:
                if len(p) == 2:
                    i = await c.stat("/" + "/".join(p))
                    out["stat"].append(("/" + "/".join(p), i.get("type"), i.get("size") if i.get("type") == "file" else None, i.get("modify")))
        except Exception as e:  # noqa
            out["raised"] = "%s: %s" % (type(e).__name__, e)
        c.close()
        await loop.settle()
    finally:
        try:
            await wd.stop()
        except Exception:
            wd.finish()
    return out


def session_cases(ctx, res):
    import simnet

    fails = []
    hours = [0, 1, 11, 12, 13, 23]
    tree = [(("d",), None)]
    mtimes = {}
    for k, h in enumerate(hours):
        p = ("d", "f%02d" % h)
        tree.append((p, bytes(k * 1000 + 7)))
        mtimes[p] = datetime.datetime(2021, 3, 14, h, 7 + k)
        q = ("d", "dir%02d" % h)
        tree.append((q, None))
        mtimes[q] = datetime.datetime(2019, 12, 31, h, 59 - k)
    for refusal in ("500", "502", "504"):
        for ls in ("windows", "unix"):
            for extra in ({}, {"old_date": "one-blank"}, {"dots": True}, {"multiline": "mixed"}):
                if ls == "windows" and extra.get("old_date"):
                    continue
                style = dict({"mlsd": False, "mlst": False, "refusal": refusal, "list_style": ls, "now": datetime.datetime(2021, 6, 1, 12, 0)}, **extra)
                res.cases += 1
                res.count("foreign_session list_style=" + ls)
                res.distinct.add(("foreign-session", refusal, ls, tuple(sorted(extra))))
                inp = {"kind": "foreign-session", "style": {k: (v if not isinstance(v, datetime.datetime) else v.isoformat()) for k, v in style.items()}}
                try:
                    o = simnet.run(_session, style, tree, mtimes, wall_limit=60)
                except BaseException as e:  # noqa
                    fails.append({"input": inp, "what": "the session never came back (%s: %s)" % (type(e).__name__, e), "signature": "C07:foreign-session-hang"})
                    continue
                # the unix format carries the minute only within half a year of the CLIENT's clock (the wall clock of this
                # run): compare names, types and sizes always, the time only in the Windows format (always to the minute)
                want = []
                for p, v in tree:
                    if len(p) == 2:
                        t = mtimes[p]
                        want.append(("/" + "/".join(p), "dir" if v is None else "file", None if v is None else str(len(v)), t.strftime("%Y%m%d%H%M00") if ls == "windows" else None))
                want.sort()

                def strip(rows):
                    return sorted((a, b, c, d if ls == "windows" else None) for a, b, c, d in rows)

                if "raised" in o or strip(o.get("list", [])) != want or strip(o.get("stat", [])) != want:
                    fails.append({"input": inp, "what": "list()/stat() against a server without MLSD/MLST (%s listing): %r, the server's tree says %r" % (
                        ls, o.get("raised") or {"list": strip(o.get("list", [])), "stat": strip(o.get("stat", []))}, want), "signature": "C07:foreign-session-wrong"})
    return fails


def replay(inp):
    import aioftp

    if inp.get("kind") == "foreign-list-line":
        f = judge_line(aioftp.Client(), inp)
        print(f)
        return f is not None

    class _C:
        seed = 0
        model_ok = False

        def thorough(self):
            return False

        def pick(self, a, b):
            return a

    import random

    c = _C()
    c.rng = random.Random(0)
    res = Result()
    fails = session_cases(c, res)
    for f in fails:
        print(f["what"])
    return bool(fails)
