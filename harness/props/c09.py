"""C09  client tree operations (upload, download, recursive list, remove) are faithful.

One scenario = a fresh real server on the simulated network (Memory or PathIO backend, with or without
MLST/MLSD in `commands_mapping`), the real `aioftp.Client` with its own local `path_io` (MemoryPathIO on a
separate state, or PathIO on a tmp dir), a client working directory, and the four operations in a row:
`upload(source, dest, write_into, block_size)`, `list(path, recursive=True)`, `download(...)`, `remove(path)`.
After every operation both trees are read back.  Each operation is compared with `Model.ClientTree` started
from the *implementation's* pre-state (so one divergence does not cascade) and, independently of the model,
with the documented placement rule written as a Python spec function (the oracle).
"""
import io
import itertools
import multiprocessing
import os
import pathlib
import shutil
import tempfile

import simnet
import world as W
from framework import Result, drive, enc_bytes, enc_str, enc_strs

PID = "C09"
RULE = (
    "scenarios = (source tree, pre-existing remote tree, destination in {'', 'd', 'd1/d2', '/abs/q', plus variants}, "
    "write_into, client cwd in {/, /w}, MLSD/MLST present or removed, block size, backends memory/pathio) x the four "
    "operations; source trees: every directory tree of depth <= 2 over two names with empty/non-empty files and empty "
    "directories (exhaustive), fixed depth-3 trees with repeated names under all 32 placement combinations, seeded "
    "random trees up to depth 3 / fan-out 2 (thorough: 3); plus a malformed stream (missing source, destination below a "
    "file, list of a file / missing path, remove of a missing path).  non-trivial = directory source or destination "
    "with more than one component or non-root cwd or LIST fallback; distinct = distinct (tree, placement) pairs"
)
EXPLANATION = (
    "Theorems in Properties/C09.lean are about Model.ClientTree (the four client algorithms transcribed on an abstract "
    "remote tree + cwd); this run ties the model to the real client and server at wire level and evaluates the placement "
    "rule on the implementation alone."
)
ASSUMPTIONS = [
    "single logged-in user with the default all-allow permission; no concurrent modification of either tree",
    "names are wire-safe (no '/', CR, LF, no leading/trailing blanks): name transport is C07/C08's subject",
    "in-memory network stands in for sockets; byte-exactness of one transfer under block sizes is C01's subject",
    "local side: MemoryPathIO (all scenarios) and PathIO on a tmp dir (subset); POSIX pathlib flavour",
]
TRUSTED_EXTRA = ["Model/ClientTree.lean's srv* functions restate Model/Session.lean's handler bodies for an all-permission user (tied by this run, not by proof)"]

SIG_F5_WI = "C09:upload-dir:children-under-cwd/dest.name:write_into-dest-with-parents"
SIG_F5_NOWI = "C09:upload-dir:children-under-cwd/source.name:no-write_into-nonempty-dest"

AWKWARD_NAMES = ["...", "....", ".. .", "notes; draft.txt", "a;b", "type=dir; x", "-archive", "-la", "-R old", "x -> y", "q\"uote", "sp  ace", "é ü", "[p]riv*?", "1 Jan  1 00:00 z"]
LEADING_BLANK_NAMES = [" lead.txt", "\u3000wide", "  two", "\tx"]
DESTS = ["", "d", "d1/d2", "/abs/q"]
EXTRA_DESTS = [".", "d/", "w2/d", "/w/q", "/q", "a", "d1/d2/d3", "/"]
BLOCKS = [1, 3, 8192]


# ------------------------------------------------------------------------------------------------
# trees: list of (path tuple, None | bytes), parents first
# ------------------------------------------------------------------------------------------------
def small_nodes(depth, names, leaves):
    """all nodes of depth <= `depth`: ('F', bytes) | ('D', {name: node})"""
    if depth == 0:
        return list(leaves)
    sub = small_nodes(depth - 1, names, leaves)
    out = [n for n in leaves if n[0] == "F"]
    opts = [None] + sub
    for combo in itertools.product(opts, repeat=len(names)):
        out.append(("D", {nm: c for nm, c in zip(names, combo) if c is not None}))
    return out


def flatten(node, at):
    """entries of `node` placed at path tuple `at` (the node itself included)"""
    out = []
    if node[0] == "F":
        out.append((tuple(at), node[1]))
    else:
        out.append((tuple(at), None))
        for nm, ch in node[1].items():
            out += flatten(ch, tuple(at) + (nm,))
    return out


def rand_node(rng, depth, fan, force_dir=False):
    names = ["a", "b", "foo", "a b", "x.txt", "sub"]
    if not force_dir and (depth == 0 or rng.random() < 0.35):
        r = rng.random()
        if r < 0.3:
            return ("F", b"")
        if r < 0.9:
            return ("F", bytes(rng.randrange(256) for _ in range(rng.randint(1, 12))))
        return ("F", bytes(rng.randrange(256) for _ in range(rng.randint(3000, 9000))))
    if depth == 0:
        return ("D", {})
    k = rng.randint(0, fan)
    chosen = rng.sample(names, k)
    return ("D", {nm: rand_node(rng, depth - 1, fan) for nm in chosen})


FIXED = [
    # repeated names across levels, empty dirs, empty files
    ("D", {"a": ("D", {"a": ("D", {"a": ("F", b"deep")}), "b": ("F", b"")}), "b": ("D", {})}),
    ("D", {"foo": ("D", {"foo": ("F", b"1"), "empty": ("D", {})}), "x.txt": ("F", b"xyz")}),
    ("D", {"e1": ("D", {"e2": ("D", {"e3": ("D", {})})})}),
    ("D", {"only dirs": ("D", {"in": ("D", {}), "in2": ("D", {"in": ("D", {})})})}),
    ("D", {}),
    ("F", b"single file"),
    ("F", b""),
    ("D", {"a": ("F", b"A"), "b": ("F", b"B")}),
    ("D", {"d": ("D", {"q": ("F", b"same name as dest")}), "q": ("D", {"d": ("F", b"!")})}),
    ("D", {"sub": ("D", {"sub": ("D", {"f": ("F", b"f")}), "f": ("F", b"g")}), "f": ("F", b"h")}),
    ("D", {"big": ("F", bytes(range(256)) * 20), "z": ("D", {"big": ("F", b"\r\n\x00\xff")})}),
    ("D", {"a b": ("D", {"c d": ("F", b"sp")}), "x.y.z": ("D", {})}),
]


def tree_dict(entries):
    return {tuple(p): c for p, c in entries}


def parse_tree_token(tok):
    d = {}
    if tok == "~":
        return d
    for item in tok.split(";"):
        p, v = item.split("=", 1)
        path = tuple("" if x == "-" else "".join(chr(int(c)) for c in x.split(",")) for x in p.split("|"))
        d[path] = None if v == "D" else (b"" if v[1:] in ("-", "") else bytes.fromhex(v[1:]))
    return d


def tree_token(d):
    items = [enc_strs(list(p)) + ("=D" if c is None else "=F" + enc_bytes(c)) for p, c in d.items()]
    return ";".join(sorted(items)) if items else "~"


def walk_parts(cwd_parts, s):
    """independent reading of a path string against a working directory (names below the root)"""
    pos = [] if s.startswith("/") else list(cwd_parts)
    for seg in s.split("/"):
        if seg in ("", "."):
            continue
        if seg == "..":
            if pos:
                pos.pop()
        else:
            pos.append(seg)
    return tuple(pos)


def last_name(s):
    segs = [x for x in s.split("/") if x not in ("", ".")]
    return segs[-1] if segs else ""


# ------------------------------------------------------------------------------------------------
# the documented rule, as Python functions over {path: None|bytes} dictionaries (the oracle)
# ------------------------------------------------------------------------------------------------
def graft(target_tree, at, source_tree, src):
    """copy of target_tree with source_tree's subtree at `src` placed at `at` (parents created)"""
    out = dict(target_tree)
    for i in range(1, len(at)):
        out.setdefault(at[:i], None)
    for p, c in source_tree.items():
        if p[: len(src)] == src and at + p[len(src) :] != ():
            out[at + p[len(src) :]] = c
    return out


def placed(dest, name, wi):
    """the documented destination: `dest` itself with write_into, else `dest/<source name>`"""
    if wi:
        return dest
    return (dest if dest == "" or dest.endswith("/") else dest + "/") + name


def conflict(target_tree, at, source_tree, src):
    """grafting would have to go through a file, or replace a directory by a file or vice versa"""
    for i in range(1, len(at)):
        if target_tree.get(at[:i], None) is not None:
            return True
    for p, c in source_tree.items():
        if p[: len(src)] == src:
            q = at + p[len(src) :]
            if q == () and c is not None:
                return True
            if q in target_tree and (target_tree[q] is None) != (c is None):
                return True
    return False


def spec_upload(remote, local, lcwd, rcwd, source, dest, wi):
    src = walk_parts(lcwd, source)
    return graft(remote, walk_parts(rcwd, placed(dest, src[-1], wi)), local, src)


def spec_download(remote, local, lcwd, rcwd, source, dest, wi):
    src = walk_parts(rcwd, source)
    return graft(local, walk_parts(lcwd, placed(dest, src[-1], wi)), remote, src)


def spec_listing(remote, rcwd, path):
    """multiset (as sorted list) of 'ppath=K' tokens: every descendant once, path = listing root / relative"""
    t = walk_parts(rcwd, path)
    out = []
    for p, c in remote.items():
        if len(p) > len(t) and p[: len(t)] == t:
            full = pathlib.PurePosixPath(path).joinpath(*p[len(t) :])
            out.append(W.canon_ppath(full) + ("=D" if c is None else "=F"))
    return sorted(out)


def spec_remove(remote, rcwd, path):
    t = walk_parts(rcwd, path)
    return {p: c for p, c in remote.items() if p[: len(t)] != t}


# ------------------------------------------------------------------------------------------------
# scenario runner (real client, real server)
# ------------------------------------------------------------------------------------------------
def _mem_state(entries):
    from aioftp.pathio import Node

    root = Node("dir", "/", content=[])
    index = {(): root}
    for path, content in entries:
        parent = index[tuple(path[:-1])]
        if content is None:
            n = Node("dir", path[-1], content=[])
        else:
            n = Node("file", path[-1], content=io.BytesIO(content))
            n.content.seek(0, 2)
        parent.content.append(n)
        index[tuple(path)] = n
    return [root]


def _mem_dump(state):
    items = []

    def walk(node, prefix):
        for ch in node.content:
            p = prefix + [ch.name]
            if ch.type == "dir":
                items.append(enc_strs(p) + "=D")
                walk(ch, p)
            else:
                items.append(enc_strs(p) + "=F" + enc_bytes(bytes(ch.content.getbuffer())))

    walk(state[0], [])
    return ";".join(sorted(items)) if items else "~"


def _disk_dump(base):
    items = []
    for dirpath, dirnames, filenames in os.walk(base):
        rel = os.path.relpath(dirpath, base)
        prefix = [] if rel == "." else rel.split(os.sep)
        for d in dirnames:
            items.append(enc_strs(prefix + [d]) + "=D")
        for fn in filenames:
            with open(os.path.join(dirpath, fn), "rb") as f:
                items.append(enc_strs(prefix + [fn]) + "=F" + enc_bytes(f.read()))
    return ";".join(sorted(items)) if items else "~"


def _status_of(e):
    import aioftp

    if isinstance(e, aioftp.StatusCodeError):
        return "err StatusCodeError:%s" % str(e.received_codes[-1])
    if isinstance(e, aioftp.PathIOError):
        return "err PathIOError"
    if isinstance(e, ValueError):
        return "err ValueError"
    return "err Other:%s" % type(e).__name__


async def _scenario(loop, sc):
    import aioftp

    if sc.get("rbackend") == "memory-short-reads":
        from props import thirdparty

        wd = W.World(loop, [W.UserSpec(None, None)], backend="memory")
        wd.backend_cls = thirdparty.ShortReadIO
    elif sc.get("peer") is not None:
        # the peer is not aioftp: a scripted server with another spelling of replies and listings (harness/foreign.py)
        import foreign

        wd = foreign.ForeignWorld(loop, dict(sc["peer"], mlsd=sc["mlsx"], mlst=sc["mlsx"]))
    else:
        wd = W.World(loop, [W.UserSpec(None, None)], backend=sc["rbackend"])
    seg = sc.get("segment")
    if seg:
        # the network delivers the data in pieces of at most `seg` bytes: a read() returns less than it asked for
        # although more is to come
        wd.net.default_segmenter = lambda direction, b: [b[i : i + seg] for i in range(0, len(b), seg)] or [b]
    await wd.start()
    ltmp = None
    old_cwd = None
    out = []
    try:
        if not sc["mlsx"] and sc.get("peer") is None:
            wd.server.commands_mapping.pop("mlst")
            wd.server.commands_mapping.pop("mlsd")
        wd.set_tree([(tuple(p), None if c is None else bytes.fromhex(c)) for p, c in sc["remote"]])
        lentries = [(tuple(p), None if c is None else bytes.fromhex(c)) for p, c in sc["local"]]
        lcwd = sc["lcwd"]
        if sc["lbackend"] in ("memory", "memory-short-reads"):
            lstate = _mem_state(lentries)
            mem_cls = aioftp.MemoryPathIO
            if sc["lbackend"] == "memory-short-reads":
                # a local store of somebody else's: a read returns fewer bytes than asked before the end of the file
                from props import thirdparty

                mem_cls = thirdparty.ShortReadIO

            def factory(*a, **k):
                return mem_cls(*a, state=lstate, cwd=lcwd, **k)

            def ldump():
                return _mem_dump(lstate)

            def lpath(s):
                return s

        else:
            ltmp = tempfile.mkdtemp(prefix="aioftp-verif-c09-")
            for p, c in lentries:
                full = os.path.join(ltmp, *p)
                if c is None:
                    os.makedirs(full, exist_ok=True)
                else:
                    with open(full, "wb") as f:
                        f.write(c)
            old_cwd = os.getcwd()
            os.chdir(os.path.join(ltmp, *[x for x in lcwd.split("/") if x]))
            factory = aioftp.AsyncPathIO if sc["lbackend"] == "async" else aioftp.PathIO

            def ldump():
                return _disk_dump(ltmp)

            def lpath(s):
                return ltmp + s if s.startswith("/") else s

        client = aioftp.Client(path_io_factory=factory)
        if sc.get("client_past"):
            # the Client object has a past: it was connected to ANOTHER server before (one without MLSD/MLST, whose replies
            # and listings are spelled differently), listed and stat'ed there, and quit.  What it learned there stays there.
            import foreign

            fs = foreign.ForeignServer(wd.net, {"mlsd": False, "mlst": False, "multiline": "mixed", "epsv": False})
            fs.tree = {("old",): None, ("old", "f"): b"x", ("old", "sub"): None}
            await fs.start(2199)
            await client.connect("127.0.0.1", 2199)
            await client.login()
            await client.list("/", recursive=True)
            await client.stat("/old/f")
            await client.change_directory("/old")
            async with client.download_stream("f", offset=1) as st_:
                await st_.read()
            await client.quit()
            await fs.close()
        await client.connect("127.0.0.1", wd.port)
        await client.login()
        if sc["rcwd"] != "/":
            await client.change_directory(sc["rcwd"])
        cur_rcwd = sc["rcwd"]
        for op in sc["ops"]:
            if op.get("rcwd", cur_rcwd) != cur_rcwd:
                # the session moves to another working directory between two operations
                await client.change_directory(op["rcwd"])
                cur_rcwd = op["rcwd"]
            rec = {"pre_remote": wd.tree(), "pre_local": ldump()}
            try:
                if op["op"] == "upload":
                    await client.upload(lpath(op["source"]), op["dest"], write_into=op["wi"], block_size=op.get("bs", 8192))
                elif op["op"] == "download":
                    await client.download(op["source"], lpath(op["dest"]), write_into=op["wi"], block_size=op.get("bs", 8192))
                elif op["op"] == "list":
                    lst = await client.list(op["path"], recursive=op.get("recursive", True))
                    rec["listing"] = sorted(W.canon_ppath(p) + ("=D" if i["type"] == "dir" else "=F" if i["type"] == "file" else "=?" + i["type"]) for p, i in lst)
                elif op["op"] == "remove":
                    await client.remove(op["path"])
                elif op["op"] == "rename":
                    # a step between two operations under test (not judged itself): the tree changes by other means
                    # than the four operations - here through the same client's rename
                    await client.rename(op["source"], op["dest"])
                elif op["op"] == "other-session-remove":
                    other = aioftp.Client(path_io_factory=aioftp.MemoryPathIO)
                    await other.connect("127.0.0.1", wd.port)
                    await other.login()
                    await other.remove(op["path"])
                    await other.quit()
                rec["status"] = "ok"
            except Exception as e:  # noqa
                rec["status"] = _status_of(e)
            await loop.settle()
            rec["post_remote"] = wd.tree()
            rec["post_local"] = ldump()
            out.append(rec)
            if rec["status"] != "ok":
                break  # the control connection may be out of step after a failed transfer
        try:
            client.close()
        except Exception:
            pass
        await loop.settle()
    finally:
        if old_cwd is not None:
            os.chdir(old_cwd)
        if ltmp:
            shutil.rmtree(ltmp, ignore_errors=True)
        try:
            await wd.stop()
        except Exception:
            wd.finish()
    return out


def run_scenario(sc):
    # (a scenario needs about a second; one that never ends - a recursive listing that finds the directory inside
    # itself - is ended by the wall-clock watchdog and reported)
    return simnet.run(_scenario, sc, wall_limit=float(os.environ.get("VERIF_C09_WALL_LIMIT", "15")))


def _worker(sc):
    try:
        return run_scenario(sc)
    except BaseException as e:  # noqa
        return "HARNESS-ERROR %s: %s" % (type(e).__name__, e)


def run_many(scs):
    procs = min(16, os.cpu_count() or 4)
    if len(scs) < 24 or procs <= 1:
        return [_worker(s) for s in scs]
    mp = multiprocessing.get_context("fork")
    with mp.Pool(procs) as pool:
        return pool.map(_worker, scs, chunksize=1)  # (one at a time: scenarios that run into the watchdog sit next to each other)


# ------------------------------------------------------------------------------------------------
# model lines
# ------------------------------------------------------------------------------------------------
def model_line(sc, op, rec):
    sc = dict(sc, rcwd=op.get("rcwd", sc["rcwd"]))
    m = "1" if sc["mlsx"] else "0"
    head = "%s %s %s" % (m, enc_str(sc["rcwd"]), rec["pre_remote"])
    if op["op"] in ("upload", "download"):
        return "ct %s %s %s %s %s %s %d" % (
            op["op"], head, enc_str(sc["lcwd"]), rec["pre_local"], enc_str(op["source"]), enc_str(op["dest"]), 1 if op["wi"] else 0)
    if op["op"] == "list":
        return "ct list %s %s %d" % (head, enc_str(op["path"]), 1 if op.get("recursive", True) else 0)
    return "ct remove %s %s" % (head, enc_str(op["path"]))


def impl_line(op, rec):
    if rec["status"] != "ok":
        return rec["status"]
    if op["op"] == "upload" or op["op"] == "remove":
        return "ok " + rec["post_remote"]
    if op["op"] == "download":
        return "ok " + rec["post_local"]
    return "ok " + (";".join(rec["listing"]) if rec["listing"] else "~")


# ------------------------------------------------------------------------------------------------
# oracle on the implementation's outputs
# ------------------------------------------------------------------------------------------------
def _diff(want, got):
    extra = sorted("/".join(p) for p in got if p not in want)
    missing = sorted("/".join(p) for p in want if p not in got)
    changed = sorted("/".join(p) for p in want if p in got and want[p] != got[p])
    return "missing=%s extra=%s changed=%s" % (missing[:6], extra[:6], changed[:6])


SIG_F20 = "C09:upload-through-dotdot:server-without-mlst"


def oracle_op(sc, op, rec):
    """returns a failure dict or None.  Only scenarios marked valid carry an expectation."""
    if not op.get("valid", True):
        return None
    sc = dict(sc, rcwd=op.get("rcwd", sc["rcwd"]))
    lcwd = [x for x in sc["lcwd"].split("/") if x]
    rcwd = [x for x in sc["rcwd"].split("/") if x]
    pre_r, pre_l = parse_tree_token(rec["pre_remote"]), parse_tree_token(rec["pre_local"])
    if op["op"] == "upload":
        src = walk_parts(lcwd, op["source"])
        if src not in pre_l or conflict(pre_r, walk_parts(rcwd, placed(op["dest"], src[-1], op["wi"])), pre_l, src):
            return None  # outside the rule's domain (nothing to place, or the destination is occupied by the other kind)
    if op["op"] == "download":
        src = walk_parts(rcwd, op["source"])
        if src not in pre_r or src == () or conflict(pre_l, walk_parts(lcwd, placed(op["dest"], src[-1], op["wi"])), pre_r, src):
            return None
    if op["op"] == "list" and walk_parts(rcwd, op["path"]) not in pre_r and walk_parts(rcwd, op["path"]) != ():
        return None
    post_r, post_l = parse_tree_token(rec["post_remote"]), parse_tree_token(rec["post_local"])
    inp = {"scenario": dict(sc, ops=[op])}
    kind = op["op"]
    f5 = None
    if kind == "upload":
        src = walk_parts(lcwd, op["source"])
        if pre_l.get(src, b"") is None:
            # the two shapes of F5: the children land below cwd/<one name> instead of below the destination
            if op["wi"]:
                wrong_root = walk_parts(rcwd, last_name(op["dest"]))
                shape = walk_parts(rcwd, op["dest"]) != wrong_root
                sig_f5 = SIG_F5_WI
            else:
                wrong_root = walk_parts(rcwd, src[-1])
                shape = walk_parts(rcwd, op["dest"]) != tuple(rcwd)
                sig_f5 = SIG_F5_NOWI
            if shape:
                # what F5 does: the destination directory itself is made where documented, every child
                # (with its sub-path) is made below `wrong_root` - or the upload fails if that place is occupied
                base = graft(pre_r, walk_parts(rcwd, placed(op["dest"], src[-1], op["wi"])), {src: None}, src)
                has_children = any(p[: len(src)] == src and p != src for p in pre_l)
                f5 = {
                    "sig": sig_f5,
                    "tree": graft(base, wrong_root, pre_l, src) if has_children else base,
                    "clash": has_children and conflict(base, wrong_root, pre_l, src),
                }
    if rec["status"] != "ok":
        if f5 and f5["clash"] and rec["status"].startswith("err StatusCodeError"):
            return {"input": inp, "what": "upload raised %s: the children were sent to the wrong place (F5), which is occupied" % rec["status"],
                    "signature": f5["sig"]}
        if kind == "upload" and not sc["mlsx"] and ".." in op["dest"].split("/") and rec["status"].startswith("err StatusCodeError:550"):
            # F20 (known finding): make_directory asks exists('..'); without MLST the fallback looks for an entry NAMED '..'
            # in a listing, finds none, and MKD '..' is refused
            return {"input": inp, "what": "upload to %r (through '..') on a server without MLST raised %s" % (op["dest"], rec["status"]), "signature": SIG_F20}
        return {"input": inp, "what": "%s raised %s on a valid request" % (kind, rec["status"]), "signature": "C09:%s-raised" % kind}
    if kind == "upload":
        want = spec_upload(pre_r, pre_l, lcwd, rcwd, op["source"], op["dest"], op["wi"])
        if post_l != pre_l:
            return {"input": inp, "what": "upload changed the local tree: " + _diff(pre_l, post_l), "signature": "C09:upload-local-changed"}
        if post_r != want:
            sig = "C09:upload-misplaced"
            if f5 and not f5["clash"] and post_r == f5["tree"]:
                sig = f5["sig"]
            return {"input": inp, "what": "remote tree after upload is not the graft at the documented destination: " + _diff(want, post_r), "signature": sig}
        return None
    if kind == "download":
        want = spec_download(pre_r, pre_l, lcwd, rcwd, op["source"], op["dest"], op["wi"])
        if post_r != pre_r:
            return {"input": inp, "what": "download changed the remote tree: " + _diff(pre_r, post_r), "signature": "C09:download-remote-changed"}
        if post_l != want:
            return {"input": inp, "what": "local tree after download is not the graft at the documented destination: " + _diff(want, post_l), "signature": "C09:download-misplaced"}
        return None
    if kind == "list":
        want = spec_listing(pre_r, rcwd, op["path"])
        if rec.get("listing") != want:
            got = rec.get("listing") or []
            return {
                "input": inp,
                "what": "recursive listing is not every descendant exactly once: missing=%s extra=%s" % (
                    [x for x in want if x not in got][:5], [x for x in got if x not in want or got.count(x) > want.count(x)][:5]),
                "signature": "C09:list-recursive-wrong",
            }
        if post_r != pre_r:
            return {"input": inp, "what": "list changed the remote tree", "signature": "C09:list-remote-changed"}
        return None
    if kind == "remove":
        want = spec_remove(pre_r, rcwd, op["path"])
        if post_r != want:
            return {"input": inp, "what": "tree after remove is not the tree minus the subtree: " + _diff(want, post_r), "signature": "C09:remove-wrong"}
        return None
    return None


# ------------------------------------------------------------------------------------------------
# generators
# ------------------------------------------------------------------------------------------------
def hexes(entries):
    return [[list(p), None if c is None else c.hex()] for p, c in entries]


def make_scenario(src_node, rem_node, dest, wi, rcwd, mlsx, bs, ldest, lwi, lcwd="/", rbackend="memory", lbackend="memory",
                  src_name="foo", rem_name="t2", abs_source=True, variant=0):
    """the standard four-operation scenario"""
    lroot = ("src",)
    local = [(("src",), None), (("lw",), None), (("lkeep",), b"local keep")] + flatten(src_node, lroot + (src_name,))
    rc = tuple(x for x in rcwd.split("/") if x)
    remote = [(("w",), None), (("keep.txt",), b"k"), (("w", "keep2"), b"k2")]
    rem_at = rc + (rem_name,)
    remote += flatten(rem_node, rem_at)
    source = "/src/" + src_name if abs_source or lcwd != "/" else "src/" + src_name
    rsource = rem_name if variant % 2 == 0 else "/" + "/".join(rem_at)
    # what to list / remove: rotate over the interesting targets
    is_dir = rem_node[0] == "D"
    subdirs = [p for p, c in flatten(rem_node, ()) if c is None and p]
    files = [p for p, c in flatten(rem_node, ()) if c is not None and p]
    list_path = ["", rem_name, "/", "/" + "/".join(rem_at), "."][variant % 5] if is_dir else ["", "/"][variant % 2]
    rm_choices = [rem_name, "/" + "/".join(rem_at)]
    if subdirs:
        rm_choices.append(rem_name + "/" + "/".join(subdirs[variant % len(subdirs)]))
    if files:
        rm_choices.append(rem_name + "/" + "/".join(files[variant % len(files)]))
    rm_path = rm_choices[variant % len(rm_choices)]
    ops = [
        {"op": "upload", "source": source, "dest": dest, "wi": wi, "bs": bs},
        {"op": "list", "path": list_path, "recursive": True},
        {"op": "download", "source": rsource, "dest": ldest, "wi": lwi, "bs": bs},
        {"op": "remove", "path": rm_path},
    ]
    return {
        "mlsx": mlsx, "rcwd": rcwd, "lcwd": lcwd, "rbackend": rbackend, "lbackend": lbackend,
        "remote": hexes(remote), "local": hexes(local), "ops": ops,
    }


def malformed_scenarios():
    """requests outside the rule's domain: only model = implementation is checked (valid=False)"""
    out = []
    base_local = [(("src",), None), (("src", "foo"), None), (("src", "foo", "a"), b"A"), (("src", "f"), b"F")]
    base_remote = [(("w",), None), (("keep.txt",), b"k"), (("t2",), None), (("t2", "x"), b"X"), (("t2", "sub"), None), (("t2", "sub", "y"), b"")]
    ops_list = [
        [{"op": "upload", "source": "/src/missing", "dest": "d", "wi": False}],
        [{"op": "upload", "source": "/src/foo", "dest": "keep.txt/d", "wi": True}],
        [{"op": "upload", "source": "/src/f", "dest": "keep.txt/d", "wi": True}],
        [{"op": "upload", "source": "/src/f", "dest": "t2", "wi": True}],
        [{"op": "upload", "source": "/src/foo", "dest": "t2", "wi": True, "valid": True}],      # merge into an existing directory
        [{"op": "upload", "source": "/src/f", "dest": "t2/x", "wi": True, "valid": True}],      # overwrite a file
        [{"op": "upload", "source": "/src/foo", "dest": "keep.txt", "wi": True}],
        [{"op": "list", "path": "keep.txt"}],
        [{"op": "list", "path": "missing"}],
        [{"op": "list", "path": "t2", "recursive": False}],
        [{"op": "list", "path": "t2/../t2/sub"}],
        [{"op": "remove", "path": "missing", "valid": True}],
        [{"op": "remove", "path": "missing/deeper", "valid": True}],
        [{"op": "remove", "path": "keep.txt/x", "valid": True}],
        [{"op": "download", "source": "missing", "dest": "", "wi": False}],
        [{"op": "download", "source": "t2", "dest": "src/f/x", "wi": True}],
        [{"op": "download", "source": "t2", "dest": "src/foo", "wi": True, "valid": True}],     # merge into an existing local directory
        [{"op": "download", "source": "t2/x", "dest": "src/foo", "wi": True}],
        [{"op": "download", "source": "t2/x", "dest": "src/f", "wi": True, "valid": True}],     # overwrite a local file
        [{"op": "remove", "path": "t2"}, {"op": "remove", "path": "t2"}, {"op": "list", "path": ""}],
    ]
    for mlsx in (True, False):
        for rcwd in ("/",):
            for ops in ops_list:
                ops = [dict(o) for o in ops]
                for o in ops:
                    o.setdefault("valid", False)
                out.append({"mlsx": mlsx, "rcwd": rcwd, "lcwd": "/", "rbackend": "memory", "lbackend": "memory",
                            "remote": hexes(base_remote), "local": hexes(base_local), "ops": ops, "malformed": True})
    return out


FOREIGN_PEERS = [
    ({"dots": True}, (True, False)),
    ({"old_date": "one-blank"}, (False,)),
    ({"list_style": "windows"}, (False,)),
    ({"multiline": "mixed"}, (True, False)),
    ({"multiline": "hyph", "epsv": False, "refusal": "500"}, (True, False)),
    ({"multiline": "digits", "dots": True, "old_date": "one-blank", "refusal": "504"}, (True, False)),
]


def gen_scenarios(ctx, search=False):
    rng = ctx.rng
    scs = []
    combos = [(d, wi, cwd, m) for d in DESTS for wi in (False, True) for cwd in ("/", "/w") for m in (True, False)]
    leaves = [("F", b""), ("F", b"x"), ("D", {})]
    small = [n for n in small_nodes(2, ["a", "b"], leaves)]
    small_dirs = [n for n in small if n[0] == "D"]
    n = 0
    # (1) every small tree, placement combination rotating (thorough: every combination)
    reps = ctx.pick(1, 8) if not search else 3
    for i, node in enumerate(small_dirs):
        if not ctx.thorough() and not search and (i + ctx.seed) % 2:
            continue  # quick tier: every other small tree, the parity chosen by the seed
        for k in range(reps):
            d, wi, cwd, m = combos[(i * 5 + k * 7 + (ctx.seed if k == 0 else 0)) % len(combos)] if reps < len(combos) else combos[k]
            ld, lwi = DESTS[(i + k) % 4], bool((i + k) % 2)
            rem = small[(i * 3 + k) % len(small)]
            scs.append(make_scenario(node, rem, d, wi, cwd, m, BLOCKS[n % 3], ld, lwi, variant=n))
            n += 1
    # (2) fixed depth-3 trees under all 32 combinations
    for j, node in enumerate(FIXED):
        for k, (d, wi, cwd, m) in enumerate(combos):
            rem = FIXED[(j + k) % len(FIXED)]
            scs.append(make_scenario(node, rem, d, wi, cwd, m, BLOCKS[n % 3], DESTS[(k // 2) % 4], bool(k % 2), variant=n,
                                     lcwd="/lw" if (j + k) % 3 == 0 else "/"))
            n += 1
    # (3) random trees, extra destinations, backends
    fan = ctx.pick(2, 3)
    for _ in range(ctx.pick(200, 7000) * (2 if search else 1)):
        node = rand_node(rng, 3, fan, force_dir=rng.random() < 0.8)
        rem = rand_node(rng, 3, fan, force_dir=rng.random() < 0.8)
        d = rng.choice(DESTS + EXTRA_DESTS)
        ld = rng.choice(DESTS + ["lw/z", "/lw", "."])
        r = rng.random()
        rb, lb = ("memory", "memory") if r < 0.7 else ("pathio", "memory") if r < 0.8 else ("memory", "pathio") if r < 0.9 else ("pathio", "pathio")
        scs.append(make_scenario(node, rem, d, rng.random() < 0.5, rng.choice(["/", "/w"]), rng.random() < 0.5, rng.choice(BLOCKS), ld,
                                 rng.random() < 0.5, lcwd=rng.choice(["/", "/lw"]), rbackend=rb, lbackend=lb,
                                 src_name=rng.choice(["foo", "a", "q", "d2", "s p"]), rem_name=rng.choice(["t2", "r r", "rem"]),
                                 abs_source=rng.random() < 0.7, variant=rng.randrange(1000)))
    # (3b) files of several blocks over a network that delivers less than a block at a time
    big = ("D", {"big1": ("F", bytes(range(256)) * 37), "d": ("D", {"big2": ("F", bytes((i * 7) % 251 for i in range(20001))), "small": ("F", b"s")}), "empty": ("F", b"")})
    for seg in (1000, 8191, 1):
        for bs in ((8192, 3) if seg != 1 else (3,)):
            for m in (True, False):
                sc = make_scenario(big if seg != 1 else FIXED[1], big if seg != 1 else FIXED[1], "d", True, "/", m, bs, "", False, variant=n - n % 10)
                sc["segment"] = seg
                scs.append(sc)
                n += 1
    # (4) ONE session, the same relative destination used from two working directories (and again after a remove)
    for j, node in enumerate(FIXED[:6] + small_dirs[:6]):
        for d, wi in (("d", True), ("", False), ("d", False), ("d1/d2", True)):
            for m in (True, False):
                sc = make_scenario(node, FIXED[j % len(FIXED)], d, wi, "/", m, BLOCKS[n % 3], "", False, variant=n)
                up = sc["ops"][0]
                sc["remote"] = sc["remote"] + hexes([(("w2",), None)])
                sc["ops"] = [dict(up), dict(up, rcwd="/w"), dict(up, rcwd="/w2"), {"op": "list", "path": "", "recursive": True, "rcwd": "/w2"},
                             {"op": "remove", "path": (d.split("/")[0] if d else "foo"), "rcwd": "/w"}, dict(up, rcwd="/w")]
                scs.append(sc)
                n += 1
    # (5) ONE session: upload, the destination directory goes away by OTHER means (rename, another session), upload again
    for j, node in enumerate(FIXED[:4] + small_dirs[:4]):
        for d, wi in (("d", True), ("d1/d2", True), ("d", False)):
            for m in (True, False):
                sc = make_scenario(node, FIXED[j % len(FIXED)], d, wi, "/", m, BLOCKS[n % 3], "", False, variant=n)
                up = sc["ops"][0]
                top = d.split("/")[0]
                sc["ops"] = [dict(up), {"op": "rename", "source": top, "dest": "moved-away"}, dict(up),
                             {"op": "other-session-remove", "path": top}, dict(up), {"op": "list", "path": "", "recursive": True}]
                scs.append(sc)
                n += 1
    # (6) names that are awkward for the line formats but perfectly legal (C08's alphabet, without leading/trailing
    #     whitespace): as a file, as a directory with children, and as the TOP name addressed relative to the working
    #     directory - on the MLSD server and on the LIST-only server
    for j, nm in enumerate(AWKWARD_NAMES + LEADING_BLANK_NAMES):
        inner = ("D", {nm: ("F", b"in " + nm.encode("utf-8")), "plain": ("D", {nm: ("D", {"deep": ("F", b"d")})}), "e": ("D", {})})
        if nm in LEADING_BLANK_NAMES:
            # ... with the twin name without the blank beside it: two different entries
            inner[1][nm.lstrip()] = ("F", b"twin")
        top = ("D", {"x": ("F", b"x"), "sub": ("D", {"y": ("F", b"y")}), "e": ("D", {})})
        for k, (node, src_name, rem_name) in enumerate(((inner, "foo", "t2"), (top, nm, nm))):
            if nm in LEADING_BLANK_NAMES and k == 1:
                continue  # (a command line cannot START its argument with a blank: such a name is only reachable below another)
            # names that start with white space are carried by MLSD only (the LIST format cannot: known finding of C08)
            for m in ((True,) if nm in LEADING_BLANK_NAMES else (True, False)):
                for wi in (True, False):
                    v = n
                    scs.append(make_scenario(node, node, ["", "d"][(j + k) % 2] if wi else "", wi, "/", m, BLOCKS[n % 3], "", bool(k), src_name=src_name,
                                             rem_name=rem_name, abs_source=True, variant=v - v % 10))  # variant % 2 == 0: relative remote source
                    if nm in LEADING_BLANK_NAMES or (j % 4 == 0 and m):
                        # ... and once more with a Client object that was connected to another server before
                        scs.append(dict(scs[-1], client_past=True))
                    n += 1
    # (7) a tree addressed THROUGH `..` from a working directory that is not its parent: list, download, remove, upload
    for j, node in enumerate(FIXED[:5] + small_dirs[:3]):
        for m in (True, False):
            sc = make_scenario(node, node, "../up", True, "/", m, BLOCKS[n % 3], "", False, variant=n - n % 10)
            up = sc["ops"][0]
            sc["remote"] = sc["remote"] + hexes([(("w", "deep"), None)])
            sc["ops"] = [dict(up, rcwd="/w"), {"op": "list", "path": "../t2", "recursive": True, "rcwd": "/w"}, {"op": "list", "path": "../../t2", "recursive": True, "rcwd": "/w/deep"},
                         {"op": "download", "source": "../t2", "dest": "", "wi": False, "bs": BLOCKS[n % 3], "rcwd": "/w"},
                         {"op": "list", "path": "..", "recursive": True, "rcwd": "/w"}, {"op": "remove", "path": "../t2", "rcwd": "/w"},
                         {"op": "list", "path": "/", "recursive": True, "rcwd": "/w"}]
            scs.append(sc)
            n += 1
    # (8) every pairing of the shipped backends on either side, on trees with names that start with a dot (and other
    #     names a file-name pattern treats specially): entries like any other, on any backend
    dotted = ("D", {".hidden": ("F", b"h"), ".cfg": ("D", {"x": ("F", b"1"), ".deep": ("D", {})}), "plain": ("D", {".keep": ("F", b""), "[1]": ("F", b"b")}), "~t": ("D", {}), "*": ("F", b"s")})
    for rb, lb in (("memory", "memory"), ("pathio", "pathio"), ("async", "memory"), ("memory", "async"), ("async", "async"), ("pathio", "async")):
        for m in (True, False):
            scs.append(make_scenario(dotted, dotted, "d", True, "/", m, BLOCKS[n % 3], "", False, variant=n - n % 10, rbackend=rb, lbackend=lb))
            n += 1
    # (9) the peer is NOT aioftp: the same four operations against a scripted server that spells its replies and
    #     listings the way other servers do - MLSD with the `cdir`/`pdir` entries, `ls -la` with the '.' and '..' lines,
    #     the one-blank date of old entries ("Jan 03 2018"), the IIS `dir` format, multi-line replies of every legal
    #     shape, PASV only.  The truth is the scripted server's own tree.
    same = ("D", {"x": ("D", {"x": ("D", {}), "f": ("F", b"xf")}), "e": ("D", {}), "1": ("F", b"one"), "dd": ("D", {"dd": ("D", {"dd": ("F", b"3")})})})
    for pj, (peer, ms) in enumerate(FOREIGN_PEERS):
        for j, node in enumerate([same] + FIXED[:3] + small_dirs[:2]):
            for m in ms:
                for d, wi in ((("d", True), ("", False)) if j else (("d", True), ("", False), ("x", True), ("d1/d2", False))):
                    sc = make_scenario(node, node, d, wi, ["/", "/w"][(pj + j) % 2], m, BLOCKS[n % 3], "", False, variant=n - n % 10 + 2 * (j % 5))
                    sc["peer"] = peer
                    scs.append(sc)
                    n += 1
    # (10) stores of somebody else's on either side: reads shorter than asked before the end of the file
    bigf = ("D", {"big1": ("F", bytes(range(256)) * 5), "d": ("D", {"small": ("F", b"s"), "e": ("F", b"")})})
    for rb, lb in (("memory", "memory-short-reads"), ("memory-short-reads", "memory"), ("memory-short-reads", "memory-short-reads")):
        for bs in (8192, 3, 1):
            for m in (True, False):
                scs.append(make_scenario(bigf, bigf, "d", True, "/", m, bs, "", False, variant=n - n % 10, rbackend=rb, lbackend=lb))
                n += 1
    # destination collisions that must merge / not collide: dest 'd' while the source contains 'd', etc. are in FIXED
    if not search:
        scs += malformed_scenarios()
    return scs


# ------------------------------------------------------------------------------------------------
# framework interface
# ------------------------------------------------------------------------------------------------
def _classify(sc, res):
    up = sc["ops"][0]
    if sc.get("malformed"):
        res.count("class=malformed")
        return
    res.count("dest=%s" % (up.get("dest") if up.get("dest") in DESTS else "other"))
    res.count("write_into=%s" % up.get("wi"))
    res.count("cwd=%s" % sc["rcwd"])
    res.count("server=%s" % ("mlsd" if sc["mlsx"] else "list-fallback"))
    res.count("backends=%s/%s" % (sc["rbackend"], sc["lbackend"]))
    res.count("client=%s" % ("used-before-on-another-server" if sc.get("client_past") else "fresh"))
    res.count("peer=%s" % ("aioftp" if sc.get("peer") is None else "foreign:" + ",".join("%s=%s" % kv for kv in sorted(sc["peer"].items()))))
    res.count("block=%s" % up.get("bs"))
    n_src = sum(1 for p, c in sc["local"] if p[:1] == ["src"]) - 1
    res.count("source_entries=%s" % (n_src if n_src < 8 else "8+"))
    depth = max(len(p) for p, c in sc["local"]) - 2
    res.count("source_depth=%d" % depth)
    if any(c is None and not any(q[: len(p)] == p and q != p for q, _ in sc["local"]) for p, c in sc["local"] if p[:1] == ["src"]):
        res.count("has_empty_dir")
    if any(c == "" for p, c in sc["local"]):
        res.count("has_empty_file")


def _run(ctx, scs, compare=True):
    res = Result()
    outs = run_many(scs)
    lines, where = [], []
    for sc, recs in zip(scs, outs):
        res.cases += 1
        if isinstance(recs, str) and recs.startswith("HARNESS-ERROR WallClockExceeded") and not sc.get("malformed"):
            res.oracle_failures.append({"input": {"scenario": sc}, "what": "the operations of this scenario never came to an end (%s)" % recs, "signature": "C09:operation-never-ends"})
            continue
        if isinstance(recs, str):
            res.disagreements.append({"correspondence": "harness", "input": sc["ops"], "impl": recs, "model": None})
            continue
        _classify(sc, res)
        up = sc["ops"][0]
        if not sc.get("malformed") and (up["dest"] not in ("", "d") or sc["rcwd"] != "/" or not sc["mlsx"]):
            res.distinct.add((str(sc["local"]), up["dest"], up["wi"], sc["rcwd"], sc["mlsx"]))
        for op, rec in zip(sc["ops"], recs):
            res.count("op=%s:%s" % (op["op"], rec["status"].split(":")[0]))
            if op["op"] in ("rename", "other-session-remove"):
                continue  # steps between the operations under test
            f = oracle_op(sc, op, rec)
            if f:
                res.oracle_failures.append(f)
            if compare and sc.get("peer") is None and "short" not in sc["rbackend"] + sc["lbackend"]:  # (the model's other half is aioftp's server)
                lines.append(model_line(sc, op, rec))
                where.append((sc, op, rec))
    if compare and ctx.model_ok and lines:
        mout = drive(lines, shards=8)
        res.lines += len(lines)
        for (sc, op, rec), mo in zip(where, mout):
            want = impl_line(op, rec)
            if want != mo:
                if len(res.disagreements) < 12:
                    res.disagreements.append({
                        "correspondence": "Model.ClientTree.%s vs aioftp.Client.%s" % (op["op"], op["op"]),
                        "input": {"scenario": dict(sc, ops=[op]), "pre_remote": rec["pre_remote"], "pre_local": rec["pre_local"]},
                        "impl": want[:600], "model": mo[:600]})
                else:
                    res.count("more_disagreements")
    for sc in scs[:: max(1, len(scs) // 4)][:4]:
        res.samples.append({"ops": sc["ops"], "rcwd": sc["rcwd"], "mlsx": sc["mlsx"], "local": [p for p, c in sc["local"]][:12]})
    return res


def correspondence(ctx):
    return _run(ctx, gen_scenarios(ctx))


def search(ctx, prior):
    scs = []
    for d in prior.disagreements:
        i = d.get("input")
        if isinstance(i, dict) and "scenario" in i:
            scs.append(i["scenario"])
    scs += gen_scenarios(ctx, search=True)
    return _run(ctx, scs, compare=False)


def _replay_failures(sc):
    try:
        recs = run_scenario(sc)
    except simnet.WallClockExceeded as e:
        return [], [{"signature": "C09:operation-never-ends", "what": "the operations of this scenario never came to an end (%s)" % e}]
    fails = []
    for op, rec in zip(sc["ops"], recs):
        f = oracle_op(sc, op, rec)
        if f:
            fails.append(f)
    return recs, fails


def replay(ctx, doc):
    sc = doc["failure"]["input"]["scenario"]
    recs, fails = _replay_failures(sc)
    for op, rec in zip(sc["ops"], recs):
        print(op, "->", rec["status"])
        print("  remote:", sorted("/".join(p) for p in parse_tree_token(rec["post_remote"])))
        print("  local: ", sorted("/".join(p) for p in parse_tree_token(rec["post_local"])))
    for f in fails:
        print(f["signature"], f["what"])
    return bool(fails)


def probe_known(ctx, finding):
    sc = finding["replay"]["scenario"]
    recs, fails = _replay_failures(sc)
    return any(f["signature"] == finding["signature"] for f in fails)


# somebody else's machine: the same small sessions in other environments, in child processes (props/envs.py)
from props import envs as _envs  # noqa: E402

correspondence, search, replay = _envs.attach(PID, correspondence, search, replay)
