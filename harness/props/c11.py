"""C11  the passive data-port pool neither loses nor duplicates ports.

The real `aioftp.Server` runs on the simulated network with `data_ports=[...]`; scenarios are event lists over
up to four sessions (connect, PASV/EPSV first and repeated, data connection, transfers, other commands, QUIT,
orderly close, reset, `server.close()`, a foreign process binding/unbinding a port), with per-port fault lists
(EADDRINUSE / EACCES consumed per attempt) and with `start_server` calls held at a gate so that a cut can land
*inside* the awaited listener start-up.  Every base scenario is also run cut short at every event index.

At every quiescent point
  * the real queue `sorted(server.available_data_ports._queue)`, the port recorded by every live connection
    whose `passive_server` future is done, the sessions suspended at a gate, the reply class and the ports
    whose start-up was cancelled are compared with `Model.PortPool.step` (Lean driver component `pool`);
    the model is fed the events plus the *environment's* answer to each `start_server` call;
  * the oracle states the property on the implementation alone: pool (+) held (+) in-flight = configured as
    multisets, 421 exactly on exhaustion, the port announced = recorded = bound, full pool when all are gone.
"""
import asyncio
import collections
import errno
import json
import multiprocessing
import os
import re
import socket

import simnet
import world as W
from framework import Result, drive

PID = "C11"
RULE = (
    "scenarios = data_ports of size 0..4 (incl. duplicated entries) x per-port fault lists (EADDRINUSE / EACCES at "
    "chosen attempts, every subset in the systematic family) x event histories over <= 4 sessions (PASV/EPSV first "
    "and repeated, data connection, LIST/RETR/STOR, other commands also pipelined behind a suspended PASV, QUIT, "
    "close, reset, server.close(), foreign bind/unbind) with start_server calls held at a gate; every base "
    "scenario is additionally cut (reset / close / pipelined QUIT of the active session, server.close()) at every "
    "event index, including while a start-up is held at the gate; non-trivial = a port fault, a gate, a cut or "
    "an exhaustion occurs; distinct = distinct scenarios"
)
EXPLANATION = (
    "pool_accounting / no_duplication (Properties/C11.lean) hold for all histories of the model; conservation "
    "itself was false on the pinned tree (finding F8, repaired in /repo eb5160b; port_lost_without_cancel_clause keeps the witness) and is now proved for ALL histories incl. a "
    "cancellation inside the start-up.  This run ties Model.PortPool.step to the live server (queue contents with "
    "priorities, session phases, replies, losses) and evaluates the multiset oracle on the implementation alone."
)
ASSUMPTIONS = [
    "a second PASV/EPSV pipelined behind one whose start-up is HELD AT A GATE is not generated (other commands are); "
    "two passive commands in one segment with no gate are (event pasv2)",
    "in-memory network stands in for sockets: a cancelled start_server leaves nothing bound (on real sockets the "
    "half-made listener leaks as well)",
    "AF_INET server (PASV's 503 'ipv6 mode' exit after a successful start-up is not exercised); EPSV without "
    "argument",
    "PriorityQueue is observed through its private heap list `_queue`; equal tuples are indistinguishable",
]
GENERATED_OBLIGATIONS = [
    "noAvailablePortIsOSError (issubclass(errors.NoAvailablePort, OSError)) = true",
    "cancelledIsOSError (issubclass(asyncio.CancelledError, OSError)) = false",
    "passiveCancelReturnsPort (the try around start_server has a clause for the cancellation that puts the port back) = true",
    "passiveStartLocked (PASV and EPSV test, start and record the listener inside `async with connection.<lock>`) = true",
]
EXTRA_LEAN_TARGETS = ["AioftpModel.Driver.PortPool", "AioftpModel.Driver.Session", "AioftpModel.Model.Paths"]

SIG_F8 = "C11:port-lost-on-cancel-in-start-server"
SIG_PREMATURE = "C11:421-without-trying-every-port"

ERR = {"EADDRINUSE": errno.EADDRINUSE, "EACCES": errno.EACCES, "EADDRNOTAVAIL": errno.EADDRNOTAVAIL, None: None}
PORTS = [5000, 5001, 5002, 5003]
FILE = b"0123456789"


# ------------------------------------------------------------------------------------------------
# running one scenario on the real server
# ------------------------------------------------------------------------------------------------
class Sess:
    def __init__(self, sid, raw):
        self.sid = sid
        self.raw = raw
        self.mask = []
        self.attempt = 0
        self.recs = []  # start_server records of the current PASV/EPSV command
        self.pending = None  # record held at a gate


class Env:
    """the environment's own log of start_server calls: (session, port, outcome)"""

    def __init__(self, wd):
        self.wd = wd
        self.log = []
        self.current = None
        self.orig = wd.net.start_server
        wd.net.start_server = self.start_server

    async def start_server(self, cb, host=None, port=None, **kw):
        sess = self.current
        rec = {"sid": None if sess is None else sess.sid, "port": port, "outcome": None, "gate": None}
        if sess is not None:
            k = sess.attempt
            sess.attempt += 1
            if k < len(sess.mask) and sess.mask[k]:
                g = simnet.Gate(self.wd.loop)
                self.wd.net.start_gates.append(g)
                rec["gate"] = g
                sess.pending = rec
            sess.recs.append(rec)
        self.log.append(rec)
        try:
            srv = await self.orig(cb, host, port, **kw)
        except asyncio.CancelledError:
            rec["outcome"] = "cancelled"
            raise
        except OSError as e:
            rec["outcome"] = errno.errorcode.get(e.errno, str(e.errno))
            raise
        finally:
            if sess is not None and sess.pending is rec:
                sess.pending = None
        rec["outcome"] = "ok"
        return srv


def _outcome_token(o):
    return {"ok": "ok", "EADDRINUSE": "busy"}.get(o, "other")


def _reply_class(new):
    for code, lines in new:
        text = " ".join(lines)
        if code in ("227", "229"):
            return "already" if "already exists" in text else "created"
        if code == "421":
            return "421"
    return "none"


def _announced_port(new):
    for code, lines in new:
        text = " ".join(lines)
        if code == "227":
            m = re.search(r"\((\d+),(\d+),(\d+),(\d+),(\d+),(\d+)\)", text)
            if m:
                return int(m.group(5)) * 256 + int(m.group(6))
        if code == "229":
            m = re.search(r"\(\|\|\|(\d+)\|\)", text)
            if m:
                return int(m.group(1))
    return None


async def _run_scenario(loop, scn):
    ports = list(scn["ports"])
    wd = W.World(loop, [W.UserSpec(None, None)], server_kwargs={"data_ports": list(ports), "wait_future_timeout": 0.05})
    for p, fl in (scn.get("faults") or {}).items():
        wd.net.port_faults[int(p)] = [ERR[x] for x in fl]
    await wd.start()
    env = Env(wd)
    wd.set_tree([(("f.txt",), FILE)])
    sessions = []
    foreign = {}
    obs = []
    closed = False
    cfg = collections.Counter(ports)

    def alive(s):
        return wd.connection_of(s.raw) is not None

    def at_gate(s):
        return s.pending is not None and s.pending["outcome"] is None and s.pending["gate"].arrived.done()

    def observe(idx, ev, model_lines, reply, n_log0, cmd_info=None):
        q = wd.server.available_data_ports
        pool = sorted(q._queue) if q is not None else None
        phases = []
        held = collections.Counter()
        inflight = collections.Counter()
        fails = []
        for s in sessions:
            conn = None if closed else wd.connection_of(s.raw)
            if conn is None:
                phases.append("g")
                continue
            ok, ps = wd._get(conn, "passive_server")
            if ok:
                rec_port = conn.passive_server_port
                phases.append("l%d" % rec_port)
                held[rec_port] += 1
                socks = list(ps.sockets)
                bound = socks[0].getsockname()[1] if socks else None
                if bound != rec_port:
                    fails.append(("C11:recorded-port-differs-from-bound-port", "session %d listens on %r but connection.passive_server_port is %r" % (s.sid, bound, rec_port)))
                elif wd.net.listeners.get(rec_port) is not ps:
                    fails.append(("C11:held-port-not-bound", "session %d holds port %r but its listener is not the one bound" % (s.sid, rec_port)))
            elif at_gate(s):
                phases.append("s%d" % s.pending["port"])
                inflight[s.pending["port"]] += 1
            else:
                phases.append("i")
        # start-ups whose cancellation the environment saw during this event
        fresh = [r for r in env.log if r["outcome"] == "cancelled" and not r.get("reported")]
        for r in fresh:
            r["reported"] = True
        cut_ports = sorted(r["port"] for r in fresh)
        losses = []
        cancelled = collections.Counter(r["port"] for r in env.log if r["outcome"] == "cancelled")
        # ---- the property, on the implementation's state alone ----
        if pool is not None:
            total = collections.Counter(p for _, p in pool) + held + inflight
            missing = cfg - total
            surplus = total - cfg
            # a start-up cut during this event LOST its port iff the port is not back (pool, held or in flight)
            short = collections.Counter(missing)
            for p_ in cut_ports:
                if short[p_] > 0:
                    short[p_] -= 1
                    losses.append(p_)
            if surplus:
                fails.append(("C11:port-duplicated-or-foreign", "pool %r + held %r + starting %r has %r more than configured %r" % (pool, dict(held), dict(inflight), dict(surplus), ports)))
            elif missing:
                if missing == cancelled:
                    fails.append((SIG_F8, "port(s) %r gone from pool %r + held %r: exactly the start-ups cancelled inside start_server" % (sorted(missing.elements()), pool, dict(held))))
                else:
                    fails.append(("C11:port-lost", "port(s) %r missing: pool %r + held %r + starting %r, configured %r, cancelled start-ups %r" % (sorted(missing.elements()), pool, dict(held), dict(inflight), ports, dict(cancelled))))
            for p in set(x for _, x in pool):
                lst = wd.net.listeners.get(p)
                if cfg[p] == 1 and lst is not None and p not in foreign:
                    fails.append(("C11:port-available-and-bound", "port %r is in the pool and bound at the same time" % p))
        if cmd_info is not None:
            fails += cmd_info
        obs.append(
            {
                "idx": idx,
                "ev": ev,
                "model": model_lines,
                "reply": reply,
                "losses": losses,
                "cuts": cut_ports,
                "pool": pool,
                "phases": phases,
                "fails": [{"signature": a, "what": b, "at": idx} for a, b in fails],
            }
        )

    def pasv_oracle(s, new, pool_before, was_alive_after):
        """clauses about one finished PASV/EPSV command (not at a gate any more)"""
        out = []
        done = [r for r in s.recs if r["outcome"] is not None]
        cls = _reply_class(new)
        tried = [r["port"] for r in s.recs]
        if len(set(tried)) != len(tried):
            out.append(("C11:port-attempted-twice", "one start-up tried %r" % tried))
        if cls == "created":
            ann = _announced_port(new)
            conn = wd.connection_of(s.raw)
            rec_port = conn.passive_server_port if conn is not None else None
            if not done or done[-1]["outcome"] != "ok" or ann != done[-1]["port"] or (conn is not None and rec_port != ann) or cfg[ann] == 0:
                out.append(("C11:announced-port-mismatch", "announced %r, last attempt %r, recorded %r, configured %r" % (ann, done[-1:] and (done[-1]["port"], done[-1]["outcome"]), rec_port, ports)))
        elif cls == "421":
            if any(r["outcome"] != "EADDRINUSE" for r in done):
                out.append(("C11:421-without-exhaustion", "421 although attempts ended %r" % [(r["port"], r["outcome"]) for r in done]))
            if was_alive_after:
                out.append(("C11:421-session-kept", "421 'no free ports' but the session goes on"))
            untried = sorted(set(p for _, p in pool_before) - set(tried))
            if untried:
                level = len(set(pr for pr, _ in pool_before)) <= 1 and len(set(p for _, p in pool_before)) == len(pool_before)
                undisturbed = not any(r["gate"] is not None for r in s.recs)
                # from a level pool of distinct ports, with nobody else touching the queue meanwhile, the search does
                # reach every port (exhaustion_tries_every_port_partial); otherwise it is the known premature 421
                sig = "C11:421-from-level-pool-without-trying-every-port" if (level and undisturbed) else SIG_PREMATURE
                out.append((sig, "421 after trying %r only; pool before the command was %r, port(s) %r never tried" % (tried, pool_before, untried)))
        elif cls == "none":
            last = done[-1]["outcome"] if done else None
            if last in (None, "ok", "EADDRINUSE") or was_alive_after:
                out.append(("C11:pasv-no-reply", "no reply to PASV/EPSV; attempts %r; session alive=%r" % ([(r["port"], r["outcome"]) for r in done], was_alive_after)))
        return out

    def started_lines(s, recs):
        return ["pool ev started %d %s" % (s.sid, _outcome_token(r["outcome"])) for r in recs if r["outcome"] not in (None, "cancelled")]

    try:
        observe(-1, ["init"], ["pool init %s" % (",".join(map(str, ports)) or "~")], "none", 0)
        for idx, ev in enumerate(scn["events"]):
            kind = ev[0]
            n_log0 = len(env.log)
            if closed:
                break
            if kind == "connect":
                if len(sessions) >= 6:
                    continue
                raw = await wd.raw_client()
                s = Sess(len(sessions), raw)
                sessions.append(s)
                raw.send("USER anonymous")
                await loop.settle()
                observe(idx, ev, ["pool ev connect"], "none", n_log0)
                continue
            if kind == "server_close":
                await wd.server.close()
                await loop.settle()
                closed = True
                observe(idx, ev, ["pool ev finish %d" % s.sid for s in sessions], "none", n_log0)
                continue
            if kind in ("bind", "unbind"):
                port = ev[1]
                if kind == "bind" and port not in wd.net.listeners:
                    # a foreign process binds the port (not through the fault list, not through a gate)
                    srv = simnet.MemServer(wd.net, None, wd.net.host, port, wd.net.family)
                    wd.net.listeners[port] = srv
                    wd.net.open_listeners.add(srv)
                    foreign[port] = srv
                elif kind == "unbind" and port in foreign:
                    foreign.pop(port).close()
                await loop.settle()
                observe(idx, ev, [], "none", n_log0)
                continue
            sid = ev[1]
            if sid >= len(sessions):
                continue
            s = sessions[sid]
            if not alive(s):
                continue  # nothing can be delivered to a session that is gone
            gated = at_gate(s)
            n_rep0 = len(s.raw.replies)
            pool_before = sorted(wd.server.available_data_ports._queue) if wd.server.available_data_ports is not None else []
            if kind == "pasv":
                if gated:
                    continue  # a second PASV/EPSV behind a suspended one: outside the sequential assumption
                W.drop_stale_data(s.raw)
                s.mask = list(ev[3]) if len(ev) > 3 else []
                s.attempt = 0
                s.recs = []
                s.pool_before = pool_before
                env.current = s
                s.raw.send(ev[2])
                await loop.settle()
                env.current = None
                new = s.raw.replies[n_rep0:]
                lines = ["pool ev pasv %d" % sid] + started_lines(s, s.recs)
                info = None if at_gate(s) else pasv_oracle(s, new, s.pool_before, alive(s))
                cls = _reply_class(new)
                if cls == "none" and not at_gate(s) and not alive(s):
                    cls = "crashed"
                observe(idx, ev, lines, cls, n_log0, info)
            elif kind == "pasv2":
                # two passive commands in ONE segment (pipelined): the second is handled while the first may still be
                # starting its listener; the pair must come out as the two commands one after the other
                if gated:
                    continue
                W.drop_stale_data(s.raw)
                s.mask = []
                s.attempt = 0
                s.recs = []
                s.pool_before = pool_before
                env.current = s
                s.raw.send_raw("".join(c + "\r\n" for c in ev[2:]).encode())
                await loop.settle()
                env.current = None
                new = s.raw.replies[n_rep0:]
                lines = ["pool ev pasv %d" % sid] + started_lines(s, s.recs) + ["pool ev pasv %d" % sid] * (len(ev) - 3)
                passive = [x for x in new if x[0] in ("227", "229", "421")]
                cls = _reply_class(passive[-1:])
                info = []
                if [r["outcome"] for r in s.recs].count("ok") > 1:
                    info.append(("C11:pipelined-passive-commands-start-two-listeners", "%s in one segment started listeners on %r for one session" % (" and ".join(ev[2:]), [r["port"] for r in s.recs if r["outcome"] == "ok"])))
                if cls == "none" and not alive(s):
                    cls = "crashed"
                observe(idx, ev, lines, cls, n_log0, info)
                if _reply_class(passive[:1]) != "created":
                    # the first command ended the session (421 / error) while the second was already running beside the
                    # teardown: how far its own search got before it was cancelled is timing, not pool logic - the
                    # multiset oracle goes on, the lock-step comparison with the sequential model stops here
                    obs[-1]["desync"] = True
            elif kind == "open":
                if not gated:
                    continue
                rec = s.pending
                k0 = s.recs.index(rec)
                env.current = s
                rec["gate"].open()
                await loop.settle()
                env.current = None
                new = s.raw.replies[n_rep0:]
                lines = started_lines(s, s.recs[k0:])
                info = None if at_gate(s) else pasv_oracle(s, new, s.pool_before, alive(s))
                cls = _reply_class(new)
                if cls == "none" and not at_gate(s) and not alive(s):
                    cls = "crashed"
                observe(idx, ev, lines, cls, n_log0, info)
            elif kind == "data":
                if gated:
                    continue
                await W.data_connect(wd, s.raw)
                observe(idx, ev, ["pool ev other %d" % sid], "none", n_log0)
            elif kind == "xfer":
                if gated:
                    continue
                line = {"LIST": b"LIST", "RETR": b"RETR f.txt", "STOR": b"STOR up.bin"}[ev[2]]
                await W.run_line(wd, s.raw, line, b"payload" if ev[2] == "STOR" else b"")  # waits for the final reply (425 after the time-out without a data connection)
                observe(idx, ev, ["pool ev other %d" % sid], "none", n_log0)
            elif kind == "cmd":
                # any other command; also allowed while a PASV is suspended (pipelined)
                s.raw.send(ev[2])
                await loop.settle()
                observe(idx, ev, ["pool ev other %d" % sid], "none", n_log0)
            elif kind in ("quit", "close", "vanish", "epsvarg"):
                if gated and kind in ("quit", "epsvarg"):
                    # commands are handled one at a time: a command behind a suspended PASV/EPSV waits for it (only the
                    # peer going away - close, reset - ends the session at once)
                    continue
                if kind == "quit":
                    s.raw.send("QUIT")
                elif kind == "epsvarg":
                    # 522 whatever the argument (RFC 2428's protocol numbers, ALL, anything else); whether the handler then
                    # ends the session is the model's call (generated closing codes)
                    s.raw.send(["EPSV 1", "EPSV 2", "EPSV ALL", "EPSV 3", "EPSV 2"][idx % 5])
                elif kind == "close":
                    s.raw.close()
                else:
                    s.raw.vanish()
                await loop.settle()
                observe(idx, ev, ["pool ev %s %d" % ("epsvarg" if kind == "epsvarg" else "finish", sid)], "none", n_log0)
            else:
                raise ValueError("unknown event %r" % (ev,))
        # wind down: every remaining session leaves in turn (a suspended one by reset), then quiescence
        if not closed:
            for s in sessions:
                if alive(s):
                    n_log0 = len(env.log)
                    if at_gate(s):
                        s.raw.vanish()
                    else:
                        s.raw.send("QUIT")
                    await loop.settle()
                    observe(10_000 + s.sid, ["wind-down", s.sid], ["pool ev finish %d" % s.sid], "none", n_log0)
    finally:
        for f in foreign.values():
            f.close()
        try:
            if not closed:
                await wd.stop()
            else:
                wd.finish()
        except Exception:
            wd.finish()
    return obs


def run_scenario(scn):
    return simnet.run(_run_scenario, scn)


def _worker(scn):
    try:
        return run_scenario(scn)
    except BaseException as e:  # noqa
        import traceback

        return "HARNESS-ERROR %s: %s\n%s" % (type(e).__name__, e, traceback.format_exc()[-1500:])


def run_many(scns):
    procs = min(16, os.cpu_count() or 4)
    if len(scns) < 40 or procs <= 1:
        return [_worker(s) for s in scns]
    mp = multiprocessing.get_context("fork")
    with mp.Pool(procs) as pool:
        return pool.map(_worker, scns, chunksize=max(1, len(scns) // (procs * 8)))


# ------------------------------------------------------------------------------------------------
# generators
# ------------------------------------------------------------------------------------------------
FAULT_CHOICES_Q = [[], ["EADDRINUSE"], ["EACCES"]]
FAULT_CHOICES_T = [[], ["EADDRINUSE"], ["EACCES"], ["EADDRINUSE", "EADDRINUSE"], [None, "EADDRINUSE"], [None, "EACCES"], ["EADDRINUSE", "EACCES"]]
CONFIGS = [[], [5000], [5000, 5001], [5000, 5000], [5001, 5000, 5002], [5000, 5001, 5001], [5003, 5001, 5002, 5000], [5000, 5001, 5000, 5001]]


def _kind(rng):
    return rng.choice(["PASV", "EPSV"])


def systematic(ctx):
    """every subset of ports failing (EADDRINUSE / EACCES) x fixed multi-session templates"""
    rng = ctx.rng
    out = []
    choices = ctx.pick(FAULT_CHOICES_Q, FAULT_CHOICES_T)
    for ports in CONFIGS:
        distinct = sorted(set(ports))
        if len(distinct) > 3:
            assigns = [tuple(rng.choice(choices) for _ in distinct) for _ in range(ctx.pick(12, 300))]
        else:
            import itertools

            assigns = list(itertools.product(choices, repeat=len(distinct)))
        for a in assigns:
            faults = {str(p): list(f) for p, f in zip(distinct, a) if f}
            g = rng.random() < 0.5
            t1 = [
                ["connect"],
                ["pasv", 0, _kind(rng), [1, 1, 1, 1]],
                ["open", 0],
                ["open", 0],
                ["connect"],
                ["pasv", 1, _kind(rng), [0, 1] if g else [1]],
                ["open", 1],
                ["pasv", 0, _kind(rng), []],
                ["data", 0],
                ["xfer", 0, rng.choice(["LIST", "RETR", "STOR"])],
                ["quit", 0],
                ["connect"],
                ["pasv", 2, _kind(rng), []],
                ["quit", 1],
                ["connect"],
                ["pasv", 3, _kind(rng), [1]],
                ["open", 3],
            ]
            out.append({"ports": ports, "faults": faults, "events": t1, "family": "systematic"})
    return out


def random_scenario(rng):
    n = rng.choice([0, 1, 1, 2, 2, 2, 3, 3, 4, 4])
    if rng.random() < 0.2 and n >= 2:
        base = [rng.choice(PORTS) for _ in range(n)]  # duplicates likely
    else:
        base = rng.sample(PORTS, n)
    faults = {}
    for p in sorted(set(base)):
        r = rng.random()
        if r < 0.45:
            k = rng.randint(1, 3)
            faults[str(p)] = [rng.choice([None, "EADDRINUSE", "EADDRINUSE", "EACCES", "EADDRNOTAVAIL"]) for _ in range(k)]
            if all(x is None for x in faults[str(p)]):
                faults[str(p)][-1] = "EADDRINUSE"
    events = [["connect"]]
    nsess = 1
    maybe_gate = set()
    L = rng.randint(3, 14)
    while len(events) < L:
        r = rng.random()
        sid = rng.randrange(nsess)
        if r < 0.14 and nsess < 4:
            events.append(["connect"])
            nsess += 1
        elif r < 0.46:
            mask = [1 if rng.random() < 0.45 else 0 for _ in range(rng.randint(0, 4))]
            events.append(["pasv", sid, _kind(rng), mask])
            if any(mask):
                maybe_gate.add(sid)
        elif r < 0.50 and sid not in maybe_gate:
            events.append(["pasv2", sid] + [_kind(rng) for _ in range(rng.choice([2, 2, 3]))])
        elif r < 0.62 and maybe_gate:
            sid = rng.choice(sorted(maybe_gate))
            events.append(["open", sid])
            if rng.random() < 0.5:
                maybe_gate.discard(sid)
        elif r < 0.70:
            events.append(["data", sid])
        elif r < 0.76:
            events.append(["xfer", sid, rng.choice(["LIST", "RETR", "STOR"])])
        elif r < 0.82:
            events.append(["cmd", sid, rng.choice(["NOOP", "PWD", "TYPE I", "SYST", "FOO", "REST 5", "ABOR", "USER anonymous", "USER anonymous", "CWD /", "MKD p"])])
        elif r < 0.92:
            events.append([rng.choice(["quit", "close", "vanish", "epsvarg"]), sid])
            maybe_gate.discard(sid)
        elif base:
            p = rng.choice(base)
            events.append([rng.choice(["bind", "bind", "unbind"]), p])
    if rng.random() < 0.15:
        events.append(["server_close"])
    return {"ports": base, "faults": faults, "events": events, "family": "random"}


def with_cuts(scn, rng, every=True):
    """the scenario cut short at every event index by each kind of cut"""
    out = []
    ev = scn["events"]
    nconn = 0
    for k in range(len(ev) + 1):
        prefix = ev[:k]
        nconn = sum(1 for e in prefix if e[0] == "connect")
        if nconn == 0:
            continue
        if prefix and prefix[-1][0] == "server_close":
            break
        # the session the previous event was about (it is the one that may sit at a gate)
        last = next((e[1] for e in reversed(prefix) if e[0] not in ("connect", "bind", "unbind", "server_close")), nconn - 1)
        cuts = [["vanish", last], ["server_close"], ["quit", last], ["close", last], ["epsvarg", last]]
        if not every:
            cuts = [rng.choice(cuts[:2]), rng.choice(cuts[2:])]
        for c in cuts:
            tail = []
            if c[0] != "server_close" and rng.random() < 0.5:
                # life goes on after the cut: somebody else asks for a port
                tail = [["connect"], ["pasv", nconn, _kind(rng), []]]
            out.append({"ports": scn["ports"], "faults": scn["faults"], "events": prefix + [c] + tail, "family": scn["family"] + "+cut"})
    return out


def fixed_scenarios():
    """written-out scenarios: F8 by each kind of cut, premature 421, duplicates, exhaustion, EACCES"""
    out = []
    for cut in (["vanish", 0], ["quit", 0], ["close", 0], ["server_close"]):
        out.append({"ports": [5000, 5001], "faults": {}, "events": [["connect"], ["pasv", 0, "EPSV", [1]], cut], "family": "fixed"})
    out.append(
        {
            "ports": [5001, 5002],
            "faults": {"5002": ["EADDRINUSE"], "5001": [None, "EADDRINUSE"]},
            "events": [["connect"], ["connect"], ["pasv", 0, "PASV", []], ["pasv", 1, "PASV", []], ["quit", 0], ["connect"], ["pasv", 2, "EPSV", []]],
            "family": "fixed",
        }
    )
    out.append({"ports": [5000, 5000], "faults": {}, "events": [["connect"], ["connect"], ["pasv", 0, "PASV", []], ["pasv", 1, "PASV", []], ["quit", 0]], "family": "fixed"})
    out.append({"ports": [], "faults": {}, "events": [["connect"], ["pasv", 0, "EPSV", []]], "family": "fixed"})
    out.append({"ports": [5000, 5001, 5002], "faults": {"5000": ["EADDRINUSE"], "5001": ["EACCES"]}, "events": [["connect"], ["pasv", 0, "PASV", [0, 1]], ["open", 0], ["connect"], ["pasv", 1, "PASV", []]], "family": "fixed"})
    # a re-login keeps the session's listener and its port (nothing about USER touches the pool)
    out.append({"ports": [5000, 5001], "faults": {}, "events": [["connect"], ["pasv", 0, "EPSV", []], ["cmd", 0, "USER anonymous"], ["connect"], ["pasv", 1, "EPSV", []], ["cmd", 1, "USER anonymous"],
                                                                 ["quit", 0], ["quit", 1], ["connect"], ["pasv", 2, "PASV", []], ["connect"], ["pasv", 3, "PASV", []]], "family": "fixed"})
    out.append({"ports": [5000], "faults": {}, "events": [["connect"], ["pasv", 0, "PASV", []], ["cmd", 0, "USER anonymous"], ["pasv", 0, "PASV", []], ["data", 0], ["xfer", 0, "LIST"], ["vanish", 0], ["connect"], ["pasv", 1, "EPSV", []]], "family": "fixed"})
    out.append({"ports": [5000], "faults": {}, "events": [["connect"], ["pasv", 0, "PASV", [1]], ["cmd", 0, "NOOP"], ["open", 0], ["pasv", 0, "EPSV", []], ["data", 0], ["xfer", 0, "RETR"], ["connect"], ["pasv", 1, "PASV", []]], "family": "fixed"})
    out.append({"ports": [5000, 5001], "faults": {}, "events": [["connect"], ["bind", 5000], ["pasv", 0, "PASV", []], ["unbind", 5000], ["connect"], ["bind", 5001], ["pasv", 1, "EPSV", []], ["quit", 0], ["connect"], ["pasv", 2, "EPSV", []]], "family": "fixed"})
    # two passive commands pipelined in one segment: one listener, one port, and both back at the end
    for k1 in ("PASV", "EPSV"):
        for k2 in ("PASV", "EPSV"):
            out.append({"ports": [5000, 5001, 5002], "faults": {}, "events": [["connect"], ["pasv2", 0, k1, k2], ["data", 0], ["xfer", 0, "LIST"], ["quit", 0], ["connect"], ["pasv", 1, "EPSV", []]], "family": "fixed"})
    out.append({"ports": [5000, 5001, 5002], "faults": {}, "events": [["connect"], ["pasv2", 0, "PASV", "EPSV", "PASV"], ["quit", 0]], "family": "fixed"})
    out.append({"ports": [5000], "faults": {}, "events": [["connect"], ["pasv2", 0, "EPSV", "EPSV"], ["vanish", 0], ["connect"], ["pasv", 1, "PASV", []]], "family": "fixed"})
    out.append({"ports": [5000, 5001], "faults": {"5000": ["EADDRINUSE"]}, "events": [["connect"], ["pasv2", 0, "PASV", "EPSV"], ["connect"], ["pasv2", 1, "EPSV", "PASV"], ["quit", 0], ["quit", 1]], "family": "fixed"})
    return out


def gen_scenarios(ctx):
    rng = ctx.rng
    scns = fixed_scenarios()
    sysm = systematic(ctx)
    scns += sysm
    step = 2
    for i, s in enumerate(sysm):
        if i % step == 0:
            scns += with_cuts(s, rng, every=ctx.thorough())
    for _ in range(ctx.pick(900, 9000)):
        s = random_scenario(rng)
        scns.append(s)
        if rng.random() < ctx.pick(0.5, 0.6):
            scns += with_cuts(s, rng, every=False)
    return scns


# ------------------------------------------------------------------------------------------------
# model comparison
# ------------------------------------------------------------------------------------------------
def parse_model_line(line):
    return dict(tok.split("=", 1) for tok in line.split(" ") if "=" in tok)


def compare(obs, mout):
    """obs: observation records; mout: model output lines for the concatenated `model` lines"""
    pos = 0
    last = None
    for o in obs:
        if o.get("desync"):
            return None
        n = len(o["model"])
        outs = [parse_model_line(x) for x in mout[pos : pos + n]]
        pos += n
        replies = []
        mloss = []
        if outs:
            last = outs[-1]
            replies = [x.get("reply") for x in outs if x.get("reply") not in (None, "none")]
            mloss = sorted(int(x["loss"]) for x in outs if x.get("loss") not in (None, "-"))
        if last is None:
            continue
        mreply = replies[-1] if replies else "none"
        if o["ev"][0] not in ("pasv", "open", "pasv2"):
            mreply = "none"  # replies of other commands are not this model's business
        if o["pool"] is None:
            impl_pool = "none"
        else:
            impl_pool = ",".join("%d:%d" % (a, b) for a, b in o["pool"]) or "~"
        impl_ph = "|".join(o["phases"]) if o["phases"] else "~"
        for key, a, b in (
            ("pool", impl_pool, last.get("pool")),
            ("phases", impl_ph, last.get("phases")),
            ("reply", o["reply"], mreply),
            ("losses", o["losses"], mloss),
        ):
            if a != b:
                return {"event": o["idx"], "ev": o["ev"], "field": key, "impl": a, "model": b}
    return None


# ------------------------------------------------------------------------------------------------
# check entry points
# ------------------------------------------------------------------------------------------------
def _nontrivial(scn):
    return bool(scn["faults"]) or any(e[0] in ("server_close", "vanish", "close", "bind", "epsvarg") or e[0] == "pasv2" or (e[0] == "pasv" and len(e) > 3 and any(e[3])) for e in scn["events"])


def _strip(scn):
    return {"ports": scn["ports"], "faults": scn["faults"], "events": scn["events"]}


def _run(ctx, scns, do_compare=True):
    res = Result()
    outs = run_many(scns)
    all_lines = []
    spans = []
    for scn, obs in zip(scns, outs):
        res.cases += 1
        res.count("family=" + scn.get("family", "?"))
        res.count("ports=%d%s" % (len(scn["ports"]), "+dup" if len(set(scn["ports"])) < len(scn["ports"]) else ""))
        res.count("faulty_ports=%d" % len(scn["faults"]))
        if isinstance(obs, str):
            res.disagreements.append({"correspondence": "harness", "input": _strip(scn), "impl": obs, "model": None})
            continue
        if _nontrivial(scn):
            res.distinct.add(json.dumps(_strip(scn), sort_keys=True))
        gate_cut = False
        for o in obs:
            res.count("ev=" + o["ev"][0])
            if o["ev"][0] in ("pasv", "open"):
                res.count("pasv_reply=" + o["reply"])
            if any(ph.startswith("s") for ph in o["phases"]):
                res.count("quiescent_points_with_suspended_startup")
            if o.get("cuts"):
                gate_cut = True
                res.count("cut_inside_startup=" + o["ev"][0])
        for e in scn["events"]:
            if e[0] == "pasv":
                res.count("pasv_cmd=" + e[2])
        if gate_cut:
            res.count("scenarios_with_cut_inside_startup")
        seen = set()
        for o in obs:
            for f in o["fails"]:
                if f["signature"] in seen:
                    continue
                seen.add(f["signature"])
                res.oracle_failures.append({"input": _strip(scn), "what": "%s (event %s %r)" % (f["what"], f["at"], o["ev"]), "signature": f["signature"]})
        if do_compare:
            lines = [l for o in obs for l in o["model"]]
            spans.append((len(all_lines), len(lines), scn, obs))
            all_lines += lines
    if do_compare and ctx.model_ok and all_lines:
        mout = drive(all_lines, shards=1)
        res.lines += len(all_lines)
        for start, n, scn, obs in spans:
            d = compare(obs, mout[start : start + n])
            if d:
                if len(res.disagreements) < 15:
                    d.update({"correspondence": "Model.PortPool.step vs real server (queue, phases, reply, losses)", "input": _strip(scn)})
                    res.disagreements.append(d)
                else:
                    res.count("more_disagreements")
    res.samples = [_strip(s) for s in scns[:2]] + [_strip(s) for s in scns[len(scns) // 2 : len(scns) // 2 + 2]] + [_strip(scns[-1])]
    return res


def correspondence(ctx):
    from props import c11_extra

    r = _run(ctx, gen_scenarios(ctx))
    r.merge(c11_extra.run(ctx))
    return r


def search(ctx, prior):
    scns = []
    for d in prior.disagreements:
        if isinstance(d.get("input"), dict) and "events" in d["input"]:
            s = dict(d["input"])
            s["family"] = "disagreement"
            scns.append(s)
            # neighbourhood: every prefix of the disagreeing scenario
            for k in range(1, len(s["events"])):
                scns.append({"ports": s["ports"], "faults": s["faults"], "events": s["events"][:k], "family": "disagreement-prefix"})
    scns += gen_scenarios(ctx)
    from props import c11_extra

    r = _run(ctx, scns, do_compare=False)
    r.merge(c11_extra.run(ctx))
    return r


def replay(ctx, doc):
    if doc["failure"]["input"].get("kind") in ("ipv6-history", "data-ports-form"):
        from props import c11_extra

        return c11_extra.replay(doc["failure"]["input"])
    scn = doc["failure"]["input"]
    obs = run_scenario(scn)
    bad = []
    print("data_ports=%r faults=%r" % (scn["ports"], scn["faults"]))
    for o in obs:
        print("%-40s reply=%-8s pool=%r sessions=%s%s" % (json.dumps(o["ev"]), o["reply"], o["pool"], "|".join(o["phases"]) or "-", ("  cancelled-in-start_server=%r" % o["losses"]) if o["losses"] else ""))
        for f in o["fails"]:
            print("    ORACLE %s: %s" % (f["signature"], f["what"]))
            bad.append(f)
    want = doc["failure"].get("signature")
    return any(f["signature"] == want for f in bad) if want else bool(bad)


def probe_known(ctx, finding):
    obs = run_scenario(finding["replay"])
    return any(f["signature"] == finding["signature"] for o in obs for f in o["fails"])


# the long-lived process: the same probe session after earlier sessions of the same server (props/history.py)
from props import history as _history  # noqa: E402

correspondence, search, replay = _history.attach(PID, correspondence, search, replay, pasts=['second-login-with-a-listener', 'second-login-with-a-parked-data-connection', 'every-passive-port-busy', 'backend-failures', 'plain-session'])


# somebody else's classes: the documented extension points used the way a third party uses them (props/thirdparty.py)
from props import thirdparty as _thirdparty  # noqa: E402

correspondence, search, replay = _thirdparty.attach(PID, correspondence, search, replay)
