"""C15, wiring over session HISTORIES (implementation-side oracle): after any sequence of connect / USER /
QUIT / vanish / re-login, every live connection of the same user holds the SAME per-user throttle object (a
limit shared by several connections bounds their sum), different users hold different ones, and the
server-wide throttle is the one object everybody shares."""
import simnet
import world as W
from framework import Result


async def _history(loop, ops):
    # u0 needs a password: between its USER (331) and its PASS a session is attached to the user but not logged in
    users = [W.UserSpec("u0", "pw", read_speed_limit=1000, write_speed_limit=1000), W.UserSpec("u1", None, read_speed_limit=500)]
    wd = W.World(loop, users, server_kwargs={"read_speed_limit": 4000})
    await wd.start()
    fails = []
    try:
        clients = []
        for step, op in enumerate(ops):
            if op[0] == "C":
                clients.append(await wd.raw_client())
            elif op[0] == "L" and op[1] < len(clients) and not clients[op[1]].eof:
                await W.run_line(wd, clients[op[1]], ("USER u%d" % op[2]).encode())
            elif op[0] == "P" and op[1] < len(clients) and not clients[op[1]].eof:
                await W.run_line(wd, clients[op[1]], b"PASS pw" if len(op) < 3 or op[2] else b"PASS wrong")
            elif op[0] == "Q" and op[1] < len(clients) and not clients[op[1]].eof:
                await W.run_line(wd, clients[op[1]], b"QUIT")
            elif op[0] == "V" and op[1] < len(clients) and not clients[op[1]].eof:
                clients[op[1]].vanish()
            await loop.settle()
            live = []
            for stream, conn in wd.server.connections.items():
                ok, u = wd._get(conn, "user")
                live.append((stream.throttles, wd.users.index(u) if ok else None))
            for i in range(len(live)):
                di, ui = live[i]
                if di.get("server_global") is not wd.server.throttle:
                    fails.append("a connection does not share the server-wide throttle after %r" % (ops[: step + 1],))
                for j in range(i + 1, len(live)):
                    dj, uj = live[j]
                    if ui is None or uj is None or "user_global" not in di or "user_global" not in dj:
                        continue
                    same_obj = di["user_global"] is dj["user_global"] or di["user_global"].read is dj["user_global"].read
                    if (ui == uj) != same_obj:
                        fails.append(
                            "two live connections of %s hold %s per-user throttle after %r"
                            % ("the same user" if ui == uj else "different users", "the same" if same_obj else "different", ops[: step + 1])
                        )
            if fails:
                break
        for c in clients:
            c.close()
        await loop.settle()
    finally:
        try:
            await wd.stop()
        except Exception:
            wd.finish()
    return fails


def gen(ctx):
    rng = ctx.rng
    hist = [
        # one session of the user sits between USER and PASS while another one of the same user leaves
        [["C"], ["L", 0, 0], ["P", 0], ["C"], ["L", 1, 0], ["Q", 0], ["P", 1], ["C"], ["L", 2, 0], ["P", 2]],
        [["C"], ["L", 0, 0], ["P", 0], ["C"], ["L", 1, 0], ["V", 0], ["C"], ["L", 2, 0], ["P", 2], ["P", 1]],
        [["C"], ["L", 0, 0], ["C"], ["L", 1, 0], ["P", 1], ["Q", 1], ["C"], ["L", 2, 0], ["P", 2], ["P", 0]],
        [["C"], ["L", 0, 0], ["P", 0, 0], ["C"], ["L", 1, 0], ["P", 1], ["Q", 1], ["P", 0], ["C"], ["L", 2, 0], ["P", 2]],
        [["C"], ["L", 0, 0], ["C"], ["L", 1, 0], ["Q", 1], ["C"], ["L", 2, 0]],
        [["C"], ["L", 0, 0], ["C"], ["L", 1, 0], ["V", 0], ["C"], ["L", 2, 0]],
        [["C"], ["L", 0, 0], ["Q", 0], ["C"], ["L", 1, 0], ["C"], ["L", 2, 0]],
        [["C"], ["L", 0, 0], ["C"], ["L", 1, 1], ["L", 1, 0], ["Q", 0], ["C"], ["L", 2, 0], ["L", 1, 1], ["L", 1, 0]],
    ]
    for _ in range(ctx.pick(150, 2000)):
        ops = [["C"]]
        n = 1
        for _ in range(rng.randint(3, 12)):
            r = rng.random()
            if r < 0.25 and n < 5:
                ops.append(["C"])
                n += 1
            elif r < 0.5:
                ops.append(["L", rng.randrange(n), rng.randrange(2)])
            elif r < 0.7:
                ops.append(["P", rng.randrange(n), int(rng.random() < 0.85)])
            elif r < 0.85:
                ops.append(["Q", rng.randrange(n)])
            else:
                ops.append(["V", rng.randrange(n)])
        hist.append(ops)
    return hist


def run(ctx):
    res = Result()
    for ops in gen(ctx):
        res.cases += 1
        res.count("wiring_histories")
        res.distinct.add(("wiring-history", repr(ops)))
        try:
            fails = simnet.run(_history, ops)
        except BaseException as e:  # noqa
            res.disagreements.append({"correspondence": "wiring-history harness", "input": ops, "impl": "%s: %s" % (type(e).__name__, e)})
            continue
        if fails:
            res.oracle_failures.append({"input": {"kind": "wiring-history", "ops": ops}, "what": fails[0], "signature": "C15:wiring-history"})
    return res


def replay(inp):
    fails = simnet.run(_history, inp["ops"])
    print(fails)
    return bool(fails)
