"""C10  connection limits are exact and slots are always returned.

Multi-session histories on the real, unmodified server under the simulated network and virtual clock.
Every history is run as written and with a CUT at every event index k:
  (a) the peer of the session of event k vanishes (RST) just before event k, the rest of the history goes on;
  (b) `server.close()` is called just before event k;
  (c) the command of event k is sent and the peer vanishes WITHOUT waiting for the server (race), rest goes on;
  (d) the command of event k is sent and `server.close()` is called without waiting.
After every event the loop is settled and the real counters are read from the real objects
(`server.available_connections.value`, `server.user_manager.available_connections[user].value`) and compared
with `Model.Counters.sysStepOut` (driver component `sys`, the function the theorems are about) and, for events
delivered to one session, with `Model.Session.step` (component `sess`) driven with the same interleaving
(any session end = `finish`).

The oracle never looks at the model: it keeps a ledger from what was seen ON THE WIRE (220/421 at greeting,
230/331/530 after USER, 221, EOF) and checks the two conservation sums, that refusals are not counted, that the
admission decision is exactly "refuse iff the counter is exhausted", that everything is back at the configured
maximum once all sessions are gone, and that neither the dispatcher log nor the loop saw the accounting raise.
"""
import asyncio
import gc
import logging
import multiprocessing
import os
import socket

import simnet
import world as W
from framework import Result, drive, enc_bytes, enc_str

PID = "C10"
RULE = (
    "configurations = server limit in {none,1,2,3} x per-user limits in {none,1,2} for alice(password) / bob(no "
    "password) / carol(password), optionally an anonymous user at a random position, optionally idle_timeout; "
    "histories = seeded random interleavings (length 4..14, <= 5 concurrent, <= 7 total sessions) of connect / "
    "USER {same, other, unknown, over-limit, odd spelling} / PASS {right, wrong} / QUIT / PWD / REST with a digit "
    "int() rejects (handler error) / orderly close / abrupt vanish / idle-timeout expiry, biased to a 'hot' user "
    "with limit 1 and to full servers; each history is run as written and with cuts (a) vanish, (b) server.close(), "
    "(c) send-and-vanish race, (d) send-and-server.close() race at EVERY event index, then all remaining sessions "
    "are ended in a random manner and the server is closed; non-trivial = the run contains a refusal (421/530), a "
    "relogin, or a session that ends other than by QUIT while holding a slot; distinct = distinct (config, run)"
)
EXPLANATION = (
    "Properties/C10.lean proves slot conservation, refusal-not-counted, unreachability of both ValueError branches "
    "and quiescent fullness for EVERY event list of the multi-session system built on Model.Session.step; this run "
    "ties that system to the real server (counters read from the real AvailableConnections objects after every "
    "event of every cut) and evaluates the property itself on the implementation from wire observations."
)
GENERATED_OBLIGATIONS = ["Server.replyWriterFinishesInFinally / replyWriterDrainsOnFailure / replySkipsDeadWriter (response_writer and connection.response: join_cannot_hang)"]
ASSUMPTIONS = [
    "shipped MemoryUserManager: get_user / notify_logout do not suspend, so greeting(), user() and the finally block "
    "update the counters atomically with respect to other sessions (a custom user manager that awaits is outside C10)",
    "events are separated by quiescence of the event loop except in the race cuts (c)/(d), where the outcome is "
    "compared only after the session / server is gone",
    "in-memory network and virtual clock stand in for sockets and time (simnet); non-empty user table",
]
EXTRA_LEAN_TARGETS = ["AioftpModel.Driver.Counters", "AioftpModel.Driver.Session"]
TRUSTED_EXTRA = ["wire ledger of the C10 oracle (which login maps to which configured user is re-implemented in 6 lines)"]

NAMES = ["alice", "bob", "carol"]
PASSWORDS = {"alice": "secret", "bob": None, "carol": "pw"}
IDLE = 5.0


# ------------------------------------------------------------------------------------------------
# configurations and histories
# ------------------------------------------------------------------------------------------------
def make_users(cfg):
    """cfg["users"]: list of [login|None, max_conn|None] in table order"""
    return [W.UserSpec(login, PASSWORDS.get(login) if login else None, max_conn=mc) for login, mc in cfg["users"]]


def gen_config(rng):
    users = [[n, rng.choice([1, 1, 2, None])] for n in NAMES]
    hot = rng.choice(NAMES)
    if rng.random() < 0.6:
        for u in users:
            if u[0] == hot:
                u[1] = 1
    if rng.random() < 0.3:
        users.insert(rng.randrange(0, len(users) + 1), [None, rng.choice([1, 2, None])])
    if rng.random() < 0.15:
        rng.shuffle(users)
    return {
        "srv": rng.choice([None, 1, 2, 2, 3, 3]),
        "users": users,
        "idle": rng.random() < 0.3,
        "hot": hot,
    }


USER_ARGS_ODD = ["user %s", "UsEr %s", "USER %s   "]


def gen_history(rng, cfg):
    n = rng.randint(4, 14)
    hot = cfg["hot"]
    ev = []
    total = 0
    open_ = []  # sids the generator has not ended itself
    last_user = {}
    maybe_logged = {}
    while len(ev) < n:
        r = rng.random()
        if not open_ or (r < 0.30 - 0.04 * len(open_) and len(open_) < 5 and total < 7) or (r < 0.08 and total < 7 and len(open_) < 5):
            ev.append(["connect"])
            open_.append(total)
            total += 1
            continue
        sid = rng.choice(open_)
        r = rng.random()
        if r < 0.42:
            k = rng.random()
            if k < 0.45:
                name = hot
            elif k < 0.58 and sid in last_user:
                name = last_user[sid]  # same user again
            elif k < 0.85:
                name = rng.choice(NAMES)
            elif k < 0.93:
                name = rng.choice(["nobody", "anonymous", "ALICE", ""])
            else:
                name = rng.choice(["alice ", " bob", "bob\t"])
            fmt = "USER %s" if rng.random() < 0.85 else rng.choice(USER_ARGS_ODD)
            ev.append(["line", sid, (fmt % name) if name else "USER"])
            last_user[sid] = name
            maybe_logged[sid] = name in ("bob", "anonymous", "nobody")
        elif r < 0.58:
            pw = PASSWORDS.get(last_user.get(sid, hot)) or "secret"
            right = rng.random() < 0.6
            ev.append(["line", sid, "PASS " + (pw if right else rng.choice(["wrong", "", "pw", "secret"]))])
            maybe_logged[sid] = maybe_logged.get(sid) or right
        elif r < 0.66:
            k = rng.random()
            # these need a completed login: prefer a session whose last USER needs no password / got its PASS
            cand = [x for x in open_ if maybe_logged.get(x)]
            if cand and rng.random() < 0.8:
                sid = rng.choice(cand)
            if k < 0.4:
                ev.append(["line", sid, rng.choice(["PWD", "SYST", "NOOP", "TYPE I", "pwd"])])
            elif k < 0.7:
                ev.append(["line", sid, "EPSV"])  # the finally block then has a listener to close
            elif k < 0.9:
                ev.append(["data", sid])  # ... and a parked data connection
            else:
                ev.append(["line", sid, "LIST"])  # ... or a worker (waiting for the data connection) to cancel
        elif r < 0.73:
            ev.append(["line", sid, "QUIT"])
            open_.remove(sid)
        elif r < 0.78:
            ev.append(["line", sid, "REST ²"])  # str.isdigit() but int() raises: the handler dies
            open_.remove(sid)
        elif r < 0.81:
            # a command line the server cannot decode (a legacy client's local code page): the session ends there
            ev.append(["badline", sid, rng.choice(["CWD caf\xe9", "\xff", "USER bo\xfcb", "PASS \xe9\xe8"])])
            open_.remove(sid)
        elif r < 0.86:
            ev.append(["vanish", sid])
            open_.remove(sid)
        elif r < 0.91:
            ev.append(["close", sid])
            open_.remove(sid)
        elif r < 0.96 and cfg["idle"]:
            ev.append(["idle"])
            open_ = []
        else:
            ev.append(["racevanish", sid, rng.choice(["USER " + hot, "USER bob", "PASS secret", "QUIT", "QUIT", "PWD", "EPSV\r\nQUIT"]), rng.choice([0, 0, 1, 2, 3, 4, 5, 6])])
            open_.remove(sid)
    return ev


def event_sid(ev):
    return ev[1] if ev[0] in ("line", "vanish", "close", "racevanish", "raceclose", "data", "badline") else None


def sessions_before(events, k):
    return sum(1 for e in events[:k] if e[0] in ("connect", "racevanishconnect"))


def variants(rng, events):
    """the history itself and its cuts at every event index"""
    out = [("base", events)]
    n = len(events)
    for k in range(n + 1):
        nb = sessions_before(events, k)
        sid = event_sid(events[k]) if k < n else None
        if sid is None and nb:
            sid = rng.randrange(nb)
        if sid is not None:
            out.append(("a", events[:k] + [["vanish", sid]] + events[k:]))
        if k < n and events[k][0] == "connect":
            # the peer disappears before the greeting is read
            out.append(("c", events[:k] + [["racevanishconnect"]] + events[k + 1 :]))
        out.append(("b", events[:k] + [["srvclose"]]))
        if k < n and events[k][0] == "line":
            out.append(("c", events[:k] + [["racevanish", events[k][1], events[k][2]]] + events[k + 1 :]))
            if events[k][2] == "QUIT":
                # the reset lands while the 221 is on its way (a few loop turns after the QUIT)
                for d in (1, 2, 3, 4, 5):
                    out.append(("c", events[:k] + [["racevanish", events[k][1], events[k][2], d]] + events[k + 1 :]))
            out.append(("d", events[:k] + [["raceclose", events[k][1], events[k][2]]]))
    seen = set()
    res = []
    for kind, v in out:
        key = repr(v)
        if key not in seen:
            seen.add(key)
            res.append((kind, v))
    return res


# ------------------------------------------------------------------------------------------------
# running a history on the real server
# ------------------------------------------------------------------------------------------------
class ExcCatcher(logging.Handler):
    def __init__(self):
        super().__init__(level=logging.DEBUG)
        self.items = []

    def emit(self, record):
        if record.exc_info and record.exc_info[0] is not None:
            self.items.append((record.exc_info[0].__name__, str(record.exc_info[1])))
        elif "dispatcher caught exception" in str(record.msg):
            self.items.append(("?", record.getMessage()))


def counters(wd):
    srv = wd.server.available_connections.value
    uf = [wd.server.user_manager.available_connections[u].value for u in wd.users]
    return srv, uf


def census(wd, raws):
    """what the implementation itself thinks: per session (alive, acquired flag, user index)"""
    alive, acq, users = [], [], []
    for raw in raws:
        conn = wd.connection_of(raw) if raw is not None else None
        a = conn is not None and not raw.eof
        alive.append(1 if a else 0)
        if conn is not None:
            acq.append(1 if conn.acquired else 0)
            ok, u = wd._get(conn, "user")
            users.append(wd.users.index(u) if ok else None)
        else:
            acq.append(0)
            users.append(None)
    return alive, acq, users


async def _run(loop, cfg, events, ending):
    users = make_users(cfg)
    kw = {}
    if cfg["srv"] is not None:
        kw["maximum_connections"] = cfg["srv"]
    if cfg["idle"]:
        kw["idle_timeout"] = IDLE
    wd = W.World(loop, users, backend="memory", server_kwargs=kw, family=socket.AF_INET)
    await wd.start()
    exc = ExcCatcher()
    wd.root_logger.addHandler(exc)
    raws = []
    obs = []
    closed = False

    def snap(ev, delivered, replies, n_exc0):
        srv, uf = counters(wd)
        alive, acq, us = census(wd, raws)
        if ev[0] in ("@end", "@closed", "srvclose", "raceclose"):
            gc.collect()  # never-retrieved task exceptions reach the loop's handler when the task is collected
        return {
            "ev": ev,
            "delivered": delivered,
            "replies": replies,
            "srv": srv,
            "ufree": uf,
            "alive": alive,
            "acq": acq,
            "suser": us,
            "eof": [1 if (r is None or r.eof) else 0 for r in raws],
            "exc": exc.items[n_exc0:],
            # not the accounting's: CPython 3.12.1's StreamReaderProtocol done-callback calls task.exception() on
            # the cancelled dispatcher task (server.close()); never-retrieved connection errors of writer tasks
            "loop_errors": [
                str(c.get("message")) + " / " + repr(c.get("exception"))
                for c in loop.loop_errors
                if type(c.get("exception")).__name__ not in ALLOWED_EXC
            ],
        }

    def dead(raw):
        return raw is None or raw.eof or wd.connection_of(raw) is None

    try:
        for ev in list(events) + [["@end"] + list(ending)]:
            n0 = len(exc.items)
            kind = ev[0]
            if closed and kind != "@end":
                break
            if kind == "connect":
                raw = await wd.raw_client()
                raws.append(raw)
                obs.append(snap(ev, True, [int(c) for c, _ in raw.replies], n0))
            elif kind == "racevanishconnect":
                raw = simnet.RawClient(wd.net)
                await raw.connect(wd.port)
                wd.clients.append(raw)
                raw.vanish()
                raws.append(raw)
                await loop.settle()
                raw.eof = True
                obs.append(snap(ev, True, None, n0))
            elif kind == "line":
                raw = raws[ev[1]] if ev[1] < len(raws) else None
                if dead(raw):
                    obs.append(snap(ev, False, None, n0))
                    continue
                codes, crashed, _, _ = await W.run_line(wd, raw, ev[2].encode("utf-8"))
                obs.append(snap(ev, True, codes, n0))
            elif kind == "data":
                raw = raws[ev[1]] if ev[1] < len(raws) else None
                if dead(raw):
                    obs.append(snap(ev, False, None, n0))
                    continue
                ok = await W.data_connect(wd, raw)
                obs.append(snap(ev, bool(ok), None, n0))
            elif kind in ("vanish", "close"):
                raw = raws[ev[1]] if ev[1] < len(raws) else None
                if raw is None:
                    obs.append(snap(ev, False, None, n0))
                    continue
                was_dead = dead(raw)
                if kind == "vanish":
                    raw.vanish()
                else:
                    raw.close()
                await loop.settle()
                raw.eof = True
                obs.append(snap(ev, not was_dead, None, n0))
            elif kind == "racevanish":
                raw = raws[ev[1]] if ev[1] < len(raws) else None
                if dead(raw):
                    obs.append(snap(ev, False, None, n0))
                    continue
                raw.send_raw(ev[2].encode("utf-8") + b"\r\n")
                for _ in range(ev[3] if len(ev) > 3 else 0):
                    await asyncio.sleep(0)
                raw.vanish()
                await loop.settle()
                raw.eof = True
                obs.append(snap(ev, True, None, n0))
            elif kind == "badline":
                raw = raws[ev[1]] if ev[1] < len(raws) else None
                if dead(raw):
                    obs.append(snap(ev, False, None, n0))
                    continue
                raw.send_raw(ev[2].encode("latin-1") + b"\r\n")
                await loop.settle()
                obs.append(snap(ev, True, None, n0))
            elif kind == "idle":
                await asyncio.sleep(IDLE + 0.5)
                await loop.settle()
                obs.append(snap(ev, True, None, n0))
            elif kind in ("srvclose", "raceclose"):
                if kind == "raceclose":
                    raw = raws[ev[1]] if ev[1] < len(raws) else None
                    if not dead(raw):
                        raw.send_raw(ev[2].encode("utf-8") + b"\r\n")
                await wd.server.close()
                await loop.settle()
                closed = True
                obs.append(snap(ev, True, None, n0))
            elif kind == "@end":
                if not closed:
                    # end whatever is left, each in its own manner, then look at the counters
                    for i, raw in enumerate(raws):
                        if dead(raw):
                            continue
                        how = ev[1 + i] if 1 + i < len(ev) else "vanish"
                        if how == "quit":
                            raw.send_raw(b"QUIT\r\n")
                        elif how == "close":
                            raw.close()
                        else:
                            raw.vanish()
                        await loop.settle()
                    await loop.settle()
                    obs.append(snap(["@end"], True, None, n0))
                    n0 = len(exc.items)
                    await wd.server.close()
                    await loop.settle()
                    closed = True
                    obs.append(snap(["@closed"], True, None, n0))
    finally:
        wd.root_logger.removeHandler(exc)
        try:
            if not closed:
                await wd.stop()
            else:
                wd.finish()
        except Exception:
            wd.finish()
    return obs


def run_one(cfg, events, ending):
    return simnet.run(_run, cfg, events, ending)


def _worker(job):
    cfg, events, ending = job
    try:
        return run_one(cfg, events, ending)
    except BaseException as e:  # noqa
        return "HARNESS-ERROR %s: %s" % (type(e).__name__, e)


def run_many(jobs):
    procs = min(16, os.cpu_count() or 4)
    if len(jobs) < 40 or procs <= 1:
        return [_worker(j) for j in jobs]
    ctx = multiprocessing.get_context("fork")
    with ctx.Pool(procs) as pool:
        return pool.map(_worker, jobs, chunksize=max(1, len(jobs) // (procs * 8)))


# ------------------------------------------------------------------------------------------------
# oracle: the property on the implementation's outputs only
# ------------------------------------------------------------------------------------------------
def target_user(cfg, login):
    """index of the configured user a login name selects (None: no such user)"""
    cand = None
    for i, (name, _) in enumerate(cfg["users"]):
        if name is None and cand is None:
            cand = i
        elif name == login:
            return i
    return cand


ALLOWED_EXC = ("ConnectionResetError", "ConnectionAbortedError", "BrokenPipeError", "ConnectionError", "TimeoutError", "CancelledError")


def oracle(cfg, events, obs):
    fails = []

    def fail(i, sig, what):
        fails.append({"input": {"config": cfg, "events": events, "at": i}, "what": what, "signature": sig})

    srv_max = cfg["srv"]
    umax = [mc for _, mc in cfg["users"]]
    admitted = []  # per session: greeted with 220
    ended = []
    suser = []  # per session: configured user index the wire says it is attached to
    prev_srv, prev_uf = srv_max, list(umax)
    for i, o in enumerate(obs):
        ev = o["ev"]
        kind = ev[0]
        # -- what the wire said
        if kind == "connect":
            codes = o["replies"]
            admitted.append(codes[:1] == [220])
            ended.append(False)
            suser.append(None)
            if codes[:1] == [421]:
                if (o["srv"], o["ufree"]) != (prev_srv, prev_uf):
                    fail(i, "C10:refusal-counted", "a connection refused with 421 changed the counters %r -> %r" % ((prev_srv, prev_uf), (o["srv"], o["ufree"])))
            want_refuse = prev_srv == 0
            if (codes[:1] == [421]) != want_refuse or codes[:1] not in ([220], [421]):
                fail(i, "C10:admission-decision", "greeting answered %r with %r server slots free (limit %r)" % (codes, prev_srv, srv_max))
        elif kind == "racevanishconnect":
            admitted.append(False)
            ended.append(True)
            suser.append(None)
        elif kind == "line" and o["delivered"]:
            sid = ev[1]
            first, _, rest = ev[2].rstrip().partition(" ")
            finals = [c for c in (o["replies"] or []) if not 100 <= c < 200]
            if first.lower() == "user":
                t = target_user(cfg, rest)
                own = 1 if (t is not None and suser[sid] == t) else 0
                want_refuse = t is None or (prev_uf[t] is not None and prev_uf[t] + own == 0)
                if finals[:1] == [530]:
                    if suser[sid] is None and (o["srv"], o["ufree"]) != (prev_srv, prev_uf):
                        fail(i, "C10:refusal-counted", "USER refused with 530 on a session without a user changed the counters %r -> %r" % ((prev_srv, prev_uf), (o["srv"], o["ufree"])))
                    suser[sid] = None
                elif finals[:1] in ([230], [331]):
                    suser[sid] = t
                if finals[:1] not in ([230], [331], [530]) or (finals[:1] == [530]) != want_refuse:
                    fail(i, "C10:admission-decision", "%r answered %r; selected user %r had %r free (+%d own), limit %r" % (ev[2], o["replies"], t, None if t is None else prev_uf[t], own, None if t is None else umax[t]))
            else:
                if (o["srv"], o["ufree"]) != (prev_srv, prev_uf) and o["eof"][sid] == 0:
                    fail(i, "C10:counter-moved-by-other-command", "%r changed the counters %r -> %r" % (ev[2], (prev_srv, prev_uf), (o["srv"], o["ufree"])))
        # -- who is gone (EOF seen on the wire / the harness ended it)
        for sid in range(len(ended)):
            if o["eof"][sid]:
                ended[sid] = True
        if kind in ("srvclose", "raceclose", "@end", "@closed"):
            ended = [True] * len(ended)
        # -- the two sums
        holders = sum(1 for sid in range(len(ended)) if admitted[sid] and not ended[sid])
        if srv_max is None:
            if o["srv"] is not None:
                fail(i, "C10:server-slot-conservation", "unlimited server counter became %r" % (o["srv"],))
        elif o["srv"] is None or o["srv"] + holders != srv_max or o["srv"] < 0:
            fail(i, "C10:server-slot-conservation", "server: free %r + %d live admitted sessions != limit %d after %r" % (o["srv"], holders, srv_max, ev))
        for u, m in enumerate(umax):
            att = sum(1 for sid in range(len(ended)) if not ended[sid] and suser[sid] == u)
            v = o["ufree"][u]
            if m is None:
                if v is not None:
                    fail(i, "C10:user-slot-conservation", "unlimited counter of user %r became %r" % (cfg["users"][u][0], v))
            elif v is None or v + att != m or v < 0:
                fail(i, "C10:user-slot-conservation", "user %r: free %r + %d live attached sessions != limit %d after %r" % (cfg["users"][u][0], v, att, m, ev))
        if all(ended) and (o["srv"], o["ufree"]) != (srv_max, umax):
            fail(i, "C10:not-full-after-quiescence", "all sessions are gone but the counters are %r, configured %r" % ((o["srv"], o["ufree"]), (srv_max, umax)))
        # -- the accounting itself never fails
        for cls, msg in o["exc"]:
            if "Too many" in msg:
                fail(i, "C10:accounting-raised", "dispatcher logged %s(%r) at %r" % (cls, msg, ev))
            elif cls == "ValueError" and "invalid literal for int()" in msg:
                pass  # REST with a digit int() rejects: C05's finding F1; the session must still give its slots back
            elif cls == "UnicodeDecodeError" and kind == "badline":
                pass  # how an undecodable command line ends its session; the slots must still come back
            elif cls not in ALLOWED_EXC:
                fail(i, "C10:dispatcher-exception:" + cls, "dispatcher logged %s(%r) at %r" % (cls, msg, ev))
        if o["loop_errors"]:
            fail(i, "C10:loop-error", "event loop exception handler was called: %r" % (o["loop_errors"][:2],))
        if fails:
            break
        prev_srv, prev_uf = o["srv"], list(o["ufree"])
    return fails


# ------------------------------------------------------------------------------------------------
# model side
# ------------------------------------------------------------------------------------------------
def opt(v):
    return "n" if v is None else str(v)


def model_lines(cfg, obs):
    """driver lines for one run + for each observation the indexes of its last `sys` and `sess` answers"""
    users = make_users(cfg)
    toks = " ".join(u.token() for u in users)
    lines = ["sess init %s 0 %s" % (opt(cfg["srv"]), toks), "sess fs ~", "sys init %s 0 %s" % (opt(cfg["srv"]), toks)]
    where = []
    nsess = 0
    alive = []

    def finish(sid):
        lines.append("sys ev finish %d" % sid)
        lines.append("sess ev %d finish" % sid)
        alive[sid] = False

    for o in obs:
        ev = o["ev"]
        kind = ev[0]
        sys_i = sess_i = None
        if kind in ("connect", "racevanishconnect"):
            lines.append("sys ev connect")
            sys_i = len(lines) - 1
            lines.append("sess new")
            lines.append("sess ev %d connect" % nsess)
            sess_i = len(lines) - 1
            alive.append(True)
            if kind == "racevanishconnect":
                finish(nsess)
                sys_i, sess_i = len(lines) - 2, len(lines) - 1
            nsess += 1
        elif kind == "line":
            if o["delivered"]:
                lines.append("sys ev line %d %s -" % (ev[1], enc_str(ev[2])))
                sys_i = len(lines) - 1
                lines.append("sess ev %d line %s -" % (ev[1], enc_str(ev[2])))
                sess_i = len(lines) - 1
        elif kind == "data":
            if o["delivered"]:
                lines.append("sys ev dataconnect %d" % ev[1])
                sys_i = len(lines) - 1
                lines.append("sess ev %d dataconnect" % ev[1])
                sess_i = len(lines) - 1
        elif kind == "badline":
            if o["delivered"] and ev[1] < nsess:
                finish(ev[1])
                sys_i, sess_i = len(lines) - 2, len(lines) - 1
        elif kind in ("vanish", "close", "racevanish"):
            if ev[1] < nsess:
                finish(ev[1])
                sys_i, sess_i = len(lines) - 2, len(lines) - 1
        elif kind in ("idle", "srvclose", "raceclose", "@end", "@closed"):
            # every session that is still going ends now
            for sid in range(nsess):
                if o["alive"][sid] == 0 and alive[sid]:
                    finish(sid)
                    sys_i = len(lines) - 2
        where.append((sys_i, sess_i))
        # a session the server ended by itself (QUIT, 421, handler error) is already finalised in the model
        for sid in range(nsess):
            if o["alive"][sid] == 0:
                alive[sid] = False
    return lines, where


def compare(cfg, obs, out, where):
    """first difference between the real server and the model, or None"""
    last_sys = None
    for i, (o, (si, ei)) in enumerate(zip(obs, where)):
        if si is not None:
            last_sys = W.parse_model_state(out[si])
        if last_sys is None:
            continue
        m = last_sys
        impl = {
            "srvfree": opt(o["srv"]),
            "ufree": ",".join(opt(v) for v in o["ufree"]),
            "alive": ",".join(str(a) for a in o["alive"]) or "~",
            "holding": str(sum(a for a, l in zip(o["acq"], o["alive"]) if l)),
            "attached": ",".join(str(sum(1 for u, l in zip(o["suser"], o["alive"]) if l and u == k)) for k in range(len(cfg["users"]))) or "~",
            "users": ",".join(opt(u) if l else "n" for u, l in zip(o["suser"], o["alive"])) or "~",
        }
        if o["replies"] is not None and si is not None:
            impl["replies"] = ",".join(str(c) for c in o["replies"]) or "~"
        for k, v in impl.items():
            if m.get(k) != v:
                return {"event": i, "ev": o["ev"], "field": "sys." + k, "impl": v, "model": m.get(k)}
        if ei is not None:
            ms = W.parse_model_state(out[ei])
            for k in ("srvfree", "ufree") + (("replies",) if o["replies"] is not None and o["ev"][0] in ("connect", "line") else ()):
                if ms.get(k) != impl[k]:
                    return {"event": i, "ev": o["ev"], "field": "sess." + k, "impl": impl[k], "model": ms.get(k)}
    return None


def drive_runs(per_run_lines, shards=12):
    """whole runs are kept together (the driver components are stateful)"""
    import concurrent.futures as cf

    n = len(per_run_lines)
    if n == 0:
        return []
    k = max(1, min(shards, n // 50 or 1))
    size = (n + k - 1) // k
    chunks = [per_run_lines[i : i + size] for i in range(0, n, size)]

    def go(chunk):
        flat = [l for run in chunk for l in run]
        out = drive(flat)
        res = []
        p = 0
        for run in chunk:
            res.append(out[p : p + len(run)])
            p += len(run)
        return res

    with cf.ThreadPoolExecutor(max_workers=k) as ex:
        parts = list(ex.map(go, chunks))
    return [r for part in parts for r in part]


# ------------------------------------------------------------------------------------------------
# AvailableConnections itself
# ------------------------------------------------------------------------------------------------
def counter_cases():
    import aioftp.server as srv

    lines, impl = [], []
    vals = [None, 0, 1, 2, 3, 4]
    for mx in vals:
        for v in vals:
            for op in ("acquire", "release", "locked"):
                c = srv.AvailableConnections(mx)
                c.value = v
                try:
                    r = getattr(c, op)()
                    got = ("1" if r else "0") if op == "locked" else "ok:" + opt(c.value)
                except ValueError as e:
                    got = "err:ValueError:" + str(e).replace(" ", "-")
                except TypeError:
                    got = "err:TypeError"
                if op == "release":
                    lines.append("cnt release %s %s" % (opt(mx), opt(v)))
                else:
                    lines.append("cnt %s %s" % (op, opt(v)))
                impl.append(got)
    return lines, impl


# ------------------------------------------------------------------------------------------------
# the check
# ------------------------------------------------------------------------------------------------
FIXED = [
    # DESIGN's scratch history: three sessions, relogin as an over-limit user, abrupt end between USER and PASS
    (
        {"srv": 2, "users": [["alice", 1], ["bob", 2]], "idle": False, "hot": "alice"},
        [["connect"], ["connect"], ["connect"], ["line", 0, "USER alice"], ["line", 1, "USER bob"], ["line", 1, "user alice"], ["vanish", 0], ["line", 1, "USER alice"], ["line", 1, "PASS secret"], ["connect"], ["line", 3, "USER alice"]],
    ),
    (
        {"srv": 1, "users": [[None, 1], ["alice", 1]], "idle": True, "hot": "alice"},
        [["connect"], ["line", 0, "USER whoever"], ["connect"], ["idle"], ["connect"], ["line", 2, "USER alice"], ["line", 2, "USER alice"], ["line", 2, "REST ²"], ["connect"], ["line", 3, "USER alice"], ["line", 3, "PASS wrong"], ["line", 3, "QUIT"]],
    ),
    # sessions that own a listener, a parked data connection or a waiting worker when they end
    (
        {"srv": 3, "users": [["bob", 2], ["alice", 1]], "idle": False, "hot": "bob"},
        [["connect"], ["line", 0, "USER bob"], ["line", 0, "EPSV"], ["data", 0], ["connect"], ["line", 1, "USER bob"], ["line", 1, "EPSV"], ["line", 1, "LIST"], ["connect"], ["line", 2, "USER bob"], ["line", 0, "LIST"], ["line", 2, "USER alice"], ["line", 2, "PASS secret"], ["line", 2, "EPSV"], ["data", 2], ["line", 1, "USER alice"]],
    ),
]


def gen_runs(ctx):
    rng = ctx.rng
    runs = []
    base = list(FIXED)
    for _ in range(ctx.pick(90, 800)):
        cfg = gen_config(rng)
        base.append((cfg, gen_history(rng, cfg)))
    for cfg, events in base:
        for kind, v in variants(rng, events):
            ending = [rng.choice(["vanish", "close", "quit"]) for _ in range(8)]
            runs.append((kind, cfg, v, ending))
    return runs


def nontrivial(cfg, obs):
    tags = set()
    prev = None
    for o in obs:
        r = o["replies"] or []
        ev = o["ev"]
        if 421 in r:
            tags.add("421")
        if ev[0] == "line" and o["delivered"] and ev[2].lower().startswith("user"):
            sid = ev[1]
            t = target_user(cfg, ev[2].rstrip().partition(" ")[2])
            before = prev["suser"][sid] if prev is not None and sid < len(prev["suser"]) else None
            if 530 in r:
                tags.add("530:unknown-user" if t is None else "530:over-limit")
            if before is not None:
                tags.add("relogin:same-user" if before == t else "relogin:other-user")
                if 530 in r and t is not None:
                    tags.add("relogin:as-over-limit-user")
        if ev[0] in ("vanish", "close", "racevanish") and o["delivered"] and prev is not None:
            sid = ev[1]
            if sid < len(prev["suser"]) and prev["suser"][sid] is not None and prev["alive"][sid]:
                tags.add("end-holding-user-slot:" + ev[0])
        if ev[0] in ("vanish", "close", "racevanish", "racevanishconnect", "idle", "srvclose", "raceclose") and o["delivered"]:
            tags.add("end:" + ev[0])
        if o["exc"] and any(c == "ValueError" for c, _ in o["exc"]):
            tags.add("end:handler-error")
        if 221 in r:
            tags.add("end:quit")
        prev = o
    return tags


def _check(ctx, runs, compare_model=True):
    res = Result()
    outs = run_many([(cfg, ev, ending) for _, cfg, ev, ending in runs])
    per_run = []
    todo = []
    for (kind, cfg, ev, ending), obs in zip(runs, outs):
        res.cases += 1
        res.count("cut=" + kind)
        if isinstance(obs, str):
            res.disagreements.append({"correspondence": "harness", "input": {"config": cfg, "events": ev}, "impl": obs, "model": None})
            continue
        tags = nontrivial(cfg, obs)
        for t in tags:
            res.count("has:" + t)
        if tags:
            res.distinct.add(repr((cfg["srv"], cfg["users"], cfg["idle"], ev)))
        res.count("srv_limit=%s" % opt(cfg["srv"]))
        for name, mc in cfg["users"]:
            res.count("user_limit=%s" % opt(mc))
        res.count("anonymous=%d idle_timeout=%d" % (any(n is None for n, _ in cfg["users"]), cfg["idle"]))
        res.count("sessions=%d" % sum(1 for e in ev if e[0] in ("connect", "racevanishconnect")))
        for o in obs:
            if o["ev"][0] == "line" and o["delivered"]:
                res.count("cmd=%s->%s" % (o["ev"][2].split(" ")[0].upper()[:4], ",".join(map(str, o["replies"])) or "none"))
            elif o["ev"][0] == "connect":
                res.count("greeting=%s" % ",".join(map(str, o["replies"])))
        for f in oracle(cfg, ev, obs):
            f["input"]["ending"] = ending
            res.oracle_failures.append(f)
        if compare_model and ctx.model_ok:
            lines, where = model_lines(cfg, obs)
            per_run.append(lines)
            todo.append((cfg, ev, ending, obs, where))
    if compare_model and ctx.model_ok:
        clines, cimpl = counter_cases()
        cout = drive(clines)
        res.lines += len(clines)
        res.cases += len(clines)
        res.count("AvailableConnections-ops", len(clines))
        for l, a, b in zip(clines, cimpl, cout):
            if a != b:
                res.disagreements.append({"correspondence": "acquireE/releaseE/locked vs AvailableConnections", "input": l, "impl": a, "model": b})
        mouts = drive_runs(per_run)
        for (cfg, ev, ending, obs, where), lines, out in zip(todo, per_run, mouts):
            res.lines += len(lines)
            d = compare(cfg, obs, out, where)
            if d:
                if len(res.disagreements) < 15:
                    d.update({"correspondence": "Model.Counters.sysStepOut / Model.Session.step vs real server", "input": {"config": cfg, "events": ev, "ending": ending}})
                    res.disagreements.append(d)
                else:
                    res.count("more_disagreements")
    res.samples = [{"config": r[1], "events": r[2]} for r in (runs[0], runs[len(runs) // 2], runs[-1])]
    return res


def correspondence(ctx):
    from props import c10_extra

    r = _check(ctx, gen_runs(ctx))
    r.merge(c10_extra.run(ctx))
    return r


def search(ctx, prior):
    runs = gen_runs(ctx)
    for d in prior.disagreements:
        inp = d.get("input")
        if isinstance(inp, dict) and "events" in inp:
            runs.insert(0, ("disagreement", inp["config"], inp["events"], inp.get("ending", [])))
    from props import c10_extra

    r = _check(ctx, runs, compare_model=False)
    r.merge(c10_extra.run(ctx))
    return r


def replay(ctx, doc):
    if doc["failure"]["input"].get("kind") in ("iteration-cut", "burst", "tls-sessions"):
        from props import c10_extra

        return c10_extra.replay(doc["failure"]["input"])
    inp = doc["failure"]["input"]
    obs = run_one(inp["config"], inp["events"], inp.get("ending", []))
    for o in obs:
        print(o["ev"], "-> replies", o["replies"], "srv", o["srv"], "ufree", o["ufree"], "alive", o["alive"], "exc", o["exc"])
    f = oracle(inp["config"], inp["events"], obs)
    print(f)
    return bool(f)


# the long-lived process: the same probe session after earlier sessions of the same server (props/history.py)
from props import history as _history  # noqa: E402

correspondence, search, replay = _history.attach(PID, correspondence, search, replay, pasts=['named-an-account-and-left', 'second-login-with-a-listener', 'second-login-with-a-parked-data-connection', 'every-passive-port-busy'])


# somebody else's classes: the documented extension points used the way a third party uses them (props/thirdparty.py)
from props import thirdparty as _thirdparty  # noqa: E402

correspondence, search, replay = _thirdparty.attach(PID, correspondence, search, replay)
