"""Somebody else's machine: the same small sessions in other environments.

The checks run in one environment - UTC, a UTF-8 locale, IPv4 loopback, a served tree of plain files.  Code that is right
here can be wrong in another time zone, under `LANG=C` (an ASCII file-system encoding), on a dual-stack listener, or in a
served tree with symbolic and hard links.  Each CASE below is a small deterministic session on real loopback sockets (and,
where the file system matters, a temporary directory); it runs in a CHILD process per environment and reports what it saw
together with the verdict of its own oracle (the backend's truth, computed in the same child).  The parent compares the
reports across environments where they must agree and collects the children's verdicts.

Run as a module in the child: `python -m props.envs <case>` prints one JSON line."""
import asyncio
import json
import os
import pathlib
import subprocess
import sys
import tempfile
import time

ENVS = {
    "default": {},
    "LANG=C (ascii file-system encoding)": {"LC_ALL": "C", "LANG": "C", "PYTHONUTF8": "0", "PYTHONCOERCECLOCALE": "0"},
    "TZ=JST-9": {"TZ": "JST-9"},
    "TZ=EST5EDT": {"TZ": "EST5EDT,M3.2.0,M11.1.0"},
}
NAMES = ["café", "ü ß", "plain.txt", "наб"]


async def _raw(host, port):
    r, w = await asyncio.open_connection(host, port)

    async def reply():
        lines = []
        while True:
            line = await asyncio.wait_for(r.readline(), 5)
            if not line:
                return None, lines
            s = line.decode("utf-8", "replace").rstrip("\r\n")
            lines.append(s)
            if len(s) >= 4 and s[:3].isdigit() and s[3] == " " and (len(lines) == 1 or s[:3] == lines[0][:3]):
                return s[:3], lines

    async def cmd(text):
        w.write(text.encode("utf-8") + b"\r\n")
        return await reply()

    await reply()
    return r, w, cmd, reply


async def case_memory_names():
    """names outside ASCII and times through a real client and server, memory backend: PWD, MLST, MLSD, LIST, RETR"""
    import aioftp

    out = {"steps": [], "verdicts": []}
    server = aioftp.Server(path_io_factory=aioftp.MemoryPathIO)
    await server.start("127.0.0.1", 0)
    port = server.server.sockets[0].getsockname()[1]
    try:
        c = aioftp.Client(path_io_factory=aioftp.MemoryPathIO)
        await c.connect("127.0.0.1", port)
        await c.login()
        for n in NAMES:
            await c.make_directory("/d/" + n)
            async with c.upload_stream("/d/" + n + "/f") as s:
                await s.write(n.encode("utf-8"))
            await c.change_directory("/d/" + n)
            out["steps"].append(["pwd", str(await c.get_current_directory())])
            await c.change_directory("/")
            st = await c.stat("/d/" + n + "/f")
            out["steps"].append(["stat", n, st.get("type"), st.get("size")])
        for raw in (None, "LIST"):
            ls = await (c.list("/d") if raw is None else c.list("/d", raw_command="LIST"))
            out["steps"].append(["list", raw, sorted((str(p), i.get("type")) for p, i in ls)])
        # the times MLSD reports are the backend's, in UTC
        pio = aioftp.MemoryPathIO(state=server.path_io_factory.state)
        for p, i in await c.list("/d"):
            st = await pio.stat(pathlib.PurePosixPath(str(p)))
            want = time.strftime("%Y%m%d%H%M%S", time.gmtime(st.st_mtime))
            if i.get("modify") != want:
                out["verdicts"].append("MLSD says %r was modified at %s; the backend's st_mtime in UTC is %s" % (str(p), i.get("modify"), want))
        await c.quit()
    finally:
        await server.close()
    return out


async def case_pathio_names():
    """names outside ASCII on the real file system: every command is ANSWERED (done, or refused with 451/550), the session goes on"""
    import aioftp

    out = {"steps": [], "verdicts": []}
    with tempfile.TemporaryDirectory() as d:
        server = aioftp.Server([aioftp.User(base_path=d)], path_io_factory=aioftp.PathIO)
        await server.start("127.0.0.1", 0)
        port = server.server.sockets[0].getsockname()[1]
        try:
            r, w, cmd, reply = await _raw("127.0.0.1", port)
            await cmd("USER anonymous")
            for n in NAMES:
                for line in ("MKD " + n, "CWD " + n, "CWD /", "MLST " + n, "RMD " + n):
                    code, lines = await cmd(line)
                    if code is None:
                        out["verdicts"].append("%r was not answered: the server dropped the session" % line)
                        r, w, cmd, reply = await _raw("127.0.0.1", port)
                        await cmd("USER anonymous")
                    else:
                        out["steps"].append([line, code])
            code, _ = await cmd("PWD")
            if code != "257":
                out["verdicts"].append("PWD afterwards -> %r" % code)
            w.close()
        finally:
            await server.close()
    out["steps"] = []  # (what the file system takes differs between environments: only the verdicts count)
    return out


async def case_client_dates():
    """LIST lines at the edges of the calendar through the client's parsers: a result or ValueError, in any time zone"""
    import aioftp

    out = {"steps": [], "verdicts": []}
    c = aioftp.Client()
    lines = [b"-rw-r--r--   1 ftp ftp 7 Jan 01  0001 x", b"-rw-r--r--   1 ftp ftp 7 Dec 31  9999 x", b"01/01/0001  12:00 AM              7 x", b"12/31/9999  11:59 PM              7 x",
             b"-rw-r--r--   1 ftp ftp 7 Mar 14  2021 x", b"03/14/2021  12:07 AM              7 x", b"-rw-r--r--   1 ftp ftp 7 Feb 29  2020 x"]
    for line in lines:
        try:
            p, i = c.parse_list_line(line)
            out["steps"].append([line.decode(), "ok", i.get("modify")])
        except ValueError:
            out["steps"].append([line.decode(), "ValueError"])
        except Exception as e:  # noqa
            out["steps"].append([line.decode(), type(e).__name__])
            out["verdicts"].append("parse_list_line(%r) raised %s, not ValueError" % (line, type(e).__name__))
    return out


async def case_dual_stack():
    """a server started on every address of the host (host=None): sessions over IPv4 and over IPv6, passive transfers on both"""
    import aioftp

    out = {"steps": [], "verdicts": []}
    server = aioftp.Server(path_io_factory=aioftp.MemoryPathIO)
    try:
        await server.start(None, 0)
    except OSError as e:
        return {"steps": [], "verdicts": [], "skipped": "cannot listen on every address: %s" % e}
    socks = server.server.sockets
    try:
        for s in socks:
            host = "::1" if s.family.name == "AF_INET6" else "127.0.0.1"
            p = s.getsockname()[1]
            try:
                r, w, cmd, reply = await _raw(host, p)
            except OSError as e:
                out["steps"].append([host, "unreachable"])
                continue
            await cmd("USER anonymous")
            for verb in (("EPSV", "PASV") if host == "127.0.0.1" else ("EPSV",)):
                code, lines = await cmd(verb)
                if code not in ("227", "229"):
                    out["verdicts"].append("%s over %s -> %r" % (verb, host, code))
                    continue
                txt = lines[-1]
                dport = int(txt.split("|")[-2]) if verb == "EPSV" else (lambda x: int(x[4]) * 256 + int(x[5]))(txt[txt.index("(") + 1 : txt.index(")")].split(","))
                try:
                    dr, dw = await asyncio.wait_for(asyncio.open_connection(host, dport), 3)
                except (OSError, asyncio.TimeoutError) as e:
                    out["verdicts"].append("the data port announced by %s to a client that came over %s does not accept a connection on that address (%s)" % (verb, host, type(e).__name__))
                    continue
                code, _ = await cmd("LIST")
                code2, _ = await reply() if code == "150" else (code, None)
                await dr.read()
                dw.close()
                if (code, code2) != ("150", "226"):
                    out["verdicts"].append("LIST after %s over %s -> %r %r" % (verb, host, code, code2))
            code, _ = await cmd("PWD")
            out["steps"].append([host, code])
            w.close()
    finally:
        await server.close()
    return out


def _link_tree(d):
    root = pathlib.Path(d)
    (root / "store").mkdir()
    (root / "incoming").mkdir()
    (root / "mirror").mkdir()
    (root / "store" / "feed.bin").write_bytes(b"old content")
    os.symlink("../store/feed.bin", root / "incoming" / "feed.bin")
    os.link(root / "store" / "feed.bin", root / "mirror" / "feed.bin")
    (root / "real").mkdir()
    (root / "real" / "a.txt").write_bytes(b"A")
    (root / "real" / "sub").mkdir()
    (root / "real" / "sub" / "b.txt").write_bytes(b"BB")
    os.symlink("real", root / "alias")
    os.symlink("real/a.txt", root / "a-link")
    (root / "empty").mkdir()
    os.symlink("empty", root / "empty-link")


async def case_links():
    """a served tree with symbolic and hard links: an upload through one name shows under every name; both file-system
    backends do the same thing to a link; an upload of a local tree with a link to a directory carries everything"""
    import aioftp

    out = {"steps": [], "verdicts": []}
    # (a file system that takes no links is no place for this case)
    try:
        with tempfile.TemporaryDirectory() as d:
            _link_tree(d)
    except OSError as e:
        return {"steps": [], "verdicts": [], "skipped": "this file system takes no links: %s" % e}
    # (1) upload through a link, then every other name
    for cls in (aioftp.PathIO, aioftp.AsyncPathIO):
        with tempfile.TemporaryDirectory() as d:
            _link_tree(d)
            server = aioftp.Server([aioftp.User(base_path=d)], path_io_factory=cls)
            await server.start("127.0.0.1", 0)
            port = server.server.sockets[0].getsockname()[1]
            try:
                c = aioftp.Client(path_io_factory=aioftp.MemoryPathIO)
                await c.connect("127.0.0.1", port)
                await c.login()
                async with c.upload_stream("/incoming/feed.bin") as s:
                    await s.write(b"NEW content, longer")
                for name in ("/incoming/feed.bin", "/store/feed.bin", "/mirror/feed.bin"):
                    async with c.download_stream(name) as s:
                        got = await s.read()
                    size = (await c.stat(name)).get("size")
                    if got != b"NEW content, longer" or str(size) != "19":
                        out["verdicts"].append("%s: after the 226 of an upload to /incoming/feed.bin (a link to /store/feed.bin, which /mirror/feed.bin is a hard link of), %s delivers %r, size %s" % (cls.__name__, name, got, size))
                await c.quit()
            finally:
                await server.close()
    # (2) the same operations aimed at links, on both file-system backends
    seen = {}
    for cls in (aioftp.PathIO, aioftp.AsyncPathIO):
        with tempfile.TemporaryDirectory() as d:
            _link_tree(d)
            pio = cls()
            root = pathlib.Path(d)
            rec = []
            for name, args in (("unlink", ["a-link"]), ("rmdir", ["empty-link"]), ("unlink", ["empty-link"]), ("rename", ["alias", "alias2"]), ("is_dir", ["alias2"]), ("exists", ["real/a.txt"]), ("rmdir", ["alias2"])):
                try:
                    r = await getattr(pio, name)(*[root / a for a in args])
                    rec.append([name, args, "ok", None if r is None else bool(r)])
                except aioftp.PathIOError as e:
                    rec.append([name, args, "PathIOError", type(e.reason[1]).__name__ if e.reason else None])
            tree = sorted((str(p.relative_to(root)), "link" if p.is_symlink() else "dir" if p.is_dir() else "file") for p in root.rglob("*"))
            seen[cls.__name__] = [rec, tree]
    if seen["PathIO"] != seen["AsyncPathIO"]:
        da = [a for a, b in zip(seen["PathIO"][0], seen["AsyncPathIO"][0]) if a != b][:2]
        db = [b for a, b in zip(seen["PathIO"][0], seen["AsyncPathIO"][0]) if a != b][:2]
        out["verdicts"].append("operations aimed at symbolic links: PathIO %r / AsyncPathIO %r; trees afterwards %s" % (da, db, "equal" if seen["PathIO"][1] == seen["AsyncPathIO"][1] else "differ"))
    # (3) upload of a local tree that holds a link to one of its own directories
    with tempfile.TemporaryDirectory() as d:
        root = pathlib.Path(d)
        (root / "site" / "releases" / "v2").mkdir(parents=True)
        (root / "site" / "releases" / "v2" / "index.html").write_bytes(b"<v2>")
        (root / "site" / "releases" / "v1").mkdir()
        (root / "site" / "releases" / "v1" / "index.html").write_bytes(b"<v1>")
        os.symlink("releases/v2", root / "site" / "current")
        server = aioftp.Server(path_io_factory=aioftp.MemoryPathIO)
        await server.start("127.0.0.1", 0)
        port = server.server.sockets[0].getsockname()[1]
        try:
            c = aioftp.Client()
            await c.connect("127.0.0.1", port)
            await c.login()
            await c.upload(root / "site", "/")
            got = sorted(str(p) for p, i in await c.list("/site", recursive=True) if i["type"] == "file")
            want = ["/site/current/index.html", "/site/releases/v1/index.html", "/site/releases/v2/index.html"]
            if got != want:
                out["verdicts"].append("upload of a local tree in which `current` is a link to `releases/v2`: the server holds the files %r, want %r" % (got, want))
            await c.quit()
        finally:
            await server.close()
    # (4) a linked directory inside the base and a permission entry on it
    with tempfile.TemporaryDirectory() as d, tempfile.TemporaryDirectory() as other:
        root = pathlib.Path(d)
        (root / "pub").mkdir()
        (pathlib.Path(other) / "secret.txt").write_bytes(b"s")
        os.symlink(other, root / "pub" / "archive")
        (root / "pub" / "incoming").mkdir()
        user = aioftp.User(base_path=d, permissions=[aioftp.Permission("/", readable=True, writable=False), aioftp.Permission("/pub/archive", readable=False, writable=False), aioftp.Permission("/pub/incoming", readable=True, writable=True)])
        server = aioftp.Server([user], path_io_factory=aioftp.PathIO)
        await server.start("127.0.0.1", 0)
        port = server.server.sockets[0].getsockname()[1]
        try:
            r, w, cmd, reply = await _raw("127.0.0.1", port)
            await cmd("USER anonymous")
            for line, want in (("CWD /pub/archive", "550"), ("MLST /pub/archive/secret.txt", "550"), ("MKD /pub/incoming/new", "257"), ("PWD", "257")):
                code, lines = await cmd(line)
                if code != want:
                    out["verdicts"].append("/pub/archive is a link out of the base directory with a permission entry of its own (not readable): %r -> %r (want %s)" % (line, code, want))
            w.close()
        finally:
            await server.close()
    return out


CASES = {"memory-names": case_memory_names, "pathio-names": case_pathio_names, "client-dates": case_client_dates, "dual-stack": case_dual_stack, "links": case_links}
# which environments a case is run in, and whether its steps must be the same in all of them
PLAN = {
    "memory-names": (list(ENVS), True),
    "pathio-names": (["default", "LANG=C (ascii file-system encoding)"], False),
    "client-dates": (["default", "TZ=JST-9", "TZ=EST5EDT"], False),
    "dual-stack": (["default"], False),
    "links": (["default"], False),
}
BY_PROPERTY = {
    "C01": ["links"], "C04": ["links"], "C05": ["dual-stack", "memory-names"], "C06": ["memory-names"], "C07": ["memory-names", "client-dates"], "C08": ["memory-names"],
    "C09": ["links"], "C12": ["dual-stack"], "C13": ["pathio-names"], "C18": ["links"], "C19": ["client-dates", "pathio-names"],
}


def child(case, env):
    repo = os.environ.get("AIOFTP_REPO", "/repo")
    here = os.path.dirname(os.path.dirname(os.path.abspath(__file__)))
    e = dict(os.environ)
    for k in ("LC_ALL", "LANG", "TZ", "PYTHONUTF8", "PYTHONCOERCECLOCALE"):
        e.pop(k, None)
    e.update(env)
    e["PYTHONPATH"] = os.path.join(repo, "src") + os.pathsep + here
    e["PYTHONIOENCODING"] = "utf-8"
    try:
        p = subprocess.run([sys.executable, "-m", "props.envs", case], capture_output=True, timeout=120, env=e, cwd=here)
        return json.loads(p.stdout.decode("utf-8").strip().splitlines()[-1])
    except Exception as ex:  # noqa
        return {"error": "%s: %s" % (type(ex).__name__, str(ex)[:200])}


def judge(pid, case):
    envs, same = PLAN[case]
    fails = []
    reports = {}
    for name in envs:
        rep = child(case, ENVS[name])
        reports[name] = rep
        inp = {"kind": "environment", "case": case, "environment": name}
        if "skipped" in rep:
            continue
        if "error" in rep:
            fails.append({"input": inp, "what": "the case %r did not run to its end in the environment %r (%s)" % (case, name, rep["error"]), "signature": "%s:environment:%s:failed" % (pid, case)})
            continue
        for v in rep.get("verdicts", []):
            fails.append({"input": inp, "what": "in the environment %r: %s" % (name, v), "signature": "%s:environment:%s" % (pid, case)})
    if same and "default" in reports and "steps" in reports["default"]:
        for name, rep in reports.items():
            if "steps" in rep and rep["steps"] != reports["default"]["steps"]:
                d = [(a, b) for a, b in zip(rep["steps"], reports["default"]["steps"]) if a != b][:2]
                fails.append({"input": {"kind": "environment", "case": case, "environment": name}, "what": "the same session in the environment %r and in the default one: %r / %r" % (name, [x[0] for x in d], [x[1] for x in d]),
                              "signature": "%s:environment:%s:differs" % (pid, case)})
    return fails


def run(ctx, pid):
    from framework import Result

    res = Result()
    for case in BY_PROPERTY.get(pid, []):
        res.cases += len(PLAN[case][0])
        res.count("environment case=" + case, len(PLAN[case][0]))
        res.distinct.add(("environment", case))
        res.oracle_failures += judge(pid, case)
    return res


def attach(pid, correspondence, search, replay_fn):
    def corr(ctx):
        r = correspondence(ctx)
        r.merge(run(ctx, pid))
        return r

    def srch(ctx, prior):
        # (a search of the property's own that crashes on the changed code must not hide what this family finds)
        try:
            r = search(ctx, prior)
        except Exception:
            r = run(ctx, pid)
            if not r.oracle_failures:
                raise
            return r
        r.merge(run(ctx, pid))
        return r

    def rep(ctx, doc):
        inp = (doc.get("failure") or {}).get("input")
        if isinstance(inp, dict) and inp.get("kind") == "environment":
            fails = judge(pid, inp["case"])
            for f in fails:
                print(f["signature"], f["what"])
            return bool(fails)
        return replay_fn(ctx, doc)

    return corr, srch, rep


if __name__ == "__main__":
    if "TZ" in os.environ:
        time.tzset()
    try:
        out = asyncio.run(CASES[sys.argv[1]]())
    except Exception as e:  # noqa
        import traceback

        out = {"error": "%s: %s" % (type(e).__name__, e), "trace": traceback.format_exc()[-600:]}
    print(json.dumps(out))
