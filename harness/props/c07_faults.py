"""C07, faults and late data connections: a listing that is reported complete (226 / 200) lists EVERY entry of the
directory the command addressed when it was received.

(a) a backend call made for one entry (stat, exists, is_file ...) fails in the middle of LIST / MLSD: the server
    may fail the command (451) but must not complete it with that entry silently left out;
(b) LIST / MLSD with an empty or relative argument, then CWD / CDUP, and only then the data connection: the
    entries listed are those of the directory addressed at receive time (harness/latewire.py)."""
import asyncio
import multiprocessing
import os

import latewire as LW
import simnet
import spyio
import world as W
from framework import Result
from props import late_common as LC

TREE = [
    (("a",), None), (("a", "x1.txt"), b"one"), (("a", "x2.bin"), b"twotwo"), (("a", "sub"), None), (("a", "sub", "s.txt"), b"s"),
    (("b",), None), (("b", "y1.txt"), b"b-one"), (("b", "y2.txt"), b"b-two"), (("b", "sub"), None), (("b", "sub", "t.txt"), b"t"), (("top.txt",), b"top"),
]
NAMES = {"/a": ["x1.txt", "x2.bin", "sub"], "/b": ["y1.txt", "y2.txt", "sub"], "/": ["a", "b", "top.txt"], "/a/sub": ["s.txt"], "/b/sub": ["t.txt"]}


def listed_names(data, verb):
    out = []
    for line in (data or b"").decode("utf-8", "replace").splitlines():
        if not line.strip():
            continue
        if verb == "MLSD":
            out.append(line.partition("; ")[2] if "; " in line else line.partition(" ")[2])
        else:
            out.append(line[line.rfind(" ") + 1 :] if False else line.split(None, 8)[-1])
    return out


async def _fault_session(loop, verb, k):
    spy = spyio.Spy()
    wd = W.World(loop, [W.UserSpec("bob", None)], spy=spy)
    await wd.start()
    try:
        wd.set_tree(TREE)
        raw = await wd.raw_client()
        await W.run_line(wd, raw, b"USER bob")
        await W.run_line(wd, raw, b"CWD /a")
        await W.run_line(wd, raw, b"EPSV")
        await W.data_connect(wd, raw)
        n0 = spy.n
        if k is not None:
            spy.fail_at[n0 + k] = OSError(5, "injected fault at backend call %d of %s" % (k, verb))
        c0 = len(raw.replies)
        raw.send_raw(verb.encode() + b"\r\n")
        dr, dw = raw.data
        try:
            data = await asyncio.wait_for(dr.read(), 30)
        except Exception:  # noqa
            data = None
        dw.close()
        raw.data = None
        await loop.settle()
        await asyncio.sleep(1.0)
        await loop.settle()
        codes = [int(c) for c, _ in raw.replies[c0:] if str(c).isdigit()]
        calls = [n for _, n, _ in spy.log[n0:]]
        raw.close()
        await loop.settle()
        return {"codes": codes, "data": data, "calls": calls}
    finally:
        try:
            await wd.stop()
        except Exception:  # noqa
            wd.finish()


def _fault_job(args):
    try:
        return simnet.run(_fault_session, *args)
    except BaseException as e:  # noqa
        return "HARNESS-ERROR %s: %s" % (type(e).__name__, e)


def late_plans():
    plans = []
    for verb in ("MLSD", "LIST", "MLSD .", "LIST .", "MLSD sub", "LIST sub"):
        for inter in (["CWD /b"], ["CDUP"], ["CWD /b", "PWD"], ["CWD /a/sub"]):
            plans.append([("cmd", "CWD /a"), ("late", verb, inter)])
    return plans


def late_oracle(plan, recs):
    for r in recs:
        if not r.get("late") or not r.get("accepted"):
            continue
        verb, _, arg = r["cmd"].partition(" ")
        mm = LC.worker_target_mismatch(r)
        if mm:
            return {"what": "%r was accepted in %r; after %r the worker listed %r instead of %r" % (r["cmd"], r["state"]["cwd"], r["interposed"], mm[1], mm[2]), "signature": "C07:late:listing-of-another-directory"}
        fin = r["replies"][1:] if r["replies"][:1] == [150] else r["replies"]
        if any(c in (226, 200) for c in fin):
            _, target = LC.want_path(r)
            want = sorted(NAMES.get("/" + "/".join(target), []))
            got = sorted(listed_names(r["data"], verb))
            if want != got:
                return {"what": "%r accepted in %r (then %r) listed %r; the directory it addressed holds %r" % (r["cmd"], r["state"]["cwd"], r["interposed"], got, want), "signature": "C07:late:listing-of-another-directory"}
    return None


def run(ctx):
    res = Result()
    # (a) faults
    jobs = []
    for verb in ("LIST", "MLSD"):
        base = _fault_job((verb, None))
        if isinstance(base, str):
            res.disagreements.append({"correspondence": "C07 fault harness", "input": verb, "impl": base})
            continue
        if sorted(listed_names(base["data"], verb)) != sorted(NAMES["/a"]):
            res.oracle_failures.append({"input": {"kind": "listing-fault", "verb": verb, "fault_at_call": None}, "what": "fault-free %s of /a listed %r" % (verb, listed_names(base["data"], verb)), "signature": "C07:wire:listing-differs-from-backend"})
        for k in range(len(base["calls"])):
            jobs.append((verb, k, base["calls"][k]))
    mp = multiprocessing.get_context("fork")
    with mp.Pool(min(16, os.cpu_count() or 4)) as pool:
        outs = pool.map(_fault_job, [(v, k) for v, k, _ in jobs], chunksize=2)
    for (verb, k, call), o in zip(jobs, outs):
        res.cases += 1
        res.count("listing_fault_in=" + call)
        res.distinct.add(("listing-fault", verb, k))
        if isinstance(o, str):
            res.disagreements.append({"correspondence": "C07 fault harness", "input": [verb, k], "impl": o})
            continue
        fin = [c for c in o["codes"] if c >= 200]
        if fin and fin[-1] in (226, 200):
            got = sorted(listed_names(o["data"], verb))
            if got != sorted(NAMES["/a"]):
                res.oracle_failures.append({
                    "input": {"kind": "listing-fault", "verb": verb, "fault_at_call": k, "call": call},
                    "what": "%s of /a with backend call %d (%s) failing was reported complete (%r) but lists %r of %r" % (verb, k, call, o["codes"], got, sorted(NAMES["/a"])),
                    "signature": "C07:listing-incomplete-after-backend-fault",
                })
    # (b) late data connection
    users = [W.UserSpec("bob", None)]
    res.merge(LC.run_family(ctx, "C07", late_plans(), lambda p: (users, [None], TREE, p, ["USER bob"]), late_oracle))
    return res


def replay(inp):
    if inp.get("kind") == "listing-fault":
        o = _fault_job((inp["verb"], inp["fault_at_call"]))
        print(o)
        if isinstance(o, str):
            return True
        fin = [c for c in o["codes"] if c >= 200]
        return bool(fin) and fin[-1] in (226, 200) and sorted(listed_names(o["data"], inp["verb"])) != sorted(NAMES["/a"])
    plan = [tuple(x) for x in inp["late_plan"]]
    recs = LW.run_plan(([W.UserSpec("bob", None)], [None], TREE, plan, ["USER bob"]))
    f = late_oracle(plan, recs) if not isinstance(recs, str) else {"what": recs}
    print(f)
    return f is not None
