"""C15  speed limits bound the cumulative rate, compose, and cost nothing when off.

Correspondence (no network): the real `aioftp.Throttle` / `StreamThrottle` / `ThrottleStreamIO` run under
a virtual-time event loop (harness/vloop.py) against fake readers/writers whose raw I/O takes a chosen
virtual duration; the Lean model (Model/Throttle.lean) is run on the same inputs:

* unit ops      arbitrary throttle states (limit None/0/negative/positive, start None, negative sum):
                wait delay, append (+ fold decision), limit setter, clone, Python `round`;
* stream        one stream, 1..4 throttle pairs: the model *predicts* every I/O start time, fold
                decision and the final state from (chunk size, duration, gap) alone;
* sys           1..3 streams x 2 directions over shared / cloned throttles: the implementation's event
                order (the scheduler's choice) is fed to `Model.Throttling.Sys.run`, which must accept it and
                reproduce every wait end, fold decision and throttle state;
* wiring        real `Server.dispatcher` coroutines on in-memory readers/writers, USER logins, then the
                `throttles` dicts of the live streams are read off and compared with `Model.Throttling.ServerW`;
                real `Client.__init__`/`StreamThrottle.from_limits`/`clone`.

Oracle (implementation output only, exact `Fraction` arithmetic): the property's inequality on the
recorded trace, least-wait, zero wait when unlimited, frame, and the wiring facts.
"""
import ast
import asyncio
import contextvars
import inspect
import json
import logging
import os
import sys
from fractions import Fraction as Fr

from framework import Result, drive

import vloop

PID = "C15"
RULE = (
    "inputs = (throttle objects with limit/reset_rate, streams with ordered dicts of throttle pairs sharing or "
    "cloning them, per (stream, direction) a trace of (chunk size, raw I/O duration, idle gap)); times on the "
    "1/64 grid, limits powers of two (exact float arithmetic) plus an inexact class (limits 3,5,10,1000,...) "
    "compared to 1e-9; a case is non-trivial when at least one limited throttle made a caller wait or folded; "
    "distinct = distinct (topology, limits, reset rates, trace) scenarios that waited or folded"
)
EXPLANATION = (
    "Theorems in Properties/C15.lean hold for every event trace of Model.Throttling.Sys (all limits, reset rates, chunk "
    "sizes, durations, gaps, schedules); this run ties Model.Throttling.{Throttle,waitAll,appendAll,Sys.step,ServerW} to the "
    "live aioftp.Throttle/ThrottleStreamIO/Server.dispatcher and evaluates the cumulative-rate oracle on the "
    "implementation's own trace."
)
ASSUMPTIONS = [
    "asyncio: sleep(d) returns d later on loop.time(); asyncio.wait(tasks) returns when the last task is done; "
    "timers fire at their deadline; create_task copies the context (used only by the recorder)",
    "CPython round() is round-half-even to int; float arithmetic is exact on the generated dyadic inputs "
    "(power-of-two limits); for other limits float rounding inside sum/limit is bounded by 1e-9, not modelled",
    "the set of throttles attached to a stream is fixed while a trace runs (it changes only in Server.user)",
    "limits are int or None (as documented); reset_rate rational",
    "end-to-end wiring through real sockets (PASV data connections) is read from the source by the translator "
    "(Generated/ThrottleWiring.lean), not executed here",
]
GENERATED_OBLIGATIONS = ["ThrottleWiring.lean"]
TRUSTED_EXTRA = ["harness/vloop.py virtual clock; recorder wraps Throttle.wait per instance (observation only)"]

GRID = 64


def _ensure_generated():
    """Generated/ThrottleWiring.lean must exist and be current before the Lean build.  harness/extract.py
    discovers harness/extract_throttle.py by itself once merged; writing the same content here as well keeps
    this module self-contained (identical content => the file is left untouched)."""
    try:
        import extract
        import extract_throttle

        extract.write_if_changed(os.path.join(extract.GEN, "ThrottleWiring.lean"), extract_throttle.gen_throttle_wiring())
    except Exception:
        pass  # reported by source_wiring_oracle / the build


_ensure_generated()
CUR = contextvars.ContextVar("c15_proc", default=None)
_LOOP = None


def get_loop():
    global _LOOP
    if _LOOP is None or _LOOP.is_closed():
        _LOOP = vloop.VLoop()
    return _LOOP


# ------------------------------------------------------------------------------------------------
# encoding
# ------------------------------------------------------------------------------------------------
def fr(x):
    """exact rational of a JSON time ('num/den' string, int, or float)"""
    if isinstance(x, str):
        return Fr(x)
    return Fr(x)


def enc_rat(x):
    x = Fr(x)
    return "%d/%d" % (x.numerator, x.denominator)


def enc_num(x):
    """ints print bare, anything else as an exact fraction (so a float where an int belongs is visible)"""
    if isinstance(x, bool):
        return "B%d" % x
    if isinstance(x, int):
        return str(x)
    return enc_rat(x)


def enc_opt(x, f=enc_num):
    return "N" if x is None else f(x)


def enc_thr_state(limit, reset, start, sum_):
    return "%s;%s;%s;%s" % (enc_opt(limit), enc_rat(reset), enc_opt(start, enc_rat), enc_num(sum_))


def enc_thr(t):
    return enc_thr_state(t._limit, t.reset_rate, t._start, t._sum)


def enc_ids(ids):
    return "~" if not ids else ",".join(str(i) for i in ids)


# ------------------------------------------------------------------------------------------------
# fake raw streams
# ------------------------------------------------------------------------------------------------
class FakeReader:
    def __init__(self, log):
        self.log = log
        self.plan = []

    async def _io(self):
        n, d = self.plan.pop(0)
        loop = asyncio.get_running_loop()
        self.log.append(("b", CUR.get(), loop.time(), n))
        if d:
            await asyncio.sleep(d)
        return b"x" * n

    async def read(self, count=-1):
        return await self._io()

    async def readline(self):
        return await self._io()

    async def readexactly(self, count):
        return await self._io()


class FakeTransport:
    def get_extra_info(self, name, default=None):
        if name == "peername":
            return ("127.0.0.1", 40000)
        if name == "sockname":
            return ("127.0.0.1", 21)
        return default


class FakeWriter:
    def __init__(self, log):
        self.log = log
        self.plan = []
        self.transport = FakeTransport()
        self.closed = False
        self.written = []

    def write(self, data):
        if self.plan:
            n, d = self.plan[0]
            loop = asyncio.get_running_loop()
            self.log.append(("b", CUR.get(), loop.time(), len(data)))
        self.written.append(bytes(data))

    async def drain(self):
        if self.plan:
            n, d = self.plan.pop(0)
            if d:
                await asyncio.sleep(d)

    def close(self):
        self.closed = True

    async def wait_closed(self):
        return None


# ------------------------------------------------------------------------------------------------
# scenario -> implementation trace
# ------------------------------------------------------------------------------------------------
def build_objects(sc):
    """real throttle pairs, dicts and streams of a scenario; returns (throttles flat list, streams, logs)"""
    import aioftp
    from aioftp.common import StreamThrottle, Throttle, ThrottleStreamIO

    pairs = []
    for p in sc["pairs"]:
        if "clone_of" in p:
            src = pairs[p["clone_of"]]
            pairs.append(src.clone())
        elif p.get("from_limits"):
            pairs.append(StreamThrottle.from_limits(p["r"][0], p["w"][0]))
        else:
            pairs.append(
                StreamThrottle(
                    read=Throttle(limit=p["r"][0], reset_rate=float(fr(p["r"][1]))),
                    write=Throttle(limit=p["w"][0], reset_rate=float(fr(p["w"][1]))),
                )
            )
        for pre in p.get("pre", []):
            # memory put into the object before anybody clones it / uses it
            d, n, st = pre
            getattr(pairs[-1], d).append(b"x" * n, float(fr(st)))
    flat = []
    for st in pairs:
        flat += [st.read, st.write]
    log = []
    dicts = [dict((name, pairs[p]) for name, p in d) for d in sc["dicts"]]
    streams = []
    for di in sc["streams"]:
        r, w = FakeReader(log), FakeWriter(log)
        streams.append((ThrottleStreamIO(r, w, throttles=dicts[di]), r, w))
    return flat, streams, log


def proc_ids(sc, j):
    pr = sc["procs"][j]
    d = sc["dicts"][sc["streams"][pr["stream"]]]
    off = 0 if pr["dir"] == "read" else 1
    return [2 * p + off for _, p in d]


def instrument(t, log):
    orig = t.wait

    async def wait():
        log.append(("w", CUR.get(), asyncio.get_running_loop().time()))
        await orig()

    t.wait = wait


def run_impl(sc):
    """returns dict(store0=[enc], events=[...], snaps=...) from the real objects"""
    flat, streams, log = build_objects(sc)
    for t in flat:
        instrument(t, log)
    store0 = [enc_thr(t) for t in flat]
    init = [(t._limit, Fr(t.reset_rate), None if t._start is None else Fr(t._start), t._sum) for t in flat]
    loop = get_loop()

    async def proc(j):
        CUR.set(j)
        pr = sc["procs"][j]
        stream, r, w = streams[pr["stream"]]
        for k, (n, d, g) in enumerate(pr["steps"]):
            d = float(fr(d))
            g = float(fr(g))
            if g:
                await asyncio.sleep(g)
            log.append(("c?", j, loop.time()))
            if pr["dir"] == "read":
                r.plan.append((n, d))
                if pr.get("kind", "read") == "readline" or (pr.get("kind") == "mixed" and k % 2):
                    data = await stream.readline()
                else:
                    data = await stream.read(n)
                assert len(data) == n
            else:
                w.plan.append((n, d))
                await stream.write(b"y" * n)
            log.append(("d", j, loop.time(), [(t._limit, t.reset_rate, t._start, t._sum) for t in flat]))

    async def main():
        await asyncio.gather(*[asyncio.create_task(proc(j)) for j in range(len(sc["procs"]))])

    vloop.run(main(), loop=loop, at=0.0)
    # post-process: the call event sits where the throttle state was actually read
    events = []
    pending = {}
    for e in log:
        if e[0] == "c?":
            ev = ["c", e[1], Fr(e[2])]
            pending[e[1]] = ev
            events.append(ev)
        elif e[0] == "w":
            ev = pending.pop(e[1], None)
            if ev is not None:
                for i in range(len(events) - 1, -1, -1):
                    if events[i] is ev:
                        del events[i]
                        break
                events.append(["c", e[1], Fr(e[2])])
        elif e[0] == "b":
            pending.pop(e[1], None)
            events.append(["b", e[1], Fr(e[2]), e[3]])
        elif e[0] == "d":
            snap = [(l, Fr(rr), None if s is None else Fr(s), m) for (l, rr, s, m) in e[3]]
            events.append(["d", e[1], Fr(e[2]), snap])
    return {"store0": store0, "init": init, "events": events}


def impl_outputs(sc, tr):
    """canonical per-event outputs of the implementation, same format as the driver's `sys`"""
    outs = []
    cur = list(tr["init"])
    nxt_begin = {}
    # begin time of the I/O that follows each call
    evs = tr["events"]
    for i in range(len(evs) - 1, -1, -1):
        e = evs[i]
        if e[0] == "b":
            nxt_begin[e[1]] = e[2]
        elif e[0] == "c":
            e.append(nxt_begin.get(e[1]))
    for e in evs:
        if e[0] == "c":
            outs.append(enc_rat(e[3]) if e[3] is not None else "?")
        elif e[0] == "b":
            outs.append("ok")
        else:
            ids = proc_ids(sc, e[1])
            snap = e[3]
            flags = ""
            for i in ids:
                prev, new = cur[i], snap[i]
                flags += "1" if (prev[2] is not None and new[2] != prev[2]) else "0"
            outs.append((flags or "-") + ":" + ("+".join(enc_thr_state(*snap[i]) for i in ids) if ids else "~"))
            cur = list(snap)
    return outs


def sys_line(sc, tr):
    evs = []
    for e in tr["events"]:
        if e[0] == "c":
            evs.append("c:%d:%s" % (e[1], enc_rat(e[2])))
        elif e[0] == "b":
            evs.append("b:%d:%s:%d" % (e[1], enc_rat(e[2]), e[3]))
        else:
            evs.append("d:%d:%s" % (e[1], enc_rat(e[2])))
    procs = ";".join(enc_ids(proc_ids(sc, j)) for j in range(len(sc["procs"])))
    return "throttle sys %s %s %s" % ("|".join(tr["store0"]), procs, "|".join(evs) if evs else "~")


def stream_line(sc, tr):
    pr = sc["procs"][0]
    steps = "|".join("%d:%s:%s" % (n, enc_rat(fr(d)), enc_rat(fr(g))) for n, d, g in pr["steps"])
    return "throttle stream %s %s 0 %s" % ("|".join(tr["store0"]), enc_ids(proc_ids(sc, 0)), steps or "~")


def impl_stream_output(sc, tr):
    ids = proc_ids(sc, 0)
    outs = impl_outputs(sc, tr)
    recs = []
    call = None
    begin = None
    for e, o in zip(tr["events"], outs):
        if e[0] == "c":
            call = e[2]
        elif e[0] == "b":
            begin = e[2]
        else:
            recs.append("%s:%s:%s" % (enc_rat(call), enc_rat(begin), o.split(":")[0]))
            last = e
    if not recs:
        return "~ %s 0/1" % "|".join(tr["store0"])
    final = "|".join(enc_thr_state(*s) for s in last[3])
    return "%s %s %s" % ("|".join(recs), final, enc_rat(last[2]))


# ------------------------------------------------------------------------------------------------
# oracle: the property, on the implementation's trace only
# ------------------------------------------------------------------------------------------------
DRIFT = "C15:fold-rounding-drift"


def oracle(sc, tr, eps=Fr(0)):
    """The property, literally, on the implementation's trace: list of (signature, what).

    For every throttle x with a positive limit L, at every instant an I/O starts on a stream holding x:
        bytes started so far on all streams holding x  <=  L * (T - t_first_io) + one block per such stream
    (the block in flight, else the stream's last one); a start that was delayed is delayed no longer than
    some limited throttle requires; no positive limit in this direction => no delay; an append touches
    only the throttles of its own stream.  A failure that disappears when half a byte per *inexact* fold
    (round() changed elapsed*limit) is granted is classified DRIFT (known finding), anything else is new.
    eps: tolerance for the inexact (non power-of-two limit) class."""
    fails = []
    nthr = len(tr["init"])
    users = {x: [j for j in range(len(sc["procs"])) if x in proc_ids(sc, j)] for x in range(nthr)}
    lim = [tr["init"][x][0] for x in range(nthr)]
    on = [l is not None and l > 0 for l in lim]
    moved = [0] * nthr  # bytes whose I/O has started, per throttle
    accounted = [0] * nthr  # bytes of completed I/Os, per throttle
    first_begin = [None] * nthr
    stamp0 = [None] * nthr  # start stamp of the first completed I/O
    inexact = [0] * nthr  # folds in which round() was not the identity
    for x in range(nthr):
        # memory the objects were built with counts as accounted from their initial start stamp
        if tr["init"][x][2] is not None:
            stamp0[x] = first_begin[x] = tr["init"][x][2]
            accounted[x] = moved[x] = tr["init"][x][3]
    last_block = {}
    inflight = {}
    call = {}
    at_call = {}
    cur = list(tr["init"])
    prev_t = Fr(0)
    for idx, e in enumerate(tr["events"]):
        kind, j = e[0], e[1]
        ids = proc_ids(sc, j)
        t = e[2]
        if t < prev_t:
            fails.append(("C15:clock", "event %d goes back in time" % idx))
        prev_t = t
        if kind == "c":
            call[j] = t
            at_call[j] = (list(accounted), list(stamp0), list(inexact))
        elif kind == "b":
            n = e[3]
            w = call[j]
            inflight[j] = (t, n)
            last_block[j] = n
            if t < w:
                fails.append(("C15:clock", "I/O of stream %d starts before it was requested" % j))
            active = [x for x in ids if on[x]]
            if not active and t != w:
                fails.append(
                    ("C15:unlimited-delay", "stream %d has no positive limit in this direction but waited %s s" % (j, t - w))
                )
            if t > w + eps and active:
                # least wait: some limited throttle is exactly exhausted at the start instant
                acc, st0, inx = at_call[j]
                tight = drift_tight = False
                for x in active:
                    if st0[x] is None:
                        continue
                    need = lim[x] * (t - st0[x]) - eps * max(1, lim[x])
                    if acc[x] >= need:
                        tight = True
                    if acc[x] >= need - Fr(inx[x], 2):
                        drift_tight = True
                if not tight:
                    fails.append(
                        (
                            DRIFT if drift_tight else "C15:extra-delay",
                            "stream %d was held from %s to %s; no limited throttle of it needed that long%s"
                            % (j, w, t, " (within half a byte per inexact fold)" if drift_tight else ""),
                        )
                    )
            for x in ids:
                if on[x]:
                    moved[x] += n
                    if first_begin[x] is None:
                        first_begin[x] = t
                    blocks = sum(last_block.get(k, 0) for k in users[x])
                    allowance = lim[x] * (t - first_begin[x]) + blocks + eps * max(1, lim[x])
                    if moved[x] > allowance:
                        drift = moved[x] <= allowance + Fr(inexact[x], 2)
                        fails.append(
                            (
                                DRIFT if drift else "C15:rate-bound",
                                "throttle %d (limit %s B/s): %d bytes started by t=%s, limit*(t-t0)=%s, one block per stream=%d, "
                                "ahead by %s%s"
                                % (
                                    x,
                                    lim[x],
                                    moved[x],
                                    t,
                                    lim[x] * (t - first_begin[x]),
                                    blocks,
                                    moved[x] - lim[x] * (t - first_begin[x]) - blocks,
                                    " (<= %d inexact fold(s)/2)" % inexact[x] if drift else "",
                                ),
                            )
                        )
        else:
            st, n = inflight.pop(j)
            snap = e[3]
            for x in range(nthr):
                if x not in ids and snap[x] != cur[x]:
                    fails.append(("C15:frame", "append of stream %d changed throttle %d which it does not hold" % (j, x)))
                if x in ids and not on[x] and snap[x] != cur[x]:
                    fails.append(("C15:frame", "append changed the memory of unlimited throttle %d" % x))
            for x in ids:
                if on[x]:
                    accounted[x] += n
                    if stamp0[x] is None:
                        stamp0[x] = st
                    if cur[x][2] is not None and snap[x][2] != cur[x][2]:
                        prod = (st - cur[x][2]) * lim[x]
                        if prod.denominator != 1:
                            inexact[x] += 1
            cur = list(snap)
    return fails


def nontrivial(tr):
    w = any(e[0] == "c" and len(e) > 3 and e[3] is not None and e[3] > e[2] for e in tr["events"])
    return w


# ------------------------------------------------------------------------------------------------
# generators
# ------------------------------------------------------------------------------------------------
EXACT_LIMITS = [1, 2, 4, 8, 16, 64, 256, 1024, 4096, 65536]
INEXACT_LIMITS = [3, 5, 7, 10, 100, 1000, 1500, 9999, 30000]
OFF_LIMITS = [None, 0, None, 0, -4]
RESETS = ["10", "10", "10", "1", "1/2", "2", "5", "0", "1/4", "100", "3/64"]
SIZES = [0, 1, 2, 3, 7, 8, 9, 64, 100, 255, 1000, 4096, 8192, 65536]


def g_time(rng, hi):
    """a time on the grid in [0, hi]"""
    return Fr(rng.randint(0, int(hi * GRID)), GRID)


def g_dur(rng, reset, long_bias, p_zero=0.3):
    r = rng.random()
    if r < p_zero:
        return Fr(0)
    r = 0.3 + (r - p_zero) * 0.7 / (1 - p_zero)
    if r < 0.3 + long_bias:
        # longer than the reset period
        return reset + g_time(rng, 8) + Fr(1, GRID)
    if r < 0.8:
        return g_time(rng, 1)
    if r < 0.9 and reset > 0:
        # exactly at / next to the threshold
        return max(Fr(0), reset + Fr(rng.choice([-1, 0, 1]), GRID))
    return g_time(rng, max(Fr(1), reset))


def g_limit(rng, p_off=0.25, exact=True):
    if rng.random() < p_off:
        return rng.choice(OFF_LIMITS)
    return rng.choice(EXACT_LIMITS if exact else INEXACT_LIMITS)


def g_pair(rng, exact=True, one_sided=None):
    rr = rng.choice(RESETS)
    wr = rng.choice(RESETS)
    r = g_limit(rng, exact=exact)
    w = g_limit(rng, exact=exact)
    if one_sided == "read":
        w = rng.choice([None, 0])
    if one_sided == "write":
        r = rng.choice([None, 0])
    p = {"r": [r, rr], "w": [w, wr]}
    if rng.random() < 0.2:
        p = {"r": [r, "10"], "w": [w, "10"], "from_limits": True}
    return p


def g_steps(rng, nsteps, reset, rate):
    """chunk sizes related to the rate so that waits are neither always 0 nor always huge"""
    steps = []
    long_d = rng.choice([0.0, 0.0, 0.15, 0.4])
    long_g = rng.choice([0.0, 0.1, 0.3])
    for _ in range(nsteps):
        r = rng.random()
        if r < 0.2:
            n = rng.choice([0, 0, 1, 2, 3, 7, 8])
        elif r < 0.88:
            f = rng.choice([Fr(1, 64), Fr(1, 8), Fr(1, 2), 1, 2, 2, 4, 8])
            n = rng.randint(0, max(1, int(rate * f)))
        else:
            n = rng.choice(SIZES)
        steps.append([n, str(g_dur(rng, reset, long_d)), str(g_dur(rng, reset, long_g, 0.55))])
    return steps


def scenario_rate(sc):
    ls = [p[k][0] for p in sc["pairs"] if "r" in p for k in ("r", "w") if p[k][0] and p[k][0] > 0]
    return min(ls) if ls else 64


def gen_scenario(rng, tier_steps, exact=True, single=False):
    topo = rng.choice(["one", "one", "multi-dict", "client", "server", "server", "bidir"]) if not single else rng.choice(["one", "multi-dict"])
    pairs, dicts, streams, procs = [], [], [], []
    if topo == "one":
        pairs = [g_pair(rng, exact)]
        dicts = [[["main", 0]]]
        streams = [0]
        procs = [{"stream": 0, "dir": rng.choice(["read", "write"])}]
    elif topo == "multi-dict":
        k = rng.randint(2, 4)
        pairs = [g_pair(rng, exact) for _ in range(k)]
        names = ["server_global", "server_per_connection", "user_global", "user_per_connection"]
        dicts = [[[names[i], i] for i in range(k)]]
        streams = [0]
        procs = [{"stream": 0, "dir": rng.choice(["read", "write"])}]
    elif topo == "client":
        # control + data streams sharing one pair through two different dict objects
        pairs = [g_pair(rng, exact)]
        k = rng.randint(2, 3)
        dicts = [[["_", 0]] for _ in range(k)]
        streams = list(range(k))
        d = rng.choice(["read", "write"])
        procs = [{"stream": i, "dir": d if rng.random() < 0.8 else rng.choice(["read", "write"])} for i in range(k)]
    elif topo == "server":
        # global shared, per-connection cloned from one prototype, users shared or not, data aliasing the dict
        k = rng.randint(2, 3)
        pairs = [g_pair(rng, exact), g_pair(rng, exact)]
        if rng.random() < 0.5:
            pairs[1]["pre"] = [[rng.choice(["r", "w"]) == "r" and "read" or "write", rng.choice([1, 100, 5000]), "0"]]
        same_user = rng.random() < 0.5
        if same_user:
            pairs.append(g_pair(rng, exact))
        for i in range(k):
            pairs.append({"clone_of": 1})
            d = [["server_global", 0], ["server_per_connection", len(pairs) - 1]]
            if same_user:
                d.append(["user_global", 2])
            elif rng.random() < 0.5:
                pairs.append(g_pair(rng, exact))
                d.append(["user_global", len(pairs) - 1])
            if rng.random() < 0.5:
                pairs.append(g_pair(rng, exact))
                d.append(["user_per_connection", len(pairs) - 1])
            dicts.append(d)
            streams.append(i)
        # one data stream aliasing connection 0's dict object
        if rng.random() < 0.5:
            streams.append(0)
        dmain = rng.choice(["read", "write"])
        procs = [{"stream": i, "dir": dmain if rng.random() < 0.8 else rng.choice(["read", "write"])} for i in range(len(streams))]
        procs = procs[:3] if len(procs) > 3 and rng.random() < 0.5 else procs
    else:  # bidir: both directions of one or two streams; sometimes only the opposite direction limited
        side = rng.choice([None, "read", "write"])
        pairs = [g_pair(rng, exact, one_sided=side)]
        dicts = [[["_", 0]]]
        streams = [0, 0] if rng.random() < 0.5 else [0]
        procs = []
        for i in range(len(streams)):
            procs.append({"stream": i, "dir": "read"})
            procs.append({"stream": i, "dir": "write"})
        procs = procs[:3]
    sc = {"topo": topo, "pairs": pairs, "dicts": dicts, "streams": streams, "procs": procs, "exact": exact}
    rate = scenario_rate(sc)
    resets = [fr(p[k][1]) for p in pairs if "r" in p for k in ("r", "w")]
    for pr in procs:
        reset = rng.choice(resets)
        pr["steps"] = g_steps(rng, rng.randint(1, tier_steps), reset, rate)
        if pr["dir"] == "read":
            pr["kind"] = rng.choice(["read", "readline", "mixed"])
    return sc


def topo_key(sc):
    return json.dumps([sc["pairs"], sc["dicts"], sc["streams"], sc["procs"]], sort_keys=True, default=str)


# ------------------------------------------------------------------------------------------------
# unit operations on arbitrary states
# ------------------------------------------------------------------------------------------------
def gen_units(rng, count):
    units = []
    halves = [Fr(k, 2) for k in range(-9, 10)]
    for _ in range(count):
        kind = rng.choice(["round", "round", "wait", "wait", "append", "append", "append", "setlimit", "clone"])
        if kind == "round":
            x = rng.choice(halves) if rng.random() < 0.5 else Fr(rng.randint(-4000, 4000), rng.choice([1, 2, 4, 8, 64]))
            if rng.random() < 0.3:
                x = Fr(rng.randint(-(10**9), 10**9)) + rng.choice([Fr(1, 2), Fr(-1, 2), Fr(1, 4)])
            units.append(("round", x))
            continue
        limit = rng.choice(EXACT_LIMITS + [None, 0, -2, -64]) if rng.random() < 0.8 else rng.choice([3, 5, 10])
        reset = fr(rng.choice(RESETS))
        start = None if rng.random() < 0.25 else g_time(rng, 40)
        sum_ = 0 if start is None and rng.random() < 0.8 else rng.choice([0, 1, 8, 100, -5, -1000, 12345, rng.randint(-5000, 100000)])
        st = (limit, reset, start, sum_)
        if kind == "wait":
            units.append(("wait", st, g_time(rng, 60)))
        elif kind == "append":
            base = start if start is not None else g_time(rng, 40)
            r = rng.random()
            if r < 0.3:
                stamp = base + reset + Fr(rng.choice([-1, 0, 1, 2]), GRID)  # around the fold threshold
            elif r < 0.5:
                stamp = base - g_time(rng, 5)  # stamp older than the window origin (another stream's I/O)
            else:
                stamp = base + g_time(rng, 30)
            if stamp < 0:
                stamp = Fr(0)
            units.append(("append", st, rng.choice(SIZES), stamp))
        elif kind == "setlimit":
            units.append(("setlimit", st, rng.choice([None, 0, 5, 64, -1])))
        else:
            units.append(("clone", st))
    return units


def mk_throttle(st):
    from aioftp.common import Throttle

    limit, reset, start, sum_ = st
    t = Throttle(limit=limit, reset_rate=float(reset) if reset.denominator != 1 or True else int(reset))
    t._start = None if start is None else float(start)
    t._sum = sum_
    return t


def unit_exact(u):
    """is float arithmetic exact for this unit op? (power-of-two or non-positive limits)"""
    if u[0] == "round":
        return True
    l = u[1][0]
    return l is None or l <= 0 or (l & (l - 1)) == 0


def run_units(units):
    """(lines, impl outputs)"""
    lines, outs = [], []
    loop = get_loop()
    for u in units:
        if u[0] == "round":
            lines.append("throttle round %s" % enc_rat(u[1]))
            r = round(float(u[1]))
            outs.append(enc_num(r))
        elif u[0] == "wait":
            t = mk_throttle(u[1])
            now = u[2]

            async def w():
                t0 = loop.time()
                await t.wait()
                return loop.time() - t0

            d = vloop.run(w(), loop=loop, at=float(now))
            lines.append("throttle wait %s %s" % (enc_thr_state(*u[1]), enc_rat(now)))
            outs.append(enc_rat(Fr(d)))
        elif u[0] == "append":
            t = mk_throttle(u[1])
            prev = t._start
            t.append(b"z" * u[2], float(u[3]))
            fold = prev is not None and t._start != prev
            lines.append("throttle append %s %d %s" % (enc_thr_state(*u[1]), u[2], enc_rat(u[3])))
            outs.append("%d %s" % (1 if fold else 0, enc_thr(t)))
        elif u[0] == "setlimit":
            t = mk_throttle(u[1])
            t.limit = u[2]
            lines.append("throttle setlimit %s %s" % (enc_thr_state(*u[1]), enc_opt(u[2])))
            outs.append(enc_thr(t))
        else:
            t = mk_throttle(u[1])
            c = t.clone()
            lines.append("throttle clone %s" % enc_thr_state(*u[1]))
            outs.append(enc_thr(c) if c is not t and type(c) is type(t) else "alias")
    return lines, outs


def canon_unit_model(line, out):
    if line.startswith("throttle wait ") and out == "nosleep":
        return "0/1"
    return out


# ------------------------------------------------------------------------------------------------
# wiring: real Server.dispatcher on in-memory streams
# ------------------------------------------------------------------------------------------------
class ScriptReader:
    """readline() yields the scripted lines one virtual second apart, then blocks for ever"""

    def __init__(self, lines, start_at):
        self.lines = list(lines)
        self.start_at = start_at
        self.block = None

    async def readline(self):
        loop = asyncio.get_running_loop()
        if self.lines:
            at, line = self.lines.pop(0)
            d = at - loop.time()
            if d > 0:
                await asyncio.sleep(d)
            return line
        self.block = loop.create_future()
        await self.block
        return b""

    async def read(self, count=-1):
        return await self.readline()


def gen_wiring(rng):
    lim = lambda: rng.choice([None, None, 0, 64, 100, 1024, 5])  # noqa: E731
    init = [lim(), lim(), lim(), lim()]
    nusers = rng.randint(1, 3)
    users = [[lim(), lim(), lim(), lim()] for _ in range(nusers)]
    nconn = rng.randint(1, 4)
    ops = []
    for c in range(nconn):
        ops.append(["C"])
    logins = []
    for c in range(nconn):
        if rng.random() < 0.85:
            logins.append(["L", c, rng.randrange(nusers)])
            if rng.random() < 0.25:
                logins.append(["L", c, rng.randrange(nusers)])  # USER again on the same connection
    rng.shuffle(logins)
    return {"init": init, "users": users, "ops": ops + logins}


def run_wiring_impl(w):
    """drive real dispatchers; returns the canonical wiring string read off the live objects + oracle facts"""
    import aioftp

    users = [
        aioftp.User(
            "u%d" % i,
            None,
            read_speed_limit=l[0],
            write_speed_limit=l[1],
            read_speed_limit_per_connection=l[2],
            write_speed_limit_per_connection=l[3],
        )
        for i, l in enumerate(w["users"])
    ]
    server = aioftp.Server(
        users,
        read_speed_limit=w["init"][0],
        write_speed_limit=w["init"][1],
        read_speed_limit_per_connection=w["init"][2],
        write_speed_limit_per_connection=w["init"][3],
    )
    # what `Server.start` would set before accepting connections (no listening socket here)
    server.connections = {}
    server.server_host = "127.0.0.1"
    server.server_port = 21
    nconn = sum(1 for o in w["ops"] if o[0] == "C")
    scripts = [[] for _ in range(nconn)]
    t = 1.0
    for o in w["ops"]:
        if o[0] == "L":
            scripts[o[1]].append((t, ("USER u%d\r\n" % o[2]).encode()))
            t += 1.0
    loop = get_loop()
    result = {}

    async def main():
        tasks = []
        writers = []
        for c in range(nconn):
            r = ScriptReader(scripts[c], 0.0)
            wr = FakeWriter([])
            writers.append(wr)
            tasks.append(asyncio.create_task(server.dispatcher(r, wr)))
            # dispatchers register themselves in creation order
            await asyncio.sleep(1 / 64)
        await asyncio.sleep(t + 5.0)
        keys = list(server.connections.keys())
        result["dicts"] = [dict(k.throttles) for k in keys]
        result["order"] = [list(k.throttles.keys()) for k in keys]
        result["replies"] = [b"".join(wr.written) for wr in writers]
        for tk in tasks:
            tk.cancel()
        await asyncio.gather(*tasks, return_exceptions=True)
        rest = [tk for tk in asyncio.all_tasks() if tk is not asyncio.current_task()]
        for tk in rest:
            tk.cancel()
        await asyncio.gather(*rest, return_exceptions=True)

    lvl = logging.getLogger("aioftp.server").level
    logging.getLogger("aioftp.server").setLevel(logging.CRITICAL)
    try:
        vloop.run(main(), loop=loop, at=0.0)
    finally:
        logging.getLogger("aioftp.server").setLevel(lvl)
    trav = [server.throttle.read, server.throttle.write, server.throttle_per_connection.read, server.throttle_per_connection.write]
    for d, order in zip(result["dicts"], result["order"]):
        for name in order:
            trav += [d[name].read, d[name].write]
    ids = [id(x) for x in trav]
    lab = lambda t: ids.index(id(t))  # noqa: E731
    desc = lambda t: "%s/%s/%s/%s" % (enc_opt(t._limit), enc_rat(t.reset_rate), enc_opt(t._start, enc_rat), enc_num(t._sum))  # noqa: E731
    # the dispatcher's own greeting/replies went through the write throttles: reset nothing, report limits only
    ent = lambda name, st: "%s=%d[%s].%d[%s]" % (name, lab(st.read), desc_nomem(st.read), lab(st.write), desc_nomem(st.write))  # noqa: E731

    def desc_nomem(t):
        return "%s/%s" % (enc_opt(t._limit), enc_rat(t.reset_rate))

    s = "%s %s " % (ent("throttle", server.throttle), ent("throttle_per_connection", server.throttle_per_connection))
    conns = []
    for d, order in zip(result["dicts"], result["order"]):
        conns.append(",".join(ent(name, d[name]) for name in order))
    s += ";".join(conns) if conns else "~"
    return s, server, result


def wiring_line(w):
    ops = []
    for o in w["ops"]:
        if o[0] == "C":
            ops.append("C")
        else:
            l = w["users"][o[2]]
            ops.append("L:%d:%d:%s" % (o[1], o[2], ":".join(enc_opt(x) for x in l)))
    return "throttle wiring %s %s" % (" ".join(enc_opt(x) for x in w["init"]), "|".join(ops) if ops else "~")


def canon_wiring_model(out):
    """drop the memory fields the model prints (`limit/num/den/start/sum` -> `limit/num/den`)"""
    import re

    return re.sub(r"\[([^\]/]*)/(-?\d+)/(\d+)/[^\]]*?/(-?\d+)\]", r"[\1/\2/\3]", out)


def wiring_oracle(w, server, result):
    """the wiring facts of the property, on the live objects"""
    fails = []
    dicts = result["dicts"]
    login_of = {}
    for o in w["ops"]:
        if o[0] == "L":
            login_of[o[1]] = o[2]
    lims = w["init"]
    if (server.throttle.read.limit, server.throttle.write.limit) != (lims[0], lims[1]):
        fails.append(("C15:wiring", "server-wide limits not the configured ones"))
    for c, d in enumerate(dicts):
        if d.get("server_global") is not server.throttle:
            fails.append(("C15:wiring", "connection %d does not share the server-wide throttle" % c))
        pc = d.get("server_per_connection")
        if pc is None or pc is server.throttle_per_connection or pc.read is server.throttle_per_connection.read or pc.write is server.throttle_per_connection.write:
            fails.append(("C15:wiring", "connection %d uses the per-connection prototype itself, not a clone" % c))
        elif (pc.read.limit, pc.write.limit) != (lims[2], lims[3]):
            fails.append(("C15:wiring", "per-connection limits of connection %d are not the configured ones" % c))
        if c in login_of:
            ul = w["users"][login_of[c]]
            ug, upc = d.get("user_global"), d.get("user_per_connection")
            if ug is None or upc is None:
                fails.append(("C15:wiring", "logged-in connection %d lacks the user throttles" % c))
                continue
            if (ug.read.limit, ug.write.limit) != (ul[0], ul[1]) or (upc.read.limit, upc.write.limit) != (ul[2], ul[3]):
                fails.append(("C15:wiring", "user limits of connection %d are not the user's" % c))
    for a in range(len(dicts)):
        for b in range(a + 1, len(dicts)):
            da, db = dicts[a], dicts[b]
            for nm in ("server_per_connection", "user_per_connection"):
                if nm in da and nm in db and (da[nm] is db[nm] or da[nm].read is db[nm].read or da[nm].write is db[nm].write):
                    fails.append(("C15:wiring", "%s shared between connections %d and %d" % (nm, a, b)))
            if "user_global" in da and "user_global" in db and a in login_of and b in login_of:
                same = login_of[a] == login_of[b]
                if (da["user_global"] is db["user_global"]) != same:
                    fails.append(("C15:wiring", "user_global sharing between connections %d,%d does not follow the user" % (a, b)))
    return fails


def client_check(rng):
    """real Client(read_speed_limit, write_speed_limit) / from_limits / clone facts -> (line, impl, fails)"""
    import aioftp
    from aioftp.common import StreamThrottle

    r, w = rng.choice([None, 0, 5, 1024]), rng.choice([None, 0, 7, 4096])
    fails = []

    async def mk():
        return aioftp.Client(read_speed_limit=r, write_speed_limit=w)

    c = vloop.run(mk(), loop=get_loop())
    line = "throttle client %s %s" % (enc_opt(r), enc_opt(w))
    impl = "_=0.1 %s %s" % (enc_thr(c.throttle.read), enc_thr(c.throttle.write))
    st = StreamThrottle.from_limits(r, w)
    st.read.append(b"abc", 1.0)
    st.write.append(b"abc", 1.0)
    cl = st.clone()
    if cl.read is st.read or cl.write is st.write or (cl.read.limit, cl.write.limit) != (r, w):
        fails.append(("C15:wiring", "StreamThrottle.clone does not produce fresh throttles with the same limits"))
    if cl.read._start is not None or cl.read._sum != 0 or cl.write._start is not None or cl.write._sum != 0:
        fails.append(("C15:wiring", "StreamThrottle.clone copies the memory"))
    cl.read.append(b"x" * 10, 2.0)
    if r and r > 0 and st.read._sum != 3:
        fails.append(("C15:wiring", "appending to a clone changed the original"))
    return line, impl, fails


# ------------------------------------------------------------------------------------------------
# the runs
# ------------------------------------------------------------------------------------------------
def _fail(res, sc, sig, what):
    res.oracle_failures.append({"input": {"scenario": sc}, "what": what, "signature": sig})


def _near_tie(sc, tr):
    """inexact class only: a fold threshold or a rounding half within 1e-6 on the implementation's trace"""
    cur = list(tr["init"])
    inflight = {}
    for e in tr["events"]:
        if e[0] == "b":
            inflight[e[1]] = e[2]
        elif e[0] == "d":
            st = inflight[e[1]]
            for x in proc_ids(sc, e[1]):
                l, rr, s, m = cur[x]
                if l is not None and l > 0 and s is not None:
                    dt = st - s
                    if abs(dt - rr) < Fr(1, 10**6):
                        return True
                    prod = dt * l
                    if abs((prod % 1) - Fr(1, 2)) < Fr(1, 10**6):
                        return True
            cur = list(e[3])
    return False


def _run(ctx, oracle_only=False):
    res = Result()
    rng = ctx.rng
    n_sys = ctx.pick(4000, 40000) * (2 if oracle_only else 1)
    n_inexact = ctx.pick(800, 8000)
    n_units = ctx.pick(8000, 80000)
    n_wiring = ctx.pick(100, 1000)
    max_steps = ctx.pick(10, 24)
    lines, want, meta = [], [], []

    # --- unit ops -------------------------------------------------------------------------------
    units = gen_units(rng, n_units)
    ulines, uouts = run_units(units)
    for u, l, o in zip(units, ulines, uouts):
        res.cases += 1
        res.count("unit:" + u[0])
        if unit_exact(u):
            lines.append(l)
            want.append(o)
            meta.append(("unit", u))
        else:
            res.count("unit:inexact-limit-not-compared")

    # --- scenarios ------------------------------------------------------------------------------
    for k in range(n_sys + n_inexact):
        exact = k < n_sys
        single = (not exact) or rng.random() < 0.15
        sc = gen_scenario(rng, max_steps, exact=exact, single=single)
        try:
            tr = run_impl(sc)
        except Exception as e:  # the implementation must not fail on any of these
            _fail(res, sc, "C15:exception", "implementation raised %s: %s" % (type(e).__name__, e))
            continue
        res.cases += 1
        outs = impl_outputs(sc, tr)
        res.count("topo:" + sc["topo"])
        res.count("class:" + ("exact" if exact else "inexact"))
        res.count("procs=%d" % len(sc["procs"]))
        nfold = sum(o.split(":")[0].count("1") for e, o in zip(tr["events"], outs) if e[0] == "d")
        nwait = sum(1 for e in tr["events"] if e[0] == "c" and e[3] is not None and e[3] > e[2])
        res.count("scenarios-with-wait", 1 if nwait else 0)
        res.count("scenarios-with-fold", 1 if nfold else 0)
        res.count("waits", nwait)
        res.count("folds", nfold)
        res.count("io-ops", sum(1 for e in tr["events"] if e[0] == "b"))
        long_io = 0
        for j, pr in enumerate(sc["procs"]):
            for n, d, g in pr["steps"]:
                if fr(d) > 10:
                    long_io += 1
        res.count("io-longer-than-10s", long_io)
        # the interleaving the one-block-per-stream term is about: another stream's block is appended to a
        # shared throttle while this stream is inside its wait
        waiting = {}
        overtaken = 0
        for e in tr["events"]:
            if e[0] == "c":
                waiting[e[1]] = set(proc_ids(sc, e[1]))
            elif e[0] == "b":
                waiting.pop(e[1], None)
            else:
                mine = set(proc_ids(sc, e[1]))
                overtaken += sum(1 for k, ids in waiting.items() if k != e[1] and ids & mine)
        res.count("appends-during-another-streams-wait", overtaken)
        if nwait or nfold:
            res.distinct.add(topo_key(sc))
        eps = Fr(0) if exact else Fr(1, 10**9)
        seen_sigs = set()
        for sig, what in oracle(sc, tr, eps):
            if sig not in seen_sigs:  # one report per scenario and class
                seen_sigs.add(sig)
                _fail(res, sc, sig, what)
                res.count("oracle:" + sig)
        if len(res.samples) < 4 and nwait and nfold and len(sc["procs"]) <= 2:
            res.samples.append(
                {
                    "scenario": sc,
                    "impl_events": [[e[0], e[1], str(e[2])] + ([e[3]] if e[0] == "b" else []) for e in tr["events"]][:12],
                }
            )
        if oracle_only:
            continue
        if exact:
            lines.append(sys_line(sc, tr))
            want.append("|".join(outs) if outs else "~")
            meta.append(("sys", sc))
            if len(sc["procs"]) == 1:
                lines.append(stream_line(sc, tr))
                want.append(impl_stream_output(sc, tr))
                meta.append(("stream", sc))
        else:
            lines.append(stream_line(sc, tr))
            want.append(impl_stream_output(sc, tr))
            meta.append(("stream~", sc, tr))

    # --- wiring ---------------------------------------------------------------------------------
    for _ in range(n_wiring):
        w = gen_wiring(rng)
        try:
            s, server, result = run_wiring_impl(w)
        except Exception as e:
            _fail(res, {"wiring": w}, "C15:exception", "dispatcher wiring run raised %s: %s" % (type(e).__name__, e))
            continue
        res.cases += 1
        res.count("wiring:connections=%d" % len(result["dicts"]))
        for sig, what in wiring_oracle(w, server, result):
            _fail(res, {"wiring": w}, sig, what)
        lines.append(wiring_line(w))
        want.append(s)
        meta.append(("wiring", w))
        line, impl, fails = client_check(rng)
        for sig, what in fails:
            _fail(res, {"client": line}, sig, what)
        lines.append(line)
        want.append(impl)
        meta.append(("client", line))

    for sig, what in source_wiring_oracle():
        _fail(res, {"source": "server.py/client.py call sites"}, sig, what)

    if oracle_only or not ctx.model_ok:
        return res
    got = drive(lines, shards=8)
    res.lines += len(lines)
    for l, wv, g, m in zip(lines, want, got, meta):
        kind = m[0]
        if kind == "unit":
            g = canon_unit_model(l, g)
        elif kind == "wiring":
            g = canon_wiring_model(g)
        ok = g == wv
        if not ok and kind == "stream~":
            ok = approx_stream_equal(g, wv)
            if not ok and _near_tie(m[1], m[2]):
                # float rounding next to the fold threshold / a rounding half: bounded, not modelled
                res.count("inexact:near-tie-rejected")
                ok = True
        if not ok:
            if len(res.disagreements) < 20:
                res.disagreements.append(
                    {"correspondence": "Model.Throttling (%s) vs aioftp.common" % kind, "input": m[1], "line": l[:2000], "model": g[:2000], "impl": wv[:2000]}
                )
            else:
                res.count("more_disagreements")
    return res


def approx_stream_equal(model, impl):
    """inexact class: start times within 1e-9 (relative), fold flags and integer sums equal"""
    try:
        mr, ms, mt = model.split(" ")
        ir, is_, it = impl.split(" ")
        mrs, irs = mr.split("|"), ir.split("|")
        if len(mrs) != len(irs):
            return False
        for a, b in zip(mrs, irs):
            ac, as_, af = a.split(":")
            bc, bs, bf = b.split(":")
            if af != bf:
                return False
            for x, y in ((ac, bc), (as_, bs)):
                x, y = Fr(x), Fr(y)
                if abs(x - y) > Fr(1, 10**9) * max(1, abs(x)):
                    return False
        for a, b in zip(ms.split("|"), is_.split("|")):
            al, ar, ast_, asum = a.split(";")
            bl, br, bst, bsum = b.split(";")
            if (al, ar, asum) != (bl, br, bsum):
                return False
            if (ast_ == "N") != (bst == "N"):
                return False
            if ast_ != "N" and abs(Fr(ast_) - Fr(bst)) > Fr(1, 10**9) * max(1, abs(Fr(ast_))):
                return False
        return abs(Fr(mt) - Fr(it)) <= Fr(1, 10**9) * max(1, abs(Fr(mt)))
    except Exception:
        return False


# ------------------------------------------------------------------------------------------------
# source-level wiring facts (call sites that need real sockets to execute)
# ------------------------------------------------------------------------------------------------
def source_wiring_oracle():
    import extract_throttle

    fails = []
    try:
        facts = extract_throttle.facts()
    except Exception as e:
        return [("C15:wiring", "cannot read the wiring call sites: %s" % e)]
    exp = extract_throttle.EXPECTED
    for k, v in exp.items():
        if facts.get(k) != v:
            fails.append(("C15:wiring", "call site %s is %r, the modelled wiring is %r" % (k, facts.get(k), v)))
    return fails


def correspondence(ctx):
    from props import c15_extra

    r = _run(ctx)
    r.merge(c15_extra.run(ctx))
    return r


def search(ctx, prior):
    from props import c15_extra

    r = _run(ctx, oracle_only=True)
    r.merge(c15_extra.run(ctx))
    return r


def replay(ctx, doc):
    if doc["failure"]["input"].get("kind") == "wiring-history":
        from props import c15_extra

        return c15_extra.replay(doc["failure"]["input"])
    inp = doc["failure"]["input"]
    if "scenario" in inp and "wiring" in inp["scenario"]:
        w = inp["scenario"]["wiring"]
        s, server, result = run_wiring_impl(w)
        fails = wiring_oracle(w, server, result)
        print("implementation wiring:", s)
    elif "scenario" in inp and "source" in inp["scenario"]:
        fails = source_wiring_oracle()
    elif "scenario" in inp and "client" in inp["scenario"]:
        fails = []
        for _ in range(20):
            fails += client_check(ctx.rng)[2]
    else:
        sc = inp["scenario"]
        tr = run_impl(sc)
        fails = oracle(sc, tr, Fr(0) if sc.get("exact", True) else Fr(1, 10**9))
        for e in tr["events"]:
            print("  ", e[0], "stream", e[1], "t=%s" % e[2], ("n=%d" % e[3]) if e[0] == "b" else "")
    for sig, what in fails:
        print("oracle:", sig, what)
    return bool(fails)


DRIFT_SCENARIO = {
    "topo": "one",
    "exact": True,
    "pairs": [{"r": [1, "1"], "w": [None, "10"]}],
    "dicts": [[["main", 0]]],
    "streams": [0],
    "procs": [
        {
            "stream": 0,
            "dir": "read",
            "kind": "read",
            "steps": [[1, "0", "0"]] + [[0, "0", "3/2"]] * 4 + [[1, "0", "0"]] * 9,
        }
    ],
}


def probe_known(ctx, finding):
    """does the stored replay of a known finding still fail, and only in its own class?"""
    sc = (finding.get("replay") or {}).get("scenario") or DRIFT_SCENARIO
    tr = run_impl(sc)
    sigs = {sig for sig, _ in oracle(sc, tr, Fr(0) if sc.get("exact", True) else Fr(1, 10**9))}
    return finding.get("signature") in sigs and sigs <= {finding.get("signature")}


# ------------------------------------------------------------------------------------------------
# limits at the bottom of the range and between the integers (the repository's own tests pass `SIZE / times`, a float):
# a limit is the number it was given as - 0.5 B/s is a limit, not "off"; 1.9 B/s is not 1 B/s
# ------------------------------------------------------------------------------------------------
FRACTIONAL_LIMITS = [0.5, 0.25, 1.5, 1.9, 2.5, 0.999, 1.0, 3.0, 1000.5]


async def _fractional_case(loop, limit, via):
    import aioftp

    if via == "constructor":
        t = aioftp.Throttle(limit=limit)
    elif via == "setter":
        t = aioftp.Throttle()
        t.limit = limit
    else:
        t = aioftp.StreamThrottle.from_limits(limit, None).read
    t0 = loop.time()
    t.append(b"x" * 10, t0)
    await t.wait()
    return loop.time() - t0, t.limit


def fractional_limits(ctx, res):
    import simnet

    for limit in FRACTIONAL_LIMITS:
        for via in ("constructor", "setter", "from_limits"):
            res.cases += 1
            res.count("fractional_limits")
            res.distinct.add(("fractional-limit", limit, via))
            inp = {"kind": "fractional-limit", "limit": limit, "via": via}
            try:
                dt, got = simnet.run(_fractional_case, limit, via, wall_limit=30)
            except BaseException as e:  # noqa
                res.oracle_failures.append({"input": inp, "what": "a throttle with limit %r (%s) raised %s: %s" % (limit, via, type(e).__name__, e), "signature": "C15:fractional-limit"})
                continue
            want = 10 / limit
            if got != limit or abs(dt - want) > 1e-6 * max(1.0, want):
                res.oracle_failures.append({"input": inp, "what": "a throttle given the limit %r B/s (%s) reports the limit %r and let 10 bytes wait %.6f s (want %.6f s: bytes / limit)" % (limit, via, got, dt, want),
                                            "signature": "C15:fractional-limit"})


def _with_fractional(corr, srch, rep):
    def c2(ctx):
        r = corr(ctx)
        fractional_limits(ctx, r)
        return r

    def s2(ctx, prior):
        r = srch(ctx, prior)
        fractional_limits(ctx, r)
        return r

    def r2(ctx, doc):
        inp = (doc.get("failure") or {}).get("input")
        if isinstance(inp, dict) and inp.get("kind") == "fractional-limit":
            from framework import Result as _R

            r = _R()
            fractional_limits(ctx, r)
            for f in r.oracle_failures:
                print(f["what"])
            return bool(r.oracle_failures)
        return rep(ctx, doc)

    return c2, s2, r2


correspondence, search, replay = _with_fractional(correspondence, search, replay)
