"""C12  a session that ends - at any point, for any reason - releases everything it held.

Every scripted session of the corpus is cut (peer vanishes / server.close()) at EVERY loop iteration k of
its run under the simulated network, with backend calls and listener start-up optionally held open at gates
so that cuts also land inside them.  After the cut the loop runs to quiescence without any further input
(held backend calls are then allowed to finish) and the server-side ledger must be empty.  The Lean model
(Model/Lifecycle.lean) predicts for every crash-point class whether the ledger is empty; the prediction is
compared with the real ledger.
"""
import multiprocessing
import os

import scenario as SC
import scripts
from framework import Result, drive

PID = "C12"
RULE = (
    "case = (scripted session, cut kind in {peer vanishes, server.close()}, loop iteration k); every k of every "
    "script is explored (exhaustive over the corpus); non-trivial = the cut lands while the session holds a "
    "listener, data connection, open file, running worker or slot; distinct = distinct (script, kind, k)"
)
EXPLANATION = (
    "Properties/C12.lean proves that the model's finalize releases every resource from every reachable state "
    "except at two program points (negative witnesses proved); this run compares the model's prediction with the "
    "real ledger at every cut position and evaluates 'ledger empty' on the implementation alone."
)
GENERATED_OBLIGATIONS = ["Server.replyWriterFinishesInFinally / replyWriterDrainsOnFailure / replySkipsDeadWriter (response_writer and connection.response: join_cannot_hang)"]
ASSUMPTIONS = [
    "in-memory transports stand in for sockets (close requested = released; real half-close behaviour not modelled)",
    "backend and listener delays are finite: calls held at a gate are let go after the cut",
]


def classify(sc_name, kind, res, complaints):
    """stable signature of a leak: crash-point class + what leaked"""
    ctx = res.get("context", {})
    what = sorted({c.split(":")[0].split(" [")[0] for c in complaints})
    if kind in ("close", "close+connect") and ctx.get("undispatched_connections", 0) > 0 and any("did not complete" in c or "tasks still" in c for c in complaints):
        return "C12:server-close-incomplete:connection-accepted-dispatcher-not-started"
    if "open" in ctx.get("gates_arrived", []) and any("sockets still open" in c for c in complaints) and all(
        ("sockets still open" in c) for c in complaints
    ):
        return "C12:data-socket-leak:session-ended-inside-backend-open-of-transfer"
    if "listener" in ctx.get("gates_arrived", []) and complaints and all("port pool" in c for c in complaints):
        return "C12:port-not-returned:session-ended-inside-listener-startup"
    return "C12:leak:%s:%s:%s" % (kind, sc_name.split("/")[0].split("@")[0], "+".join(w.replace(" ", "-") for w in what)[:80])


def point_class(res):
    """the crash-point class fed to the Lean model"""
    ctx = res.get("context", {})
    g = ctx.get("gates_arrived", [])
    return {
        "undispatched": 1 if ctx.get("undispatched_connections", 0) > 0 else 0,
        "in_open": 1 if "open" in g else 0,
        "in_listener": 1 if "listener" in g else 0,
        "half": 1 if ctx.get("data_half_closed") else 0,
    }


CUTS = {"vanish": SC.cut_vanish, "close": SC.cut_server_close, "vanish-control": SC.cut_vanish_control, "close+connect": SC.cut_close_and_connect}


def complaints_of(kind, r):
    closing = kind in ("close", "close+connect")
    c = SC.ledger_clean(r["ledger"], r["cfg"], expect_control_listener=not closing)
    if closing and not r.get("close_done", False):
        c.append("server.close() did not complete")
    acr = r.get("at_close_return") if closing else None
    if acr and (acr["tasks"] or acr["connections"]):
        c.append("when server.close() returned, tasks of the server were still running: %s (sessions still in the table: %d, backend files still open: %s)" % (acr["tasks"], acr["connections"], acr["open_files"]))
    if kind == "vanish-control":
        # the data sockets of the vanished peer are still open on ITS side; the server must have let go of its ends
        c = [x for x in c]
    return c


def _job(args):
    idx, kind, ks, thorough = args
    sc = scripts.corpus_with_gates(thorough)[idx]
    fn = CUTS[kind]
    out = []
    for k in ks:
        try:
            r = SC.run_scenario(sc, k, fn)
        except BaseException as e:  # noqa
            out.append((k, None, ["harness error %s: %s" % (type(e).__name__, e)], {}))
            continue
        if not r.get("fired"):
            # the script ended before loop iteration k was reached: iteration counts are not reproducible for
            # scripts whose backend runs in a thread pool (AsyncPathIO).  No cut happened, nothing to judge.
            out.append((k, None, [], {"not_fired": True}))
            continue
        c = complaints_of(kind, r)
        out.append((k, r, c, point_class(r)))
    return idx, kind, out


def _lengths(thorough):
    return [SC.run_scenario(sc)["iterations"] for sc in scripts.corpus_with_gates(thorough)]


def _run(ctx, compare=True):
    res = Result()
    thorough = ctx.thorough()
    corpus = scripts.corpus_with_gates(thorough)
    Ns = _lengths(thorough)
    jobs = []
    for i, N in enumerate(Ns):
        ks = list(range(0, N))
        kinds = ["vanish", "close"]
        if corpus[i].name in ("retr-unread", "retr", "stor", "two-sessions", "pasv-parked", "list-mlsd", "transfer-quit-pipelined", "abor-while-waiting", "retr-throttled"):
            kinds += ["vanish-control", "close+connect"]
        for kind in kinds:
            # split long scripts so that the pool stays busy
            for j in range(0, len(ks), 40):
                jobs.append((i, kind, ks[j : j + 40], thorough))
    mp = multiprocessing.get_context("fork")
    with mp.Pool(min(16, os.cpu_count() or 4)) as pool:
        results = pool.map(_job, jobs, chunksize=1)
    lines = []
    expect = []
    for idx, kind, out in results:
        sc = corpus[idx]
        for k, r, complaints, pc in out:
            if pc.get("not_fired"):
                res.count("cut_position_beyond_end_of_this_run")
                continue
            res.cases += 1
            res.count("kind=" + kind)
            res.count("scenario=" + sc.name)
            if r is not None and (r["ledger"]["pool"] is not None or pc["in_open"] or pc["in_listener"] or r["transcript"]):
                res.distinct.add((sc.name, kind, k))
            for key in ("undispatched", "in_open", "in_listener"):
                if pc.get(key):
                    res.count("crashpoint=" + key)
            if complaints:
                sig = classify(sc.name, kind, r or {}, complaints)
                res.oracle_failures.append(
                    {"input": {"scenario": sc.name, "cut": kind, "iteration": k}, "what": "; ".join(complaints)[:400], "signature": sig}
                )
            if compare and r is not None:
                pool_cfg = 1 if r["cfg"].get("data_ports") else 0
                mkind = "vanish" if kind.startswith("vanish") else "close"
                half = 1  # the ledger counts sockets the server never closed itself, reset by the peer or not
                lines.append("life cut %s %d %d %d %d %d" % (mkind, pc["undispatched"], pc["in_open"], pc["in_listener"], pool_cfg, half))
                expect.append((sc.name, kind, k, "clean" if not complaints else "leak"))
    if compare and ctx.model_ok and lines:
        mout = drive(lines)
        res.lines += len(lines)
        for (name, kind, k, got), m in zip(expect, mout):
            if m != got:
                if len(res.disagreements) < 12:
                    res.disagreements.append(
                        {"correspondence": "Model.Lifecycle.finalize ledger vs real ledger", "input": {"scenario": name, "cut": kind, "iteration": k}, "impl": got, "model": m}
                    )
                else:
                    res.count("more_disagreements")
    res.samples = [{"scenario": corpus[0].name, "cut": "vanish", "iteration": 5}, {"scenario": corpus[6].name, "cut": "close", "iteration": 30}]
    res.exhaustive = True
    return res


def correspondence(ctx):
    return _run(ctx)


def search(ctx, prior):
    return _run(ctx, compare=False)


def _one(inp, thorough=True):
    names = [s.name for s in scripts.corpus_with_gates(thorough)]
    sc = scripts.corpus_with_gates(thorough)[names.index(inp["scenario"])]
    kind = inp["cut"]
    r = SC.run_scenario(sc, inp["iteration"], CUTS[kind])
    return sc, r, complaints_of(kind, r)


def replay(ctx, doc):
    sc, r, c = _one(doc["failure"]["input"])
    print("transcript:", r["transcript"])
    print("ledger:", r["ledger"])
    print("complaints:", c)
    return bool(c)


def probe_known(ctx, finding):
    sc, r, c = _one(finding["replay"])
    return bool(c) and classify(sc.name, finding["replay"]["cut"], r, c) == finding["signature"]


# the long-lived process: the same probe session after earlier sessions of the same server (props/history.py)
from props import history as _history  # noqa: E402

correspondence, search, replay = _history.attach(PID, correspondence, search, replay, pasts=None)


# somebody else's classes: the documented extension points used the way a third party uses them (props/thirdparty.py)
from props import thirdparty as _thirdparty  # noqa: E402

correspondence, search, replay = _thirdparty.attach(PID, correspondence, search, replay)


# somebody else's machine: the same small sessions in other environments, in child processes (props/envs.py)
from props import envs as _envs  # noqa: E402

correspondence, search, replay = _envs.attach(PID, correspondence, search, replay)
