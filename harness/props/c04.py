"""C04  read/write permissions follow the nearest-ancestor rule on the resolved path (function level).

Correspondence:
  (1) real `User(permissions=table).get_permissions(path)`            vs `Model.getPermissions?`
  (2) the real `PathPermissions` instance found in each live handler's decorator stack (through the
      CDUP->cwd / APPE->stor delegation), re-applied to a recording handler and run on a real
      `Connection` with the real `get_paths`                          vs `Model.permGuard?` on the generated stack
  (3) real `PathPermissions(*ps)` for ps in {(), (r), (w), (r,w), (w,r)}  vs `Model.permLoop`
Oracle: independent longest-prefix match on the independently walked location, evaluated on the
implementation's answer only (returned object identity for (1), refused/called for (2)).

The wire-level half of the property (reply code on the control connection, tree and cwd unchanged by a
refused request) needs the session model and is NOT checked here.
"""
import asyncio
import pathlib

from framework import Result, drive, enc_str, enc_strs

PID = "C04"
RULE = (
    "inputs = (permission table, path) for the lookup and (verb, table, cwd, argument spelling) for the guard; "
    "tables of 0..7 entries drawn from nested / overlapping / sibling / string-prefix-lookalike / relative / "
    "'..'-containing / '//'-rooted / unnormalised spellings, duplicated and shuffled, every r/w combination; "
    "paths = absolute normal paths of depth 0..5; guard arguments = alias groups of one location "
    "('..' detours, relative forms, '//', '.', trailing slash) from 4 working directories; a case is non-trivial "
    "when at least two entries are ancestors of the path, or the winning entry is not the first listed ancestor, "
    "or the argument spelling differs from the plain absolute form; distinct = distinct (table, path[, verb, cwd, arg])"
)
EXPLANATION = (
    "Theorems in Properties/C04.lean hold for every table, path, argument string and working directory; this run "
    "ties Model.getPermissions?/permGuard? to the live User.get_permissions and PathPermissions and evaluates the "
    "longest-prefix oracle on the implementation.  Wire level (550 on the control connection, refused request "
    "changes nothing) is left to the session model."
)
ASSUMPTIONS = [
    "the virtual path handed to get_permissions is absolute and normal (C02.virtual_absnormal)",
    "pathlib.PurePosixPath relative_to/is_relative_to behave as transcribed in Model/Paths.lean (sampled here)",
    "builtin min(key=, default=) keeps the first minimum (sampled here)",
    "function level only: reply delivery, guard order on the wire and 'a refused request changes nothing' "
    "belong to the session model (TODO, not claimed by this check)",
]
GENERATED_OBLIGATIONS = ["Generated.Verb.guards (perm_table, live_guards_single)"]
EXTRA_LEAN_TARGETS = ["AioftpModel.Driver.Perms"]

# the property's own table (from the statement, not from the code)
READ_VERBS = ["cwd", "cdup", "list", "mlsd", "mlst", "retr"]
WRITE_VERBS = ["mkd", "rmd", "dele", "rnfr", "rnto", "stor", "appe"]
OTHER_VERBS = ["pwd", "type", "rest", "pasv", "abor", "quit", "syst", "user"]

ENTRY_POOL = [
    "/", "/a", "/a/b", "/a/b/c", "/a/b/c/d", "/b", "/b/a", "/ab", "/a b", "/a/bb", "/é", "/a/é",
    "a", "a/b", ".", "", "b/..",
    "//", "//a", "//a/b", "///a", "///",
    "/a/../b", "/..", "/a/..", "/a/b/..", "/../a",
    "/a/./b", "/a//b", "/a/", "/./a", "/a/b/",
]
NAMES = ["a", "b", "c", "d", "ab", "bb", "a b", "é"]
CWDS = ["/", "/a", "/a/b", "/b/a"]
BASES = ["/srv/ftp", ".", "/"]


# ------------------------------------------------------------------------------------------------
# independent statement of the rule
# ------------------------------------------------------------------------------------------------
def norm_entry(s):
    """(anchor kind, names) of a configured entry path, read directly off the string"""
    n = len(s) - len(s.lstrip("/"))
    kind = 0 if n == 0 else (2 if n == 2 else 1)
    return kind, [c for c in s.split("/") if c not in ("", ".")]


def expected_index(table, comps):
    """index of the nearest ancestor entry (deepest, first listed among equals) of the absolute
    location `comps`, -1 for none.  table = [(path string, r, w)]"""
    best, best_len = -1, -1
    for i, (p, _r, _w) in enumerate(table):
        kind, names = norm_entry(p)
        if kind == 1 and comps[: len(names)] == names and len(names) > best_len:
            best, best_len = i, len(names)
    return best


def py_walk(cwd_parts, s):
    pos = [] if s.startswith("/") else list(cwd_parts)
    for seg in s.split("/"):
        if seg in ("", "."):
            continue
        if seg == "..":
            if pos:
                pos.pop()
        else:
            pos.append(seg)
    return pos


def effective_table(table):
    """`permissions or [Permission()]`"""
    return table if table else [("/", True, True)]


# ------------------------------------------------------------------------------------------------
# encodings
# ------------------------------------------------------------------------------------------------
def canon(p):
    root = len(p.root)
    parts = list(p.parts[1:] if p.root else p.parts)
    return "%d:%s" % (root, enc_strs(parts))


def enc_table(table):
    if not table:
        return "_"
    return ";".join("%s:%d%d" % (canon(pathlib.PurePosixPath(p)), int(bool(r)), int(bool(w))) for p, r, w in table)


def enc_entry_obj(e):
    return "%s:%d%d" % (canon(e.path), int(bool(e.readable)), int(bool(e.writable)))


# ------------------------------------------------------------------------------------------------
# generators
# ------------------------------------------------------------------------------------------------
def gen_table(rng):
    style = rng.random()
    n = rng.choice([0, 1, 1, 2, 2, 3, 3, 4, 5, 6, 7])
    if style < 0.35:
        # a nested chain plus noise, shuffled, with duplicates of different flags
        chain = ["/", "/a", "/a/b", "/a/b/c", "/a/b/c/d"]
        pool = chain * 2 + [rng.choice(ENTRY_POOL) for _ in range(3)]
    elif style < 0.55:
        pool = ["/a/b", "/a//b", "/a/./b", "/a/b/", "/a", "/", "/ab", "/a/bb"]
    else:
        pool = ENTRY_POOL
    t = [(rng.choice(pool), rng.random() < 0.5, rng.random() < 0.5) for _ in range(n)]
    if t and rng.random() < 0.3:
        p, r, w = rng.choice(t)
        t.insert(rng.randrange(len(t) + 1), (p, not r, not w))  # duplicate path, opposite flags
    if rng.random() < 0.45:
        t.append((rng.choice(["/", "/", "/.", "///", "/a/.."]), rng.random() < 0.4, rng.random() < 0.4))
    rng.shuffle(t)
    return t


def gen_path(rng):
    d = rng.choice([0, 1, 1, 2, 2, 3, 3, 4, 5])
    if rng.random() < 0.6:
        # stay close to the entry pool so that ancestors exist
        base = rng.choice(["/a/b/c/d", "/a/b/c", "/b/a", "/ab", "/a/bb", "/a b", "/é", "/a/é"]).strip("/").split("/")
        comps = base[:d] + [rng.choice(NAMES) for _ in range(max(0, d - len(base)))]
    else:
        comps = [rng.choice(NAMES) for _ in range(d)]
    return comps


def aliases(rng, cwd_parts, comps):
    """spellings of the absolute location `comps` as seen from cwd"""
    plain = "/" + "/".join(comps)
    out = [plain]
    k = rng.randrange(len(comps) + 1)
    out.append("/" + "/".join(comps[:k] + ["zz", ".."] + comps[k:]))
    out.append("/" + "/".join(comps[:k] + [".", ""] + comps[k:]) + ("/" if comps else ""))
    out.append("//" + "/".join(comps))
    out.append("/../.." + plain)
    # relative forms
    common = 0
    while common < min(len(cwd_parts), len(comps)) and cwd_parts[common] == comps[common]:
        common += 1
    rel = [".."] * (len(cwd_parts) - common) + comps[common:]
    out.append("/".join(rel))  # '' when the location is cwd itself
    out.append("/".join([".."] * (len(cwd_parts) + rng.randrange(3)) + comps))
    out.append("./" + "/".join(rel + ["q", ".."]))
    return out


# ------------------------------------------------------------------------------------------------
# implementation runners
# ------------------------------------------------------------------------------------------------
def _layers(func):
    """decorator instances of a handler, outermost first, and the innermost plain function"""
    out = []
    f = func
    n = 0
    while hasattr(f, "__wrapped__") and n < 30:
        n += 1
        deco = None
        if f.__closure__:
            for name, cell in zip(f.__code__.co_freevars, f.__closure__):
                if name == "self":
                    deco = cell.cell_contents
        out.append(deco)
        f = f.__wrapped__
    return out, f


class _Delegated(Exception):
    pass


def impl_eval(jobs):
    """jobs: list of dicts.  kind 'get': table, path -> (entry canon, identity index)
    kind 'guard': verb, table, base, cwd, arg -> outcome string
    kind 'guardps': ps, table, base, cwd, arg -> outcome string"""
    import aioftp

    srvmod = aioftp.server
    out = []

    async def main():
        server = aioftp.Server()
        perm_cache = {}

        def mk_user(table, base=".", home=None):
            perms = [aioftp.Permission(p, readable=r, writable=w) for p, r, w in table]
            if home is not None:
                return aioftp.User(base_path=base, home_path=home, permissions=perms)
            return aioftp.User(base_path=base, permissions=perms)

        async def perm_of(verb):
            """PathPermissions instance guarding `verb` and, for a path-typed delegation, how to build the argument"""
            if verb in perm_cache:
                return perm_cache[verb]
            res = (None, None)
            bound = server.commands_mapping.get(verb)
            if bound is not None:
                layers, raw = _layers(bound.__func__)
                found = [d for d in layers if isinstance(d, srvmod.PathPermissions)]
                if found:
                    res = (found[0], None)
                else:
                    methods = {getattr(b, "__func__", b).__name__: b for b in server.commands_mapping.values()}
                    hit = []

                    class Spy:
                        def __getattr__(self, name):
                            if name in methods:
                                def call(*a, **k):
                                    hit.append((name, a))
                                    raise _Delegated()
                                return call
                            raise AttributeError(name)

                    marker = pathlib.PurePosixPath("/__m1/__m2")
                    conn = srvmod.Connection(current_directory=marker, user=mk_user([]), response=lambda *a: None)
                    try:
                        await raw(Spy(), conn, "__rest")
                    except _Delegated:
                        pass
                    except Exception:  # noqa
                        pass
                    if hit:
                        name, a = hit[0]
                        layers2, _ = _layers(methods[name].__func__)
                        found2 = [d for d in layers2 if isinstance(d, srvmod.PathPermissions)]
                        how = None
                        if len(a) >= 2 and a[1] == marker.parent:
                            how = "parent"
                        elif len(a) >= 2 and a[1] == "__rest":
                            how = None
                        else:
                            how = "unknown"
                        if found2:
                            res = (found2[0], how)
            perm_cache[verb] = res
            return res

        async def run_guard(deco, table, base, cwd, arg):
            replies = []
            called = []

            async def handler(cls, connection, rest, *args):
                called.append(rest)
                return True

            user = mk_user(table, base)
            conn = srvmod.Connection(
                current_directory=pathlib.PurePosixPath(cwd), user=user, response=lambda *a: replies.append(a)
            )
            try:
                ret = await deco(handler)(server, conn, arg)
            except Exception as e:  # noqa
                return "EXC:" + type(e).__name__
            if replies == [("550", "permission denied")] and ret is True and not called:
                return "refused"
            if not replies and called and ret is True:
                return "called"
            if not replies and not called and ret is None:
                return "fell"
            return "other:%r:%r:%r" % (replies, ret, called)

        for j in jobs:
            if j["kind"] == "get":
                user = mk_user(j["table"], home=j.get("home"))
                try:
                    got = await user.get_permissions(pathlib.PurePosixPath(j["path"]))
                except Exception as e:  # noqa
                    out.append(("EXC", type(e).__name__))
                    continue
                idx = next((i for i, e in enumerate(user.permissions) if e is got), -1)
                out.append((enc_entry_obj(got), idx))
            elif j["kind"] == "guard":
                deco, how = await perm_of(j["verb"])
                if deco is None:
                    out.append("noguard")
                    continue
                arg = j["arg"]
                if how == "parent":
                    arg = pathlib.PurePosixPath(j["cwd"]).parent
                elif how == "unknown":
                    out.append("other:unrecognised delegation")
                    continue
                out.append(await run_guard(deco, j["table"], j["base"], j["cwd"], arg))
            else:
                names = {"r": "readable", "w": "writable"}
                deco = srvmod.PathPermissions(*[names[c] for c in j["ps"]])
                out.append(await run_guard(deco, j["table"], j["base"], j["cwd"], j["arg"]))

    asyncio.run(main())
    return out


# ------------------------------------------------------------------------------------------------
# oracle
# ------------------------------------------------------------------------------------------------
def oracle_get(j, got):
    if got[0] == "EXC":
        return "lookup", "get_permissions raised %s" % got[1]
    table = effective_table(j["table"])
    comps = [c for c in j["path"].split("/") if c]
    want = expected_index(table, comps)
    entry, idx = got
    if idx >= len(table):
        return "nearest", "the decision for %r (home directory %r) was taken from entry #%d of the user's table, %s - the table given to the constructor has %d entries" % (j["path"], j.get("home", "/"), idx, entry, len(table))
    if want == -1:
        if idx != -1 and not j["table"] == []:
            return "nearest", "no entry is an ancestor of %r but entry #%d %r was returned" % (j["path"], idx, table[idx])
        if not entry.endswith(":11") or not entry.startswith("1:~"):
            return "nearest", "default entry for %r is not allow-all '/' but %s" % (j["path"], entry)
        return None
    if idx != want:
        # identical duplicates (same location, same flags) are unobservable: any of them is the nearest entry
        if idx >= 0 and norm_entry(table[idx][0]) == norm_entry(table[want][0]) and table[idx][1:] == table[want][1:]:
            return None
        return "nearest", "nearest ancestor of %r is entry #%d %r (deepest, first listed), got %s" % (
            j["path"], want, table[want], ("entry #%d %r" % (idx, table[idx])) if idx >= 0 else "the default")
    return None


def oracle_guard(j, got):
    verb = j["verb"]
    if verb not in READ_VERBS and verb not in WRITE_VERBS:
        return None
    table = effective_table(j["table"])
    # (the working directory a session starts in is the user's home_path as given: it may hold `.` and `..`)
    cwd_parts = py_walk([], j["cwd"])
    loc = cwd_parts[:-1] if verb == "cdup" else py_walk(cwd_parts, j["arg"])
    i = expected_index(table, loc)
    r, w = (True, True) if i == -1 else (table[i][1], table[i][2])
    allowed = r if verb in READ_VERBS else w
    want = "called" if allowed else "refused"
    if got == "noguard" and allowed:
        return None  # no guard at all: the handler runs, which is what an allowing entry asks for
    if got != want:
        return "guard", "%s %r from %s addresses /%s whose nearest entry %s is %s for it: expected %s, guard %s" % (
            verb.upper(), j["arg"], j["cwd"], "/".join(loc), "(default)" if i == -1 else repr(table[i]),
            "allowing" if allowed else "not allowing", want, got)
    return None


# ------------------------------------------------------------------------------------------------
# the run
# ------------------------------------------------------------------------------------------------
def build_jobs(ctx, scale=1):
    rng = ctx.rng
    jobs = []
    # (1) lookups
    for _ in range(ctx.pick(30000, 300000) * scale):
        t = gen_table(rng)
        path = "/" + "/".join(gen_path(rng))
        job = {"kind": "get", "table": t, "path": path}
        if rng.random() < 0.25:
            # the user's other constructor arguments do not enter the decision: a home directory at, above or below the
            # location asked about (and no entry of the table for it)
            comps = [c for c in path.split("/") if c]
            job["home"] = "/" + "/".join(comps[: rng.randint(0, len(comps))] + rng.choice([[], [], ["home"]]))
        jobs.append(job)
    # fixed: the tutorial tables and the suite's two cases
    guido = [("/", False, False), ("/Guido", True, True)]
    for p in ["/", "/Guido", "/Guido/x", "/Guidoo", "/etc"]:
        jobs.append({"kind": "get", "table": guido, "path": p})
    closed = [("/", True, True), ("/srv", False, False)]
    for home, p in (("/srv/home", "/srv/home"), ("/srv/home", "/srv/home/x"), ("/srv/home", "/srv"), ("/srv", "/srv/x"), ("/other", "/other/x")):
        jobs.append({"kind": "get", "table": closed, "path": p, "home": home})
    jobs.append({"kind": "get", "table": [], "path": "/x"})
    # (2) live guards on alias groups
    ngroups = ctx.pick(160, 1600) * scale
    for g in range(ngroups):
        t = gen_table(rng)
        comps = gen_path(rng)[:4]
        cwd = CWDS[g % len(CWDS)]
        cwd_parts = [c for c in cwd.split("/") if c]
        base = BASES[g % len(BASES)]
        al = aliases(rng, cwd_parts, comps)
        verbs = READ_VERBS + WRITE_VERBS
        for k, arg in enumerate(al):
            for verb in (verbs if k < 2 else rng.sample(verbs, 4)):
                jobs.append({"kind": "guard", "verb": verb, "table": t, "base": base, "cwd": cwd, "arg": arg, "group": g})
        if g % 10 == 0:
            for verb in OTHER_VERBS:
                jobs.append({"kind": "guard", "verb": verb, "table": t, "base": base, "cwd": cwd, "arg": al[0], "group": g})
    # (2b) the working directory of a session that has not moved yet is the user's home_path AS GIVEN - with `..`, `.`
    #      and doubled slashes if the configuration spells it so; a relative request made from there addresses the
    #      location the whole spelling walks to
    for g in range(ctx.pick(60, 600) * scale):
        t = gen_table(rng)
        comps = gen_path(rng)[:3]
        home = rng.choice(["/a/../b", "/a/b/..", "/a/./b", "/b/../a/../b/a", "/../a", "/a//b/../b", "/x/y/../../a"])
        arg = rng.choice(["/".join(comps) or ".", ".", "c", "../" + "/".join(comps), "./" + "/".join(comps)])
        # (not CDUP: it goes to the LEXICAL parent of the stored working directory, which for a home spelled `/a/b/..`
        #  is `/a/b` - a quirk of a configuration spelling the property does not list, see DESIGN 11.6)
        for verb in rng.sample([v for v in READ_VERBS + WRITE_VERBS if v != "cdup"], 5):
            jobs.append({"kind": "guard", "verb": verb, "table": t, "base": BASES[g % len(BASES)], "cwd": home, "arg": arg, "group": 10**6 + g})
    # (3) the loop as written, arbitrary permission tuples
    for g in range(ctx.pick(150, 1500) * scale):
        t = gen_table(rng)
        comps = gen_path(rng)[:4]
        cwd = rng.choice(CWDS)
        arg = rng.choice(aliases(rng, [c for c in cwd.split("/") if c], comps))
        for ps in ["", "r", "w", "rw", "wr", "rr", "wwr"]:
            jobs.append({"kind": "guardps", "ps": ps, "table": t, "base": ".", "cwd": cwd, "arg": arg})
    return jobs


def job_line(j):
    if j["kind"] == "get":
        return "perms get %s %s" % (enc_table(j["table"]), canon(pathlib.PurePosixPath(j["path"])))
    b = canon(pathlib.PurePosixPath(j["base"]))
    c = canon(pathlib.PurePosixPath(j["cwd"]))
    if j["kind"] == "guard":
        if j["verb"] == "cdup":
            return "perms guardP cdup %s %s %s %s" % (enc_table(j["table"]), b, c, canon(pathlib.PurePosixPath(j["cwd"]).parent))
        return "perms guard %s %s %s %s %s" % (j["verb"], enc_table(j["table"]), b, c, enc_str(j["arg"]))
    return "perms guardps %s %s %s %s %s" % (j["ps"] or "-", enc_table(j["table"]), b, c, enc_str(j["arg"]))


def impl_canon(j, g):
    if j["kind"] == "get":
        return "EXC" if g[0] == "EXC" else g[0]
    return "EXC" if g.startswith("EXC") else g


def _nontrivial(j):
    table = effective_table(j["table"])
    if j["kind"] == "get":
        comps = [c for c in j["path"].split("/") if c]
    else:
        cwd_parts = [c for c in j["cwd"].split("/") if c]
        comps = cwd_parts[:-1] if j.get("verb") == "cdup" else py_walk(cwd_parts, j["arg"])
    anc = [i for i, (p, _r, _w) in enumerate(table) if norm_entry(p)[0] == 1 and comps[: len(norm_entry(p)[1])] == norm_entry(p)[1]]
    win = expected_index(table, comps)
    nt = len(anc) >= 2 or (anc and win != anc[0])
    if j["kind"] != "get":
        nt = nt or j["arg"] != "/" + "/".join(comps)
    return nt, len(anc), (anc.index(win) if anc else -1)


def _run(ctx, oracle_only=False, scale=1):
    res = Result()
    jobs = build_jobs(ctx, scale)
    got = impl_eval(jobs)
    for j, g in zip(jobs, got):
        res.cases += 1
        nt, nanc, pos = _nontrivial(j)
        key = (j["kind"], j.get("verb", j.get("ps", "")), enc_table(j["table"]), j.get("path", ""), j.get("cwd", ""), j.get("arg", ""))
        if nt:
            res.distinct.add(key)
        res.count("kind=%s" % j["kind"])
        if j["kind"] == "get":
            res.count("get:ancestors=%d" % min(nanc, 5))
            res.count("get:winner_pos_among_ancestors=%d" % min(pos, 4))
            res.count("get:table_size=%d" % len(j["table"]))
            why = oracle_get(j, g)
        elif j["kind"] == "guard":
            res.count("guard:verb=%s" % j["verb"])
            res.count("guard:outcome=%s" % (g if g in ("refused", "called", "fell", "noguard") else "other"))
            why = oracle_guard(j, g)
        else:
            res.count("guardps:ps=%s:%s" % (j["ps"] or "()", g if g in ("refused", "called", "fell") else "other"))
            why = None
        if why:
            cls, text = why
            inp = {k: v for k, v in j.items() if k != "group"}
            res.oracle_failures.append({"input": inp, "what": text, "signature": "C04:" + cls})
    if not oracle_only and ctx.model_ok:
        lines = [job_line(j) for j in jobs]
        outs = drive(lines, shards=8)
        res.lines += len(lines)
        for j, g, o in zip(jobs, got, outs):
            want = impl_canon(j, g)
            if want != o:
                if len(res.disagreements) < 20:
                    res.disagreements.append(
                        {
                            "correspondence": {"get": "Model.getPermissions? vs User.get_permissions",
                                               "guard": "Model.permGuard? on Generated.Verb.guards vs live PathPermissions layer",
                                               "guardps": "Model.permLoop vs PathPermissions(*ps)"}[j["kind"]],
                            "input": {k: v for k, v in j.items() if k != "group"},
                            "model": o,
                            "impl": want,
                        }
                    )
                else:
                    res.count("more_disagreements")
    picks = [i for i, j in enumerate(jobs) if _nontrivial(j)[0]][:: max(1, len(jobs) // 6)][:6]
    res.samples = [{"input": {k: v for k, v in jobs[i].items() if k != "group"}, "impl": got[i]} for i in picks]
    res.notes.append(
        "wire level not covered here: reply code on the control connection, order of the permission guard after the "
        "connection/path guards, and 'a refused request leaves tree and cwd unchanged' need the session model (TODO)"
    )
    res.exhaustive = False
    return res


def _mutable_tables(ctx):
    """a user manager that refreshes a user's table IN PLACE (the `permissions` list is the user's, documented as a
    list): every decision is taken on the table as it is at that moment, whatever was looked up before"""
    import aioftp

    res = Result()
    rng = ctx.rng

    async def main():
        for n in range(ctx.pick(400, 4000)):
            t1, t2 = gen_table(rng) or [("/", True, True)], gen_table(rng) or [("/", False, False)]
            p1, p2 = "/" + "/".join(gen_path(rng)), "/" + "/".join(gen_path(rng))
            how = ("slice-assign", "append", "insert-first", "delete", "extend", "clear-and-extend")[n % 6]
            user = aioftp.User(permissions=[aioftp.Permission(p, readable=r, writable=w) for p, r, w in t1])
            new = [aioftp.Permission(p, readable=r, writable=w) for p, r, w in t2]
            await user.get_permissions(pathlib.PurePosixPath(p1))
            if how == "slice-assign":
                user.permissions[:] = new
            elif how == "append":
                user.permissions.append(new[0])
            elif how == "insert-first":
                user.permissions.insert(0, new[0])
            elif how == "delete":
                del user.permissions[rng.randrange(len(user.permissions))]
            elif how == "extend":
                user.permissions.extend(new)
            else:
                user.permissions.clear()
                user.permissions.extend(new)
            now = [(str(e.path), e.readable, e.writable) for e in user.permissions]
            res.cases += 1
            res.count("mutable_table:" + how)
            res.distinct.add(("mutable-table", how, n))
            inp = {"kind": "table-changed-in-place", "how": how, "table_before": t1, "table_now": now, "looked_up_before": p1, "path": p2}
            try:
                got = await user.get_permissions(pathlib.PurePosixPath(p2))
            except Exception as e:  # noqa
                res.oracle_failures.append({"input": inp, "what": "get_permissions raised %s after the table was changed in place (%s)" % (type(e).__name__, how), "signature": "C04:nearest-on-a-stale-table"})
                continue
            want = expected_index(now, [c for c in p2.split("/") if c]) if now else -1
            if want == -1:
                ok = got not in user.permissions and got.readable and got.writable
            else:
                ok = got is user.permissions[want] or (str(got.path), got.readable, got.writable) == now[want] and norm_entry(str(got.path)) == norm_entry(now[want][0])
            if not ok:
                res.oracle_failures.append({"input": inp, "what": "after the user's table was changed in place (%s) the decision for %r is taken from %r; on the table as it is now the nearest entry is %s" % (
                    how, p2, (str(got.path), got.readable, got.writable), repr(now[want]) if want >= 0 else "none (default allow-all)"), "signature": "C04:nearest-on-a-stale-table"})

    asyncio.run(main())
    return res


def correspondence(ctx):
    r = _run(ctx)
    from props import c04_wire

    r.merge(c04_wire.run(ctx))
    r.merge(c04_wire.run_late(ctx))
    r.merge(c04_wire.run_pipelined(ctx))
    r.merge(_mutable_tables(ctx))
    return r


def search(ctx, prior):
    r = _run(ctx, oracle_only=True, scale=2)
    from props import c04_wire

    r.merge(c04_wire.run(ctx, compare=False))
    r.merge(c04_wire.run_late(ctx))
    r.merge(c04_wire.run_pipelined(ctx))
    r.merge(_mutable_tables(ctx))
    return r


def replay(ctx, doc):
    if doc["failure"]["input"].get("kind") == "table-changed-in-place":
        import aioftp

        i = doc["failure"]["input"]

        async def go():
            mk = lambda t: [aioftp.Permission(p, readable=r, writable=w) for p, r, w in t]  # noqa: E731
            user = aioftp.User(permissions=mk(i["table_before"]))
            await user.get_permissions(pathlib.PurePosixPath(i["looked_up_before"]))
            user.permissions[:] = mk(i["table_now"])
            got = await user.get_permissions(pathlib.PurePosixPath(i["path"]))
            want = expected_index([tuple(x) for x in i["table_now"]], [c for c in i["path"].split("/") if c])
            print("decision from", (str(got.path), got.readable, got.writable), "- nearest entry now:", i["table_now"][want] if want >= 0 else None)
            return (got is not user.permissions[want]) if want >= 0 else (got in user.permissions)

        return asyncio.run(go())
    if "late_plan" in doc["failure"]["input"]:
        import latewire as LW
        from props import c04_wire
        from props import late_common as LC

        plan = [tuple(x) for x in doc["failure"]["input"]["late_plan"]]
        recs = LW.run_plan((c04_wire.users(), [None], c04_wire.W_TREE, plan, ["USER bob"]))
        f = LC.c04_oracle(plan, recs, c04_wire.nearest) if not isinstance(recs, str) else {"what": recs}
        print("plan:", plan)
        print("oracle:", f)
        return f is not None
    if "wire_commands" in doc["failure"]["input"] or doc["failure"]["input"].get("kind") == "pipelined":
        from props import c04_wire

        return c04_wire.replay(doc["failure"]["input"])
    j = dict(doc["failure"]["input"])
    j["table"] = [tuple(e) for e in j["table"]]
    got = impl_eval([j])[0]
    why = oracle_get(j, got) if j["kind"] == "get" else oracle_guard(j, got)
    print("implementation:", got, "->", why)
    return why is not None


# somebody else's classes: the documented extension points used the way a third party uses them (props/thirdparty.py)
from props import thirdparty as _thirdparty  # noqa: E402

correspondence, search, replay = _thirdparty.attach(PID, correspondence, search, replay)


# somebody else's machine: the same small sessions in other environments, in child processes (props/envs.py)
from props import envs as _envs  # noqa: E402

correspondence, search, replay = _envs.attach(PID, correspondence, search, replay)
