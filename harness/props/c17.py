"""C17  concurrent sessions do not interfere with each other.

Two or three scripted sessions working below disjoint directories run CONCURRENTLY on the real server under
the simulated network; the second (third) session is started k loop iterations after the first, for every k
(so their network events and backend calls interleave at every possible skew), optionally with backend
latency.  Each session's transcript, downloaded bytes and the part of the tree below its directory must be
exactly what the same script produces running alone; a session that vanishes or aborts mid-transfer must
not change what the other one sees.  The Lean side (Properties/C17.lean) proves the frame property of the
multi-session model and the commutation of tree operations below disjoint directories.
"""
import asyncio
import multiprocessing
import os

import scenario as SC
import seqrun as S
import simnet
import spyio
import world as W
from framework import Result, drive, enc_str

PID = "C17"
RULE = (
    "case = (pair or triple of session scripts confined to disjoint directories, same or different users, "
    "start skew k in loop iterations for EVERY k of the first script, backend latency off/on, optional "
    "disturbance: one session vanishes / sends ABOR mid-transfer); non-trivial = the scripts overlap in time; "
    "distinct = distinct (scripts, users, skew, latency, disturbance)"
)
EXPLANATION = (
    "Properties/C17.lean: a step of one session leaves every field of every other session unchanged (frame, all "
    "events) and tree operations below disjoint existing directories commute and do not affect each other's reads; "
    "this run checks on the real server that interleaved = solo for every start skew."
)
ASSUMPTIONS = ["scripts are confined to disjoint, existing directories", "no shared limit is exhausted", "in-memory network"]

BIG = bytes((i * 5 + 1) % 256 for i in range(700))

TREE = [
    (("pa",), None), (("pa", "f.bin"), BIG), (("pa", "sub"), None), (("pa", "sub", "x.txt"), b"ax"),
    (("pb",), None), (("pb", "f.bin"), BIG[::-1]), (("pb", "sub"), None), (("pb", "sub", "x.txt"), b"bx"),
    (("pc",), None), (("pc", "f.bin"), b"c" * 300),
]
USERS = [W.UserSpec("alice", "secret", home="/"), W.UserSpec("bob", None, home="/"), W.UserSpec(None, None)]


def script_for(prefix, flavour):
    """a session script confined to /<prefix>; returns coroutine fn(ctl, client_index, login)"""

    async def script(ctl, c, login):
        rec = []

        async def cmd(line, payload=b""):
            codes, out, listing = await ctl.cmd(c, line, payload)
            rec.append((line, codes, out.hex() if out else "", sorted(listing) if listing is not None else None))

        if login == "alice":
            await cmd("USER alice")
            await cmd("PASS secret")
        else:
            await cmd("USER " + login)
        await cmd("CWD /" + prefix)
        if flavour == 0:
            await cmd("EPSV")
            await ctl.data(c)
            await cmd("RETR f.bin")
            await cmd("MKD n1/n2")
            await cmd("EPSV")
            await ctl.data(c)
            await cmd("STOR n1/up.bin", BIG[:333])
            await cmd("RNFR sub/x.txt")
            await cmd("RNTO n1/y.txt")
            await cmd("PASV")
            await ctl.data(c)
            await cmd("MLSD n1")
            await cmd("PWD")
        elif flavour == 1:
            await cmd("REST 100")
            await cmd("PWD")
            await cmd("PASV")
            await ctl.data(c)
            await cmd("REST 50")
            await cmd("RETR f.bin")
            await cmd("DELE sub/x.txt")
            await cmd("RMD sub")
            await cmd("CDUP")
            await cmd("CWD " + prefix)
            await cmd("EPSV")
            await ctl.data(c)
            await cmd("APPE f.bin", b"tail")
            await cmd("TYPE A")
            await cmd("EPSV")
            await ctl.data(c)
            await cmd("LIST")
            await cmd("MLST f.bin")
        else:
            await cmd("RNFR f.bin")
            await cmd("PWD")
            await cmd("EPSV")
            await cmd("RETR f.bin")  # no data connection: 425 after the wait
            await cmd("RNTO g.bin")
            await cmd("EPSV")
            await ctl.data(c)
            await cmd("RETR g.bin")
            await cmd("QUIT")
        return rec

    return script


def subtree(tree_tok, prefix):
    items = [x for x in tree_tok.split(";") if x.split("=", 1)[0].split("|")[0] == enc_str(prefix)]
    return ";".join(items)


async def _run(loop, spec, skews, latency, disturb):
    """spec: list of (prefix, flavour, login); skews[i] = start delay of session i in loop iterations"""
    spy = spyio.Spy()
    spy.delay = latency
    wd = W.World(loop, USERS, spy=spy, server_kwargs={"block_size": 64})
    await wd.start()
    out = {}
    try:
        wd.set_tree(TREE)
        ctl = SC.Ctl(wd)
        clients = []
        for _ in spec:
            clients.append(await ctl.client())
        it0 = loop.iteration
        loop.counting = True

        async def delayed(i):
            prefix, flavour, login = spec[i]
            while loop.iteration - it0 < skews[i]:
                await asyncio.sleep(0)
            return await script_for(prefix, flavour)(ctl, clients[i], login)

        tasks = [loop.create_task(delayed(i)) for i in range(len(spec))]
        if disturb is not None:
            kind, victim, at = disturb

            async def disturber():
                while loop.iteration - it0 < at:
                    await asyncio.sleep(0)
                if kind == "vanish":
                    clients[victim].vanish()
                    tasks[victim].cancel()
                elif kind == "abor":
                    clients[victim].send_raw(b"ABOR\r\n")

            loop.create_task(disturber())
        recs = await asyncio.gather(*tasks, return_exceptions=True)
        loop.counting = False
        out["iterations"] = loop.iteration - it0
        await loop.settle()
        tok = wd.tree()
        for i, (prefix, flavour, login) in enumerate(spec):
            r = recs[i]
            out[i] = {"rec": r if isinstance(r, list) else "EXC %s" % type(r).__name__, "tree": subtree(tok, prefix)}
        for c in clients:
            c.close()
        await loop.settle()
    finally:
        try:
            await wd.stop()
        except Exception:
            wd.finish()
    return out


LOCK_STATES = {"fresh": [], "user-only": ["USER alice"], "logged": ["USER bob"], "logged-pa": ["USER bob", "CWD /pa"], "alice": ["USER alice", "PASS secret"]}
# the same VERB in the same instant, each session on its own paths ({i} = session number, {p} = its directory)
LOCK_CMDS = ["PWD", "MKD /{p}/zz{i}", "CWD /{p}", "MLST /{p}/f.bin", "RNFR /{p}/f.bin", "DELE /{p}/sub/x.txt", "EPSV", "TYPE I", "PASS secret", "REST 5"]


async def _lockstep(loop, states, cmd, who):
    """sessions prepared into different states send the SAME command line in the same instant"""
    wd = W.World(loop, USERS, server_kwargs={"block_size": 64})
    await wd.start()
    out = {}
    try:
        wd.set_tree(TREE)
        clients = []
        for st in states:
            c = await wd.raw_client()
            for line in LOCK_STATES[st]:
                await W.run_line(wd, c, line.encode())
            clients.append(c)
        n0 = [len(c.replies) for c in clients]
        t0 = wd.tree()
        for i in who:
            line = cmd.replace("{i}", str(i)).replace("{p}", "pa" if i == 0 else "pb")
            clients[i].send_raw(line.encode() + b"\r\n")  # written back to back, nothing awaited in between
        await loop.settle()
        await asyncio.sleep(1.5)
        await loop.settle()
        for i in who:
            c = clients[i]
            conn = wd.connection_of(c)
            ok, cwd = wd._get(conn, "current_directory") if conn is not None else (False, None)
            out[i] = {"codes": [x for x, _ in c.replies[n0[i] :]], "cwd": str(cwd) if ok else None, "alive": conn is not None}
        out["tree_changed"] = wd.tree() != t0
        out["tree"] = wd.tree()
        for c in clients:
            c.close()
        await loop.settle()
    finally:
        try:
            await wd.stop()
        except Exception:
            wd.finish()
    return out


def _lock_job(args):
    try:
        return simnet.run(_lockstep, *args)
    except BaseException as e:  # noqa
        return "HARNESS-ERROR %s: %s" % (type(e).__name__, e)


def lockstep_check(ctx, res):
    import itertools

    states = list(LOCK_STATES)
    jobs = []
    for a, b in itertools.permutations(states, 2):
        for cmd in LOCK_CMDS:
            jobs.append(((a, b), cmd, (0, 1)))  # together
            jobs.append(((a, b), cmd, (0,)))  # A alone (B only prepared)
            jobs.append(((a, b), cmd, (1,)))  # B alone
    mp = multiprocessing.get_context("fork")
    with mp.Pool(min(16, os.cpu_count() or 4)) as pool:
        outs = pool.map(_lock_job, jobs, chunksize=8)
    table = dict(zip([(j[0], j[1], j[2]) for j in jobs], outs))
    for (sts, cmd, who), o in table.items():
        if who != (0, 1):
            continue
        res.cases += 1
        res.count("kind=lockstep")
        if isinstance(o, str):
            res.disagreements.append({"correspondence": "lockstep harness", "input": [sts, cmd], "impl": o})
            continue
        res.distinct.add(("lockstep", sts, cmd))
        for i in (0, 1):
            solo = table.get((sts, cmd, (i,)))
            if isinstance(solo, str) or solo is None:
                continue
            if o[i]["codes"] != solo[i]["codes"] or o[i]["cwd"] != solo[i]["cwd"]:
                res.oracle_failures.append({
                    "input": {"kind": "lockstep", "states": list(sts), "command": cmd, "session": i},
                    "what": "session %d (state %r) sending %r at the same instant as a session in state %r got %r / cwd %r; alone it gets %r / cwd %r"
                    % (i, sts[i], cmd, sts[1 - i], o[i]["codes"], o[i]["cwd"], solo[i]["codes"], solo[i]["cwd"]),
                    "signature": "C17:lockstep-differs-from-solo",
                })
                break


# ------------------------------------------------------------------------------------------------
# sessions being torn down: what a session of the same user left behind must not change what the next one gets
# ------------------------------------------------------------------------------------------------
TEARDOWNS = [
    ("user-then-vanish", ["USER foo"], "vanish"),
    ("user-then-close", ["USER foo"], "close"),
    ("user-then-quit", ["USER foo", "QUIT"], None),
    ("wrong-pass-then-quit", ["USER foo", "PASS nope", "QUIT"], None),
    ("wrong-pass-then-vanish", ["USER foo", "PASS nope"], "vanish"),
    ("logged-then-vanish", ["USER foo", "PASS pw", "MKD /t1"], "vanish"),
    ("logged-then-quit", ["USER foo", "PASS pw", "QUIT"], None),
    ("relogin-then-vanish", ["USER foo", "PASS pw", "USER foo"], "vanish"),
    ("pasv-then-vanish", ["USER foo", "PASS pw", "EPSV"], "vanish"),
    # sessions that ASKED about things they never had (a transfer before any PASV/EPSV is answered 503, a rename target
    # before RNFR, ABOR with nothing running ...) and then end in each way
    ("transfer-without-passive-then-quit", ["USER foo", "PASS pw", "LIST", "QUIT"], None),
    ("transfer-without-passive-then-vanish", ["USER foo", "PASS pw", "RETR /pa/f.txt", "MLSD"], "vanish"),
    ("transfer-without-passive-then-close", ["USER foo", "PASS pw", "STOR /t9", "APPE /t9"], "close"),
    ("rnto-abor-rest-without-anything-then-quit", ["USER foo", "PASS pw", "RNTO x", "ABOR", "REST 3", "QUIT"], None),
    ("passive-never-connected-then-quit", ["USER foo", "PASS pw", "EPSV", "LIST", "QUIT"], None),
    ("passive-twice-then-close", ["USER foo", "PASS pw", "PASV", "EPSV"], "close"),
]


async def _teardown_case(loop, first, end, with_first, holder=False):
    users = [W.UserSpec("foo", "pw", max_conn=1), W.UserSpec("bar", None)]
    wd = W.World(loop, users)
    await wd.start()
    out = {}
    try:
        wd.set_tree(TREE)
        if holder:
            # the account's only slot is HELD by a session that stays: whoever else names the account is refused, and
            # being refused (and leaving) takes nothing away from the holder
            h = await wd.raw_client()
            await W.run_line(wd, h, b"USER foo")
            await W.run_line(wd, h, b"PASS pw")
        if with_first:
            a = await wd.raw_client()
            for line in first:
                if a.eof:
                    break
                await W.run_line(wd, a, line.encode())
            if end == "vanish":
                a.vanish()
            elif end == "close":
                a.close()
            await loop.settle()
            await asyncio.sleep(1.0)
            await loop.settle()
        b = await wd.raw_client()
        recs = []
        for line in ("USER foo", "PASS pw", "PWD", "MKD /t2", "QUIT"):
            codes, _, _, _ = await W.run_line(wd, b, line.encode())
            recs.append(codes)
        out = {"recs": recs, "tree_has_t2": "t2" in wd.tree()}
        if holder:
            hp, _, _, _ = await W.run_line(wd, h, b"PWD")
            out["holder_pwd"] = hp
            out["foo_free"] = wd.server.user_manager.available_connections[wd.users[0]].value
            await W.run_line(wd, h, b"QUIT")
            await loop.settle()
            out["foo_free_after"] = wd.server.user_manager.available_connections[wd.users[0]].value
        await loop.settle()
    finally:
        try:
            await wd.stop()
        except Exception:
            wd.finish()
    return out


def _teardown_job(args):
    try:
        return simnet.run(_teardown_case, *args, wall_limit=60)
    except BaseException as e:  # noqa
        return "HARNESS-ERROR %s: %s" % (type(e).__name__, e)


HELD = [
    ("refused-then-quit", ["USER foo", "QUIT"], None),
    ("refused-then-vanish", ["USER foo"], "vanish"),
    ("refused-then-close", ["USER foo", "PASS pw"], "close"),
    ("refused-twice-then-quit", ["USER foo", "USER foo", "PASS pw", "QUIT"], None),
    ("refused-then-another-account", ["USER foo", "USER bar", "PWD", "QUIT"], None),
]


def teardown_check(ctx, res):
    solo_held = _teardown_job(([], None, False, True))
    for name, first, end in HELD:
        res.cases += 1
        res.count("kind=refused-beside-the-holder")
        o = _teardown_job((first, end, True, True))
        if isinstance(o, str) or isinstance(solo_held, str):
            res.disagreements.append({"correspondence": "teardown harness", "input": name, "impl": o if isinstance(o, str) else solo_held})
            continue
        res.distinct.add(("held", name))
        if o != solo_held:
            res.oracle_failures.append({
                "input": {"kind": "teardown", "first_session": first, "ends_by": end or "QUIT", "name": name, "holder": True},
                "what": "foo's only slot is held by a session that stays; another session %s: afterwards %r; without that other session %r" % (name, o, solo_held),
                "signature": "C17:refused-session-changes-the-holder's-account",
            })
    solo = _teardown_job(([], None, False))
    for name, first, end in TEARDOWNS:
        res.cases += 1
        res.count("kind=teardown-then-next-session")
        o = _teardown_job((first, end, True))
        if isinstance(o, str) or isinstance(solo, str):
            res.disagreements.append({"correspondence": "teardown harness", "input": name, "impl": o if isinstance(o, str) else solo})
            continue
        res.distinct.add(("teardown", name))
        if o != solo:
            res.oracle_failures.append({
                "input": {"kind": "teardown", "first_session": first, "ends_by": end or "QUIT", "name": name},
                "what": "a session of the same (connection-limited) user that %s left the next session with %r; alone it gets %r" % (name, o, solo),
                "signature": "C17:torn-down-session-changes-the-next",
            })


# ------------------------------------------------------------------------------------------------
# a BUSY neighbour: one session repeats something many times - refused, failing or plain - in its own directory;
# whatever a server may keep count of across sessions, another session must find it as if it were alone
# ------------------------------------------------------------------------------------------------
BUSY = [
    ("stor-onto-a-directory", ["USER bob", "EPSV"], ["@data", "STOR /pa/sub"]),
    ("restart-upload-of-a-missing-file", ["USER bob", "EPSV"], ["@data", "REST 5", "STOR /pa/missing.bin"]),
    ("retr-of-a-missing-file", ["USER bob", "EPSV"], ["RETR /pa/missing.bin"]),
    ("retr", ["USER bob", "EPSV"], ["@data", "RETR /pa/sub/x.txt"]),
    ("list-of-a-missing-directory", ["USER bob", "EPSV"], ["@data", "LIST /pa/nothing"]),
    ("mlsd", ["USER bob", "EPSV"], ["@data", "MLSD /pa"]),
    ("mkd-of-an-existing-directory", ["USER bob"], ["MKD /pa/sub"]),
    ("cwd-to-a-missing-directory", ["USER bob"], ["CWD /pa/nothing"]),
    ("passive-listener-churn", ["USER bob"], ["EPSV", "PASV"]),
    ("relogin-churn", [], ["USER alice", "PASS wrong", "USER bob"]),
    ("abor-with-nothing-to-abort", ["USER bob"], ["ABOR"]),
    ("unknown-verbs", ["USER bob"], ["FROB x"]),
    ("transfer-without-data-connection", ["USER bob", "EPSV"], ["RETR /pa/sub/x.txt"]),
    ("new-listener-then-transfer-without-data-connection", ["USER bob"], ["EPSV", "RETR /pa/sub/x.txt"]),
    ("options-nobody-implements", ["USER bob"], ["OPTS UTF8 ON", "OPTS MLST type;size;", "FEAT", "STAT", "SITE CHMOD 777 x", "TYPE A", "TYPE L 8", "MODE S", "STRU F", "OPTS UTF8 OFF"]),
    ("options-utf8-on", ["USER bob"], ["OPTS UTF8 ON"]),
    ("options-utf-8-off", ["USER bob"], ["OPTS UTF-8 OFF", "opts utf8 off"]),
]
# the same neighbours on a server whose passive ports come from a pool of two: what one session does with the pool
BUSY_POOL = ["transfer-without-data-connection", "new-listener-then-transfer-without-data-connection", "passive-listener-churn", "stor-onto-a-directory", "retr", "list-of-a-missing-directory"]
BUSY_FOLLOW = ["USER bob", "EPSV", "@data", "STOR /pb/new.bin", "@data", "RETR /pb/f.bin", "@data", "LIST /pb", "REST 3", "@data", "RETR /pb/sub/x.txt", "MKD /pb/made", "MKD /pb/\u00fcml\u00e4ut-\u4e2d", "EPSV", "@data", "MLSD /pb", "QUIT"]


async def _busy_case(loop, prep, repeat, times, stays, with_first, server_kwargs=None):
    wd = W.World(loop, USERS, server_kwargs=dict(server_kwargs or {}))
    await wd.start()
    out = {}
    try:
        wd.set_tree(TREE)
        a = None
        if with_first:
            a = await wd.raw_client()
            for k in range(-1, times):
                for line in (prep if k < 0 else repeat):
                    if a.eof:
                        break
                    if line == "@data":
                        await W.data_connect(wd, a)
                    else:
                        await W.run_line(wd, a, line.encode(), payload=b"payload of a")
            if not stays:
                await W.run_line(wd, a, b"QUIT")
                await loop.settle()
        b = await wd.raw_client()
        recs = []
        for line in BUSY_FOLLOW:
            if line == "@data":
                await W.data_connect(wd, b)
                continue
            codes, _, data, listing = await asyncio.wait_for(W.run_line(wd, b, line.encode(), payload=b"payload of b"), 600)
            recs.append((line, codes, data.hex() if data else "", sorted(listing) if listing else None))
        out = {"recs": recs, "pb": subtree(wd.tree(), "pb")}
        if a is not None and stays:
            a.close()
        await loop.settle()
    finally:
        try:
            await wd.stop()
        except Exception:
            wd.finish()
    return out


def _busy_job(args):
    try:
        return simnet.run(_busy_case, *args)
    except BaseException as e:  # noqa
        return "HARNESS-ERROR %s: %s" % (type(e).__name__, e)


def busy_check(ctx, res):
    solo = _busy_job(([], [], 0, False, False))
    times = 70 if not ctx.thorough() else 300
    jobs = [(prep, rep, times, stays, True) for _, prep, rep in BUSY for stays in (True, False)]
    pool_kw = {"data_ports": [41001, 41002]}
    solo_pool = _busy_job(([], [], 0, False, False, pool_kw))
    pool_jobs = [(prep, rep, 6, stays, True, pool_kw) for name, prep, rep in BUSY if name in BUSY_POOL for stays in (True, False)]
    pool_names = [name for name, _, _ in BUSY if name in BUSY_POOL for _ in (0, 1)]
    mp = multiprocessing.get_context("fork")
    with mp.Pool(min(16, os.cpu_count() or 4)) as pool:
        outs = pool.map(_busy_job, jobs, chunksize=1)
        pool_outs = pool.map(_busy_job, pool_jobs, chunksize=1)
    for name, job, o in zip(pool_names, pool_jobs, pool_outs):
        res.cases += 1
        res.count("kind=busy-neighbour-port-pool")
        if isinstance(o, str) or isinstance(solo_pool, str):
            res.disagreements.append({"correspondence": "busy-neighbour harness (pool)", "input": [name, job[3]], "impl": o if isinstance(o, str) else solo_pool})
            continue
        res.distinct.add(("busy-pool", name, job[3]))
        if o != solo_pool:
            d = next(((x, y) for x, y in zip(o["recs"], solo_pool["recs"]) if x != y), None)
            res.oracle_failures.append({
                "input": {"kind": "busy-neighbour", "name": name, "prepare": job[0], "repeat": job[1], "times": job[2], "first_session_stays": job[3], "server_kwargs": pool_kw},
                "what": "on a server with a pool of two passive ports, next to a session that had done %r %d times, another session got %s; alone it gets %s" % (
                    job[1], job[2], (list(d[0])[:2] if d else "a different tree"), (list(d[1])[:2] if d else "")),
                "signature": "C17:busy-neighbour-changes-another-session",
            })
    for (name, prep, rep), k in zip([b for b in BUSY for _ in (0, 1)], range(len(jobs))):
        o, stays = outs[k], jobs[k][3]
        res.cases += 1
        res.count("kind=busy-neighbour")
        if isinstance(o, str) or isinstance(solo, str):
            res.disagreements.append({"correspondence": "busy-neighbour harness", "input": [name, stays], "impl": o if isinstance(o, str) else solo})
            continue
        res.distinct.add(("busy", name, stays))
        if o != solo:
            d = next(((x, y) for x, y in zip(o["recs"], solo["recs"]) if x != y), None)
            res.oracle_failures.append({
                "input": {"kind": "busy-neighbour", "name": name, "prepare": prep, "repeat": rep, "times": times, "first_session_stays": stays},
                "what": "next to a session that had done %r %d times, another session got %s; alone it gets %s" % (
                    rep, times, (list(d[0])[:2] if d else "a different tree"), (list(d[1])[:2] if d else "")),
                "signature": "C17:busy-neighbour-changes-another-session",
            })


# ------------------------------------------------------------------------------------------------
# the shared passive-port pool: what another session did with it must not change what the next one gets
# ------------------------------------------------------------------------------------------------
POOL_FIRSTS = [
    ("refused-while-every-port-was-busy", ["bind", "USER bar", "PASV", "unbind"], None),
    ("refused-twice", ["bind", "USER bar", "EPSV", "unbind", "connect", "bind", "USER bar", "PASV", "unbind"], None),
    ("listener-then-vanish", ["USER bar", "EPSV"], "vanish"),
    ("listener-then-quit", ["USER bar", "PASV", "QUIT"], None),
    ("two-passive-commands-in-one-segment", ["USER bar", "PASV\r\nEPSV", "QUIT"], None),
    ("one-port-busy", ["bind1", "USER bar", "EPSV", "unbind", "QUIT"], None),
    ("transfer-then-close", ["USER bar", "EPSV", "@data", "LIST", "EPSV"], "close"),
]
POOL_PORTS = [41001, 41002]


async def _pool_case(loop, first, end, with_first):
    wd = W.World(loop, [W.UserSpec("bar", None)], server_kwargs={"data_ports": list(POOL_PORTS)})
    await wd.start()
    foreign = {}
    try:
        wd.set_tree(TREE)
        if with_first:
            a = await wd.raw_client()
            for line in first:
                if line in ("bind", "bind1"):
                    for port in POOL_PORTS[: 1 if line == "bind1" else None]:
                        srv = simnet.MemServer(wd.net, None, wd.net.host, port, wd.net.family)
                        wd.net.listeners[port] = srv
                        wd.net.open_listeners.add(srv)
                        foreign[port] = srv
                elif line == "unbind":
                    for port in list(foreign):
                        foreign.pop(port).close()
                elif line == "connect":
                    a = await wd.raw_client()
                elif line == "@data":
                    await W.data_connect(wd, a)
                elif not a.eof:
                    await W.run_line(wd, a, line.encode())
                await loop.settle()
            if end == "vanish":
                a.vanish()
            elif end == "close":
                a.close()
            await loop.settle()
            await asyncio.sleep(1.0)
            await loop.settle()
        recs = []
        for k in range(3):  # as many sessions as there are ports, and one more: each must find a port
            b = await wd.raw_client()
            for line in ("USER bar", "EPSV" if k % 2 else "PASV", "@data", "LIST", "QUIT"):
                if line == "@data":
                    await W.data_connect(wd, b)
                    continue
                if b.eof:
                    recs.append(None)
                    continue
                codes, _, _, _ = await W.run_line(wd, b, line.encode())
                recs.append(codes)
            await loop.settle()
        q = wd.server.available_data_ports
        out = {"recs": recs, "pool": sorted(p for _, p in q._queue)}
    finally:
        for f in foreign.values():
            f.close()
        try:
            await wd.stop()
        except Exception:
            wd.finish()
    return out


def _pool_job(args):
    try:
        return simnet.run(_pool_case, *args)
    except BaseException as e:  # noqa
        return "HARNESS-ERROR %s: %s" % (type(e).__name__, e)


def pool_check(ctx, res):
    solo = _pool_job(([], None, False))
    for name, first, end in POOL_FIRSTS:
        res.cases += 1
        res.count("kind=shared-port-pool-then-next-sessions")
        o = _pool_job((first, end, True))
        if isinstance(o, str) or isinstance(solo, str):
            res.disagreements.append({"correspondence": "port-pool harness", "input": name, "impl": o if isinstance(o, str) else solo})
            continue
        res.distinct.add(("pool", name))
        if o != solo:
            res.oracle_failures.append({
                "input": {"kind": "pool", "first_session": first, "ends_by": end or "QUIT", "name": name},
                "what": "after another session (%s) the next sessions get %r; alone they get %r" % (name, o, solo),
                "signature": "C17:port-pool-use-of-one-session-changes-the-next",
            })


# ------------------------------------------------------------------------------------------------
# no mutable object is shared between two sessions unless it is meant to be (server-wide / per-user state)
# ------------------------------------------------------------------------------------------------
async def _identity_case(loop, server_kwargs):
    import collections

    users = [W.UserSpec("alice", "secret", home="/"), W.UserSpec("bob", None, home="/")]
    server_kwargs = dict(server_kwargs)
    backend = server_kwargs.pop("__backend", "memory")
    wd = W.World(loop, users, server_kwargs=server_kwargs, backend=backend)
    await wd.start()
    out = []
    try:
        wd.set_tree(TREE)
        raws = []
        for login in (["USER bob"], ["USER bob"], ["USER alice", "PASS secret"], []):
            r = await wd.raw_client()
            for line in login:
                await W.run_line(wd, r, line.encode())
            if login:
                await W.run_line(wd, r, b"EPSV")
            raws.append(r)
        srv = wd.server
        allowed = {id(srv.throttle), id(srv.throttle.read), id(srv.throttle.write), id(srv), id(srv.path_io_factory), id(None)}
        for u in wd.users:
            allowed.add(id(u))
            allowed.update(id(x) for x in vars(u).values())
        for t in getattr(srv, "throttle_per_user", {}).values():
            allowed.update((id(t), id(t.read), id(t.write)))
        state = getattr(srv.path_io_factory, "state", None)
        if state is not None:
            allowed.add(id(state))

        def own(v):
            # the library's own classes, and classes derived from them (a backend a user plugs in)
            return any(c.__module__.startswith("aioftp") for c in type(v).__mro__)

        def mutable(v):
            # the library's own objects and plain containers; sockets, streams, the loop and the like are the network's
            return isinstance(v, (set, dict, list, collections.deque, bytearray)) or (own(v) and not isinstance(v, tuple))

        def parts(name, v, depth=0):
            """(label, object) for the value and what it directly holds (only the library's own objects are opened)"""
            yield name, v
            if depth >= 3:
                return
            if isinstance(v, dict):
                for k, x in v.items():
                    yield from parts("%s[%r]" % (name, k), x, depth + 1)
            elif isinstance(v, tuple):
                for k, x in enumerate(v):
                    yield from parts("%s[%d]" % (name, k), x, depth + 1)
            elif own(v):
                fields = dict(vars(v)) if hasattr(v, "__dict__") else {}
                for k in getattr(type(v), "__slots__", ()):
                    if hasattr(v, k):
                        fields[k] = getattr(v, k)
                for k, x in fields.items():
                    if not k.startswith("__"):
                        yield from parts("%s.%s" % (name, k), x, depth + 1)

        per = []
        for stream, conn in srv.connections.items():
            seen = {}
            for key in list(dict.keys(conn)):
                ok, v = wd._get(conn, key)
                if ok:
                    for label, x in parts(key, v):
                        if mutable(x):
                            seen.setdefault(id(x), label)
            for label, x in parts("command_connection.throttles", stream.throttles):
                if mutable(x):
                    seen.setdefault(id(x), label)
            per.append(seen)
        for i in range(len(per)):
            for j in range(i + 1, len(per)):
                for oid in set(per[i]) & set(per[j]):
                    if oid not in allowed:
                        out.append("sessions %d and %d share one mutable object: %s / %s" % (i, j, per[i][oid], per[j][oid]))
        for r in raws:
            r.close()
        await loop.settle()
    finally:
        try:
            await wd.stop()
        except Exception:
            wd.finish()
    return sorted(set(out))


def _identity_job(kw):
    try:
        return simnet.run(_identity_case, kw)
    except BaseException as e:  # noqa
        return "HARNESS-ERROR %s: %s" % (type(e).__name__, e)


IDENTITY_CONFIGS = [{"__backend": "pathio"}, {"__backend": "async"}, {"__backend": "async", "path_timeout": 30}, {}, {"maximum_connections": 5}, {"read_speed_limit": 1000}, {"read_speed_limit_per_connection": 1000, "write_speed_limit_per_connection": 1000}, {"data_ports": [41001, 41002, 41003, 41004]}, {"idle_timeout": 30, "socket_timeout": 5}]


def identity_check(ctx, res):
    for kw in IDENTITY_CONFIGS:
        res.cases += 1
        res.count("kind=shared-mutable-objects")
        o = _identity_job(kw)
        if isinstance(o, str):
            res.disagreements.append({"correspondence": "identity harness", "input": kw, "impl": o})
            continue
        res.distinct.add(("identity", repr(sorted(kw.items()))))
        if o:
            res.oracle_failures.append({"input": {"kind": "identity", "server_options": kw}, "what": o[0] + (" (and %d more)" % (len(o) - 1) if len(o) > 1 else ""), "signature": "C17:sessions-share-a-mutable-object"})


def run_one(spec, skews, latency=0.0, disturb=None):
    loop = SC.ILoop()
    asyncio.set_event_loop(loop)
    try:
        return loop.run_main(_run(loop, spec, skews, latency, disturb))
    finally:
        try:
            pend = [t for t in asyncio.all_tasks(loop) if not t.done()]
            for t in pend:
                t.cancel()
            if pend:
                loop.run_until_complete(asyncio.gather(*pend, return_exceptions=True))
        except Exception:
            pass
        asyncio.set_event_loop(None)
        loop.close()


def _job(args):
    spec, skews, latency, disturb = args
    try:
        return run_one(spec, skews, latency, disturb)
    except BaseException as e:  # noqa
        return "HARNESS-ERROR %s: %s" % (type(e).__name__, e)


SPECS = [
    [("pa", 0, "bob"), ("pb", 1, "bob")],
    [("pa", 0, "alice"), ("pb", 0, "bob")],
    [("pa", 1, "bob"), ("pb", 2, "anonymous")],
    [("pa", 2, "bob"), ("pb", 2, "bob")],
    [("pa", 0, "bob"), ("pb", 1, "alice"), ("pc", 2, "bob")],
]


def gen_jobs(ctx):
    jobs = []
    solo = {}
    for spec in SPECS:
        for s in spec:
            solo[s] = None
    for s in solo:
        for lat in (0.0, 0.003):
            jobs.append(("solo", [s], [0], lat, None))
    for si, spec in enumerate(SPECS):
        n0 = None
        # skew sweep: every k of the first script's length (measured on its solo run)
        base = run_one([spec[0]], [0])
        N = base["iterations"]
        step = 1 if (ctx.thorough() or N < 120) else 2
        for lat in (0.0, 0.003):
            for k in range(0, N + 1, step if lat == 0.0 else 7):
                skews = [0] + [k + 3 * j for j in range(len(spec) - 1)]
                jobs.append(("pair", spec, skews, lat, None))
        # disturbance: the second session vanishes / aborts while the first goes on
        for at in range(5, N, 9):
            jobs.append(("disturb", spec, [0] * len(spec), 0.0, ("vanish", 1, at)))
            jobs.append(("disturb", spec, [0] * len(spec), 0.0, ("abor", 1, at)))
    return jobs


def _check(ctx):
    res = Result()
    jobs = gen_jobs(ctx)
    mp = multiprocessing.get_context("fork")
    with mp.Pool(min(16, os.cpu_count() or 4)) as pool:
        outs = pool.map(_job, [j[1:] for j in jobs], chunksize=4)
    solo = {}
    for j, o in zip(jobs, outs):
        if j[0] == "solo":
            if isinstance(o, str):
                res.disagreements.append({"correspondence": "solo harness", "input": j[1], "impl": o})
            else:
                solo[(j[1][0], j[3])] = o[0]
    for j, o in zip(jobs, outs):
        if j[0] == "solo":
            continue
        kind, spec, skews, lat, disturb = j
        res.cases += 1
        res.count("kind=" + kind)
        res.count("sessions=%d" % len(spec))
        if isinstance(o, str):
            res.disagreements.append({"correspondence": "interleaving harness", "input": [spec, skews, lat, disturb], "impl": o})
            continue
        res.distinct.add((tuple(spec), tuple(skews), lat, disturb))
        for i, s in enumerate(spec):
            if disturb is not None and i == disturb[1]:
                continue  # the disturbed session itself is not compared
            want = solo.get((s, lat))
            if want is None:
                continue
            got = o[i]
            if got["rec"] != want["rec"] or got["tree"] != want["tree"]:
                diff = None
                if isinstance(got["rec"], list) and isinstance(want["rec"], list):
                    for a, b in zip(got["rec"], want["rec"]):
                        if a != b:
                            diff = {"interleaved": list(a)[:2], "alone": list(b)[:2]}
                            break
                    if diff is None and len(got["rec"]) != len(want["rec"]):
                        diff = {"interleaved_steps": len(got["rec"]), "alone_steps": len(want["rec"])}
                if diff is None:
                    diff = {"tree_interleaved": got["tree"][:120], "tree_alone": want["tree"][:120]} if got["tree"] != want["tree"] else {"rec": str(got["rec"])[:200]}
                res.oracle_failures.append({
                    "input": {"sessions": [list(x) for x in spec], "start_skews": skews, "backend_latency": lat, "disturbance": list(disturb) if disturb else None, "session": i},
                    "what": "session %d (%s) behaved differently next to the other session(s) than alone: %s" % (i, s, diff),
                    "signature": "C17:interleaved-differs-from-solo" + (":" + disturb[0] if disturb else ""),
                })
                break
    lockstep_check(ctx, res)
    teardown_check(ctx, res)
    pool_check(ctx, res)
    busy_check(ctx, res)
    identity_check(ctx, res)
    res.samples = [{"sessions": SPECS[0], "start_skews": [0, 17], "backend_latency": 0.0}, {"sessions": SPECS[4], "start_skews": [0, 8, 11], "backend_latency": 0.003}]
    return res


def correspondence(ctx):
    r = _check(ctx)
    # model side: the frame property is a theorem; the driver is exercised for the multi-session step on one history
    if ctx.model_ok:
        lines = ["sys init n 0 " + " ".join(u.token() for u in USERS), "sys ev connect", "sys ev connect", "sys ev line 0 %s -" % enc_str("USER bob"), "sys ev line 1 %s -" % enc_str("USER nobody")]
        try:
            outs = drive(lines)
            r.lines += len(lines)
            if any(o == "bad-op" for o in outs):
                r.disagreements.append({"correspondence": "sys driver", "input": lines, "model": outs})
        except Exception as e:  # noqa
            r.disagreements.append({"correspondence": "sys driver", "input": lines, "model": str(e)})
    return r


def search(ctx, prior):
    return _check(ctx)


def replay(ctx, doc):
    inp = doc["failure"]["input"]
    if inp.get("kind") == "teardown":
        o = _teardown_job((inp["first_session"], None if inp["ends_by"] == "QUIT" else inp["ends_by"], True, bool(inp.get("holder"))))
        solo = _teardown_job(([], None, False, bool(inp.get("holder"))))
        print("after the first session:", o)
        print("alone                  :", solo)
        return o != solo
    if inp.get("kind") == "busy-neighbour":
        o = _busy_job((inp["prepare"], inp["repeat"], inp["times"], inp["first_session_stays"], True, inp.get("server_kwargs")))
        solo = _busy_job(([], [], 0, False, False, inp.get("server_kwargs")))
        print("next to the busy session:", o if isinstance(o, str) else [r[:2] for r in o["recs"]])
        print("alone                   :", solo if isinstance(solo, str) else [r[:2] for r in solo["recs"]])
        return o != solo
    if inp.get("kind") == "identity":
        o = _identity_job(inp["server_options"])
        print(o)
        return bool(o)
    if inp.get("kind") == "pool":
        o = _pool_job((inp["first_session"], None if inp["ends_by"] == "QUIT" else inp["ends_by"], True))
        solo = _pool_job(([], None, False))
        print("after the first session:", o)
        print("alone                  :", solo)
        return o != solo
    if inp.get("kind") == "lockstep":
        sts = tuple(inp["states"])
        both = _lock_job((sts, inp["command"], (0, 1)))
        solo = _lock_job((sts, inp["command"], (inp["session"],)))
        print("together:", both)
        print("alone   :", solo)
        i = inp["session"]
        return both[i]["codes"] != solo[i]["codes"] or both[i]["cwd"] != solo[i]["cwd"]
    spec = [tuple(x) for x in inp["sessions"]]
    dist = tuple(inp["disturbance"]) if inp.get("disturbance") else None
    o = run_one(spec, inp["start_skews"], inp["backend_latency"], dist)
    i = inp["session"]
    want = run_one([spec[i]], [0], inp["backend_latency"])[0]
    print("interleaved:", o[i]["rec"])
    print("alone      :", want["rec"])
    return o[i]["rec"] != want["rec"] or o[i]["tree"] != want["tree"]


# the long-lived process: the same probe session after earlier sessions of the same server (props/history.py)
from props import history as _history  # noqa: E402

correspondence, search, replay = _history.attach(PID, correspondence, search, replay, pasts=None)


# somebody else's classes: the documented extension points used the way a third party uses them (props/thirdparty.py)
from props import thirdparty as _thirdparty  # noqa: E402

correspondence, search, replay = _thirdparty.attach(PID, correspondence, search, replay)


# a process whose LC_TIME is not English: two listings at the same time keep the wire format and the process its locale
def _with_locale(corr, srch, rep):
    from props import c07_locale

    def c2(ctx):
        r = corr(ctx)
        r.merge(c07_locale.run(ctx, PID))
        return r

    def s2(ctx, prior):
        r = srch(ctx, prior)
        r.merge(c07_locale.run(ctx, PID))
        return r

    def r2(ctx, doc):
        inp = (doc.get("failure") or {}).get("input")
        if isinstance(inp, dict) and inp.get("kind") == "foreign-lc-time":
            r = c07_locale.run(ctx, PID)
            for f in r.oracle_failures:
                print(f["what"])
            return bool(r.oracle_failures)
        return rep(ctx, doc)

    return c2, s2, r2


correspondence, search, replay = _with_locale(correspondence, search, replay)
