"""C03  nothing is served before a completed login; re-USER drops the old login.

Histories over the full verb set with USER/PASS variants interleaved; the spying backend counts every backend
call, the simulated network every listener.  Oracle: an independent `authSpec` over the history (Python) -
any backend call, listener, tree or cwd change while authSpec is false is a violation, and so is a session
whose login flag is set while authSpec is false.
"""
import itertools
import socket

import seqrun as S
import simnet
import world as W
from framework import Result, drive
from props import c05

PID = "C03"
RULE = (
    "histories = connect then every sequence of length <= bound over ~90 command lines (every verb; USER x "
    "{password-protected, password-less, unknown, anonymous spelling, empty}; PASS x {right, wrong, empty, other "
    "user's}) plus seeded random histories of length <= 25, on two user tables (anonymous present / absent); "
    "non-trivial = contains a USER or PASS and a protected verb; distinct = distinct (table, history)"
)
EXPLANATION = (
    "Properties/C03.lean: guards_table is a decision over the decorator stacks regenerated from the live source; "
    "nothing_served_before_login / reuser_drops / pass_authorises_only_with_password hold for all states, trees and "
    "commands of the model; this run ties the model to the real dispatcher and evaluates authSpec on the implementation."
)
ASSUMPTIONS = ["shipped MemoryUserManager; no per-user connection limits in these tables (limits are C10)"]
GENERATED_OBLIGATIONS = ["Verb.guards (decorator stacks of all handlers)", "Server.dispatcherOneCommandAtATime (handlers of pipelined lines start in order, one at a time)"]

# a third table: a password with non-ASCII characters (a comparison that folds or replaces them accepts neighbours)
USERS_UNI = [W.UserSpec("zoë", "pässwörd", home="/d"), W.UserSpec("bob", None)]
UNI_PASSES = ["pässwörd", "pàsswòrd", "p?ssw?rd", "password", "pa\u0308sswo\u0308rd", "PÄSSWÖRD", "pässwör", "pässwörd ", "p中ssw中rd", ""]


def table_users(table):
    return {"anon": S.USERS_ANON, "noanon": S.USERS_NOANON, "uni": USERS_UNI}[table]


LOGIN_CMDS = ["USER alice", "USER bob", "USER nobody", "USER anonymous", "USER", "USER carol", "PASS secret", "PASS wrong", "PASS", "pass secret", "PaSs secret"]
PROBES = [c for c in c05.CMDS if not c.upper().startswith(("USER", "PASS")) and c not in ("QUIT",)]


def auth_spec(users, cmds):
    """returns list of authed-before flags per command (independent reading of the history)"""
    pending = None
    authed = False
    out = []
    for c in cmds:
        out.append(authed)
        if c.startswith("@"):
            continue
        s = c.rstrip()
        first, _, rest = s.partition(" ")
        v = first.lower()
        if v == "user":
            cand = None
            for u in users:
                if u.login is None and cand is None:
                    cand = u
                elif u.login == rest:
                    cand = u
                    break
            pending, authed = cand, False
            if cand is not None and (cand.login is None or cand.password is None):
                authed = True
        elif v == "pass":
            if pending is not None and not authed and pending.password == rest:
                authed = True
    return out


def gen(ctx):
    hist = []
    L = ctx.pick(2, 3)
    for table in ("anon", "noanon"):
        for k in range(1, L + 1):
            for combo in itertools.product(LOGIN_CMDS, repeat=k):
                for probe in (["MKD zz", "PWD"], ["EPSV", "@data", "RETR f.txt"], ["CWD d", "DELE f.txt"], ["APPE f.txt"], ["RNFR f.txt", "RNTO q"], ["MLST f.txt", "LIST"]):
                    hist.append((table, list(combo) + probe))
        # every verb straight after connect and after a half-finished login
        for p in PROBES:
            hist.append((table, [p]))
            hist.append((table, ["USER alice", p]))
            hist.append((table, ["USER alice", "PASS wrong", p]))
            hist.append((table, ["USER bob", "USER alice", p]))
            hist.append((table, ["USER alice", "PASS secret", "USER alice", p]))
    # names the server OBJECT knows (its methods and attributes) are not commands: sent as verbs before a completed
    # login they reach nothing (a command table derived from the class would make helpers of the handlers reachable)
    import aioftp

    for name in sorted(n for n in dir(aioftp.Server) if not n.startswith("__") and n.lower().rstrip("_") not in c05.KNOWN_VERBS):
        for line in (name + " f.txt", name.upper() + " d"):
            hist.append(("noanon", [line]))
            hist.append(("noanon", ["USER alice", line]))
            hist.append(("anon", ["USER alice", "PASS wrong", line]))
    # a listener left over from a completed login, then USER for another account (no PASS, or a wrong one), then a transfer
    for table in ("anon", "noanon"):
        for passive in ("EPSV", "PASV"):
            for mid in (["USER alice"], ["USER alice", "PASS wrong"], ["USER nobody"], ["USER alice", "PASS"]):
                for t in ("RETR f.txt", "LIST", "MLSD", "STOR new3.bin", "APPE f.txt", "MLSD d"):
                    hist.append((table, ["USER bob", passive] + mid + ["@data", t, "PWD"]))
                    hist.append((table, ["USER bob", passive, "@data"] + mid + [t]))
    # passwords that differ from the right one only by characters a "sanitising" layer might drop
    for pw in ("sec\x00ret", "\x00secret", "secret\x00", "secret\x00\x00", "s\x00e\x00c\x00r\x00e\x00t", "secret\x7f", "secret\x08", "\ufeffsecret", "secret\u200b", "se\u00adcret"):
        for probe in (["MKD zz", "PWD"], ["EPSV", "@data", "RETR f.txt"]):
            hist.append(("noanon", ["USER alice", "PASS " + pw] + probe))
    for pw in UNI_PASSES:
        for probe in (["MKD zz", "PWD"], ["CWD /", "DELE f.txt"], ["EPSV", "@data", "RETR f.txt"]):
            hist.append(("uni", ["USER zoë", "PASS " + pw] + probe))
            hist.append(("uni", ["USER zoë", "PASS wrong", "PASS " + pw] + probe))
    rng = ctx.rng
    for _ in range(ctx.pick(300, 4000)):
        seq = []
        for _ in range(rng.randint(2, 25)):
            seq.append(rng.choice(LOGIN_CMDS) if rng.random() < 0.4 else rng.choice(PROBES))
        hist.append((rng.choice(["anon", "noanon"]), seq))
    return hist


def oracle(users, cmds, snaps):
    spec = auth_spec(users, cmds)
    prev = snaps[0]
    for i, (c, snap) in enumerate(zip(cmds, snaps[1:])):
        if snap is None or prev is None:
            break
        authed_before = spec[i]
        if snap["alive"] == "0":
            break
        if not authed_before and not c.startswith("@"):
            first = c.strip().split(" ")[0].lower()
            for key, what in (("spy", "storage backend touched"), ("listeners", "data listener opened"), ("fs", "tree changed"), ("cwd", "working directory changed")):
                if snap[key] != prev[key] and not (key == "cwd" and first == "user"):
                    return [{"input": {"table": None, "commands": cmds, "at": i}, "what": "%s by %r before a completed login" % (what, c), "signature": "C03:%s:%s" % (key, first)}]
        # login flag vs spec after the command
        spec_after = auth_spec(users, cmds[: i + 1] + ["@end"])[-1]
        if snap["alive"] == "1" and (snap["logged"] == "1") != spec_after:
            return [{"input": {"commands": cmds, "at": i}, "what": "login flag is %s after %r but the history %s a completed login" % (snap["logged"], c, "is" if spec_after else "is not"), "signature": "C03:login-flag-%s" % snap["logged"]}]
        prev = snap
    return []


def _run(ctx, hist, compare=True):
    res = Result()
    jobs = []
    for table, cmds in hist:
        users = table_users(table)
        jobs.append((users, S.TREE, c05.to_events(cmds), "memory", None, socket.AF_INET))
    outs = S.run_many(jobs)
    all_lines, spans = [], []
    for (table, cmds), snaps in zip(hist, outs):
        res.cases += 1
        users = table_users(table)
        if isinstance(snaps, str):
            res.disagreements.append({"correspondence": "harness", "input": cmds, "impl": snaps})
            continue
        if any(c.upper().startswith(("USER", "PASS")) for c in cmds) and any(not c.upper().startswith(("USER", "PASS")) for c in cmds):
            res.distinct.add((table, tuple(cmds)))
        res.count("table=" + table)
        spec = auth_spec(users, cmds)
        res.count("authed_at_end=%s" % spec[-1] if spec else "empty")
        fl = oracle(users, cmds, snaps)
        for f in fl:
            f["input"]["table"] = table
        res.oracle_failures += fl
        if compare:
            lines = S.model_lines(users, S.TREE, c05.to_events(cmds))
            spans.append((len(all_lines), len(lines), table, cmds, snaps))
            all_lines += lines
    if compare and ctx.model_ok and all_lines:
        mout = drive(all_lines)
        res.lines += len(all_lines)
        for start, n, table, cmds, snaps in spans:
            diffs = S.compare(snaps, mout[start : start + n])
            if diffs:
                if len(res.disagreements) < 15:
                    i, k, a, b = diffs[0]
                    res.disagreements.append({"correspondence": "Model.Session.step vs real dispatcher", "input": {"table": table, "commands": cmds}, "event": i, "field": k, "impl": a, "model": b})
                else:
                    res.count("more_disagreements")
    res.samples = [{"table": h[0], "commands": h[1]} for h in hist[500:503]] + [{"table": hist[-1][0], "commands": hist[-1][1]}]
    return res


def gen_pipelined(ctx):
    """login sequences sent in one segment (no waiting for replies), ended by protected probes"""
    hist = []
    L = ctx.pick(3, 4)
    for table in ("anon", "noanon"):
        for k in range(1, L + 1):
            for combo in itertools.product(["USER alice", "USER bob", "USER nobody", "PASS secret", "PASS wrong", "USER carol", "PASS"], repeat=k):
                hist.append((table, list(combo) + ["MKD zz", "PWD"]))
    return hist


def pipelined_oracle(users, cmds, snap):
    """sequential semantics must hold for pipelined input too: state after all commands = authSpec"""
    spec_after = auth_spec(users, cmds + ["@end"])[-1]
    if snap["alive"] != "1":
        return None
    if (snap["logged"] == "1") != spec_after:
        return {"what": "after the pipelined lines %r the login flag is %s but the history %s a completed login" % (cmds, snap["logged"], "is" if spec_after else "is not"), "signature": "C03:pipelined-login-flag-%s" % snap["logged"]}
    if not spec_after and snap["fs"] != S.canon_tree(S.TREE):
        return {"what": "tree changed by pipelined lines %r without a completed login" % (cmds,), "signature": "C03:pipelined-tree-changed"}
    if spec_after:
        # the authorised identity must be the one the history names
        pending = None
        for c in cmds:
            first, _, rest = c.rstrip().partition(" ")
            if first.lower() == "user":
                cand = None
                for i, u in enumerate(users):
                    if u.login is None and cand is None:
                        cand = i
                    elif u.login == rest:
                        cand = i
                        break
                pending = cand
        if pending is not None and snap["user"] != str(pending):
            return {"what": "pipelined lines %r authorised user #%s, the history names #%s" % (cmds, snap["user"], pending), "signature": "C03:pipelined-wrong-identity"}
    return None


def _run_pipelined(ctx):
    res = Result()
    hist = gen_pipelined(ctx)
    jobs = [((S.USERS_ANON if t == "anon" else S.USERS_NOANON), S.TREE, cmds) for t, cmds in hist]
    outs = S.run_many_pipelined(jobs)
    for (table, cmds), snap in zip(hist, outs):
        res.cases += 1
        res.count("pipelined")
        if isinstance(snap, str):
            res.disagreements.append({"correspondence": "harness", "input": cmds, "impl": snap})
            continue
        res.distinct.add(("pipelined", table, tuple(cmds)))
        users = S.USERS_ANON if table == "anon" else S.USERS_NOANON
        f = pipelined_oracle(users, cmds, snap)
        if f:
            f["input"] = {"table": table, "commands": cmds, "pipelined": True}
            res.oracle_failures.append(f)
    return res


async def _refused_user_case(loop, second):
    """another session holds the only slot of password-protected alice; this one is refused at USER (530): whatever it
    sends next, it is not logged in and nothing is served"""
    users = [W.UserSpec("alice", "secret", home="/", max_conn=1), W.UserSpec("bob", None, home="/")]
    wd = W.World(loop, users)
    await wd.start()
    try:
        wd.set_tree(S.TREE)
        a = await wd.raw_client()
        await W.run_line(wd, a, b"USER alice")
        await W.run_line(wd, a, b"PASS secret")
        b = await wd.raw_client()
        out = []
        spy0 = wd.spy.n
        for line in second:
            if b.eof:
                break
            codes, _, _, _ = await W.run_line(wd, b, line.encode())
            out.append(codes)
        conn = wd.connection_of(b)
        logged = bool(conn is not None and wd._get(conn, "logged")[0] and wd._get(conn, "logged")[1])
        res = {"replies": out, "logged": logged, "backend_calls": wd.spy.n - spy0, "tree_has_zz": "zz" in wd.tree()}
        a.close()
        b.close()
        await loop.settle()
    finally:
        try:
            await wd.stop()
        except Exception:
            wd.finish()
    return res


def _refused_user(ctx):
    res = Result()
    for second in (["USER alice", "PASS secret", "PWD", "MKD zz"], ["USER alice", "PASS secret", "EPSV"], ["USER alice", "PWD"], ["USER bob", "USER alice", "PASS secret", "PWD"],
                   ["USER alice", "USER alice", "PASS secret", "MKD zz"]):
        res.cases += 1
        res.count("refused_user")
        res.distinct.add(("refused-user", tuple(second)))
        try:
            o = simnet.run(_refused_user_case, second)
        except BaseException as e:  # noqa
            res.disagreements.append({"correspondence": "C03 refused-user harness", "input": second, "impl": "%s: %s" % (type(e).__name__, e)})
            continue
        # after the refused USER alice nothing may be served until a USER that is accepted
        k = max(i for i, l in enumerate(second) if l == "USER alice")
        after = o["replies"][k + 1 :]
        if o["replies"][k] != [530] or any(c and c[0] in (230, 257, 229, 227) for c in after) or o["logged"] or o["tree_has_zz"]:
            res.oracle_failures.append({"input": {"kind": "refused-user", "second_session": second}, "what": "alice's only slot is held by another session; this session sent %r and got %r (logged in: %s, tree changed: %s)" % (second, o["replies"], o["logged"], o["tree_has_zz"]), "signature": "C03:served-after-refused-user"})
    return res


def _late(ctx):
    """a transfer accepted under one login, a USER for another login, and only then the data connection"""
    from props import late_common as LC

    users, bases = LC.c03_users()
    r = LC.run_family(ctx, "C03", LC.c03_plans(ctx), lambda p: (users, bases, LC.C03_TREE, p, ["USER bob"]), LC.c03_oracle)
    r.merge(LC.run_family(ctx, "C03", LC.c03_pipe_plans(ctx), lambda p: (users, bases, LC.C03_TREE, p, ["USER bob"]), LC.c03_pipe_oracle))
    return r


def _lockstep(ctx):
    """two sessions send the same protected verb in the same instant, one of them without a completed login
    (fresh, or with a USER awaiting its password): that one is answered 503 and changes nothing, in either order"""
    import multiprocessing
    import os

    from props import c17

    res = Result()
    cmds = ["PWD", "MKD /{p}/zz{i}", "CWD /{p}", "MLST /{p}/f.bin", "RNFR /{p}/f.bin", "DELE /{p}/sub/x.txt", "EPSV", "TYPE I"]
    jobs = []
    for unl in ("fresh", "user-only"):
        for lg in ("logged", "logged-pa", "alice"):
            for cmd in cmds:
                jobs.append(((unl, lg), cmd, (0, 1)))  # the session without a login writes first
                jobs.append(((unl, lg), cmd, (1, 0)))  # ... or second
                jobs.append(((lg, unl), cmd, (0, 1)))
    mp = multiprocessing.get_context("fork")
    with mp.Pool(min(16, os.cpu_count() or 4)) as pool:
        outs = pool.map(c17._lock_job, jobs, chunksize=8)
    for (sts, cmd, who), o in zip(jobs, outs):
        res.cases += 1
        res.count("lockstep_two_sessions")
        if isinstance(o, str):
            res.disagreements.append({"correspondence": "C03 lockstep harness", "input": [list(sts), cmd, list(who)], "impl": o})
            continue
        res.distinct.add(("lockstep", sts, cmd, who))
        for i, st in enumerate(sts):
            if st in ("fresh", "user-only"):
                codes = [str(x) for x in o[i]["codes"]]
                if codes != ["503"]:
                    res.oracle_failures.append({
                        "input": {"kind": "lockstep", "states": list(sts), "command": cmd, "order": list(who), "session": i},
                        "what": "session %d has no completed login (%s) and sent %r in the same instant as a logged-in session: answered %r (want 503)" % (i, st, cmd, codes),
                        "signature": "C03:lockstep:served-without-login",
                    })
                    break
                if "zz%d" % i in o.get("tree", ""):
                    res.oracle_failures.append({
                        "input": {"kind": "lockstep", "states": list(sts), "command": cmd, "order": list(who), "session": i},
                        "what": "a session without a completed login changed the tree with %r" % cmd,
                        "signature": "C03:lockstep:served-without-login",
                    })
                    break
    return res


def correspondence(ctx):
    r = _run(ctx, gen(ctx))
    r.merge(_run_pipelined(ctx))
    r.merge(_late(ctx))
    r.merge(_refused_user(ctx))
    r.merge(_lockstep(ctx))
    return r


def search(ctx, prior):
    hist = gen(ctx)
    for d in prior.disagreements:
        inp = d.get("input")
        if isinstance(inp, dict) and "commands" in inp:
            hist.insert(0, (inp.get("table", "anon"), inp["commands"]))
    r = _run(ctx, hist, compare=False)
    r.merge(_run_pipelined(ctx))
    r.merge(_late(ctx))
    r.merge(_refused_user(ctx))
    r.merge(_lockstep(ctx))
    return r


def replay(ctx, doc):
    inp = doc["failure"]["input"]
    if inp.get("kind") == "refused-user":
        o = simnet.run(_refused_user_case, inp["second_session"])
        print(o)
        k = max(i for i, l in enumerate(inp["second_session"]) if l == "USER alice")
        return o["replies"][k] != [530] or any(c and c[0] in (230, 257, 229, 227) for c in o["replies"][k + 1 :]) or o["logged"] or o["tree_has_zz"]
    if "late_plan" in inp:
        import latewire as LW
        from props import late_common as LC

        plan = [tuple(x) for x in inp["late_plan"]]
        us, bases = LC.c03_users()
        recs = LW.run_plan((us, bases, LC.C03_TREE, plan, ["USER bob"]))
        orc = LC.c03_pipe_oracle if any(st[0] == "pipe" for st in plan) else LC.c03_oracle
        f = orc(plan, recs) if not isinstance(recs, str) else {"what": recs}
        print("plan:", plan)
        print("oracle:", f)
        return f is not None
    if inp.get("kind") == "lockstep":
        from props import c17

        o = c17._lock_job((tuple(inp["states"]), inp["command"], tuple(inp["order"])))
        print(o if isinstance(o, str) else {k: v for k, v in o.items() if k != "tree"})
        return isinstance(o, str) or [str(x) for x in o[inp["session"]]["codes"]] != ["503"]
    users = table_users(inp.get("table", "anon"))
    if inp.get("pipelined"):
        snap = S.run_pipelined(users, S.TREE, inp["commands"])
        f = pipelined_oracle(users, inp["commands"], snap)
        print(snap, f)
        return f is not None
    snaps = S.run_history(users, S.TREE, c05.to_events(inp["commands"]))
    for c, s in zip(["@connect"] + inp["commands"], snaps):
        print(repr(c), "->", s and (s["replies"], "logged=" + s["logged"], "spy=" + s["spy"]))
    f = oracle(users, inp["commands"], snaps)
    print(f)
    return bool(f)


# the long-lived process: the same probe session after earlier sessions of the same server (props/history.py)
from props import history as _history  # noqa: E402

correspondence, search, replay = _history.attach(PID, correspondence, search, replay, pasts=['commands-before-login', 'second-login-with-a-listener', 'named-an-account-and-left'])


# somebody else's classes: the documented extension points used the way a third party uses them (props/thirdparty.py)
from props import thirdparty as _thirdparty  # noqa: E402

correspondence, search, replay = _thirdparty.attach(PID, correspondence, search, replay)
