"""C16  configured timeouts bound how long a stalled peer can hold a session.

Virtual time.  For every combination of the three timeouts (None / values), the peer stalls at every point of
scripted sessions: stops sending commands (also after sending bytes that do not complete a line), never makes
the data connection, stops sending data, stops reading data.  Observed: the virtual time at which the server
drops the session or answers 425, compared EXACTLY with the Lean arming model (Model/Timers.lean), and the
resource ledger after the drop (the clean-up of C12).  Oracle on the implementation alone: never earlier than
the bound, promptly (same virtual instant) after it, never when the timeout is None, 425 keeps the session.
"""
import asyncio
import multiprocessing
import os

import scenario as SC
import seqrun as S
import simnet
import spyio
import world as W
from framework import Result, drive, enc_nats

PID = "C16"
RULE = (
    "case = (timeout setting, stall kind in {control silence after command k, partial line, data connection never / "
    "late / in time, data sender stops after chunk j, data receiver stops reading}, stall position) over all "
    "positions of the scripts and all None/value combinations; times on a 250 ms grid; non-trivial = the stall "
    "outlasts at least one bound; distinct = distinct cases"
)
EXPLANATION = (
    "Properties/C16.lean: idle_drop_exact / active_never_dropped / none_means_never / wait_425_exact / data_stall_exact "
    "for all arrival histories of the arming model, and the decision that each timeout is attached to the stream and "
    "direction the model assumes (regenerated constructor keywords); this run compares drop / 425 times exactly."
)
ASSUMPTIONS = ["asyncio's timer wheel is trusted; virtual clock", "no speed limits configured (throttle waits are C15)"]

MS = 1000
LINES = ["PWD", "NOOP", "CWD d", "CDUP", "MLST f.txt", "SYST", "TYPE I"]


def ms(t):
    return int(round(t * MS))


async def _idle_case(loop, idle, gaps, partial_at, sock=None, wait=1, transfer=None):
    """connect, login, then command lines separated by `gaps` (seconds); optionally bytes without newline;
    `transfer`: the last thing before the silence is a transfer that never ends - "stor-stall" (the peer sends
    one chunk on the data connection and stops), "retr-nodata" (the data connection is never opened)"""
    kw = {"idle_timeout": idle, "socket_timeout": sock, "wait_future_timeout": wait}
    wd = W.World(loop, S.USERS_ANON, server_kwargs=kw)
    await wd.start()
    out = {}
    try:
        wd.set_tree(S.TREE)
        t_connect = loop.time()
        raw = await wd.raw_client()
        times = []
        # USER counts as the first line
        seq = ["USER bob"] + [LINES[i % len(LINES)] for i in range(len(gaps))]
        for i, line in enumerate(seq):
            if i > 0:
                await asyncio.sleep(gaps[i - 1])
            if raw.eof:
                break
            if partial_at == i:
                raw.send_raw(b"PW")  # bytes that do not complete a line: must not re-arm the timer
                await loop.settle()
                await asyncio.sleep(0.25)
                if raw.eof:
                    break
                raw.send_raw(b"D\r\n")
                times.append(loop.time())
                await loop.settle()
                continue
            times.append(loop.time())
            raw.send_raw(line.encode() + b"\r\n")
            await loop.settle()
        if transfer == "line+fragment" and not raw.eof:
            # one segment that holds a whole line AND the beginning of the next one, then silence
            times.append(loop.time())
            raw.send_raw(b"PWD\r\nPW")
            await loop.settle()
        elif transfer and not raw.eof:
            for line in (["EPSV"] + (["STOR n.bin"] if transfer == "stor-stall" else ["RETR f.txt"])):
                if line != "EPSV" and transfer == "stor-stall":
                    await W.data_connect(wd, raw)
                times.append(loop.time())
                raw.send_raw(line.encode() + b"\r\n")
                await loop.settle()
            if transfer == "stor-stall" and raw.data is not None:
                raw.data[1].write(b"x" * 100)
                await loop.settle()
        # now stay silent for a long time
        await asyncio.sleep(100)
        await loop.settle()
        out = {"t0": t_connect, "lines": times, "eof_time": raw.eof_time, "replies": len(raw.replies), "ledger": SC.ledger(wd)}
        raw.close()
        await loop.settle()
    finally:
        try:
            await wd.stop()
        except Exception:
            wd.finish()
    return out


async def _wait_case(loop, wait, delta, verb, pool=None):
    kw = {"wait_future_timeout": wait}
    if pool:
        kw["data_ports"] = list(pool)  # the session's listener holds the only port there is: giving up on a data
        # connection is not giving up on the listener, and a new EPSV afterwards finds a port
    wd = W.World(loop, S.USERS_ANON, server_kwargs=kw)
    await wd.start()
    out = {}
    try:
        wd.set_tree(S.TREE)
        raw = await wd.raw_client()
        await W.run_line(wd, raw, b"USER bob")
        await W.run_line(wd, raw, b"EPSV")
        n0 = len(raw.replies)
        tau = loop.time()
        raw.send_raw({"RETR": b"RETR f.txt", "STOR": b"STOR n.bin", "LIST": b"LIST", "MLSD": b"MLSD d"}[verb] + b"\r\n")
        await loop.settle()
        conn_t = None
        if delta is not None:
            await asyncio.sleep(delta)
            conn_t = loop.time()
            conn = wd.connection_of(raw)
            ok, ps = wd._get(conn, "passive_server") if conn is not None else (False, None)
            if ok:
                try:
                    await raw.data_connect(ps.port)
                except OSError:
                    pass
            await loop.settle()
            if raw.data is not None:
                dr, dw = raw.data
                if verb == "STOR":
                    dw.write(b"xyz")
                    dw.close()
                else:
                    try:
                        await asyncio.wait_for(dr.read(), 5)
                    except Exception:
                        pass
                    dw.close()
                await loop.settle()
        await asyncio.sleep(50)
        await loop.settle()
        new = raw.replies[n0:]
        rt = raw.reply_times[n0:]
        out = {"tau": tau, "conn": conn_t, "codes": [int(c) for c, _ in new], "times": rt, "eof": raw.eof}
        # the session continues after a 425
        c1, _, _, _ = await W.run_line(wd, raw, b"PWD") if not raw.eof else ([], 0, 0, 0)
        out["follow"] = c1
        # ... and the transfer can simply be retried on the same listener
        out["retry"] = None
        if 425 in out["codes"] and not raw.eof:
            if raw.data is not None:
                try:
                    raw.data[1].close()
                except Exception:
                    pass
                raw.data = None
            await loop.settle()
            await W.run_line(wd, raw, b"EPSV")
            await W.data_connect(wd, raw)
            c2, _, out2, _ = await W.run_line(wd, raw, b"RETR f.txt")
            out["retry"] = (c2, out2)
            c3, _, _, _ = await W.run_line(wd, raw, b"PWD") if not raw.eof else ([], 0, 0, 0)
            out["retry_pwd"] = c3
        raw.close()
        await loop.settle()
    finally:
        try:
            await wd.stop()
        except Exception:
            wd.finish()
    return out


async def _stall_case(loop, sock, direction, chunks_gaps):
    """STOR: the client sends a chunk, waits gap, … then stalls (never closes).  RETR: the client reads some
    blocks at the given gaps, then stops reading."""
    kw = {"socket_timeout": sock, "block_size": 64}
    big = bytes(range(256)) * 40  # 10 KiB: larger than the in-memory high-water mark set below
    wd = W.World(loop, S.USERS_ANON, server_kwargs=kw)
    await wd.start()
    out = {}
    try:
        wd.set_tree(S.TREE + [(("big.bin",), big)])
        raw = await wd.raw_client()
        await W.run_line(wd, raw, b"USER bob")
        await W.run_line(wd, raw, b"EPSV")
        await W.data_connect(wd, raw)
        dr, dw = raw.data
        acts = []
        if direction == "stor":
            raw.send_raw(b"STOR up.bin\r\n")
            await loop.settle()
            start = loop.time()
            for g in chunks_gaps:
                await asyncio.sleep(g)
                if raw.eof:
                    break
                dw.write(b"c" * 10)
                acts.append(loop.time())
                await loop.settle()
        else:
            sp = dw.transport.peer
            sp.HIGH = 512
            sp.hold = True  # nothing is taken off the wire unless we release
            raw.send_raw(b"RETR big.bin\r\n")
            await loop.settle()
            start = loop.time()
            for g in chunks_gaps:
                await asyncio.sleep(g)
                if raw.eof:
                    break
                # read until the sender's blocked write can complete (its buffer falls below the low-water mark),
                # then stop reading again: the next write blocks from this instant on
                sp.hold = False
                guard = 0
                while sp.outbox and sp.write_paused and guard < 10000:
                    sp._pump()
                    guard += 1
                sp.hold = True
                acts.append(loop.time())
                await loop.settle()
        await asyncio.sleep(100)
        await loop.settle()
        out = {"start": start, "acts": acts, "eof_time": raw.eof_time, "codes": [int(c) for c, _ in raw.replies], "ledger": SC.ledger(wd)}
        raw.close()
        await loop.settle()
    finally:
        try:
            await wd.stop()
        except Exception:
            wd.finish()
    return out


async def _throttled_case(loop, sock, idle, limit, direction):
    """a peer that NEVER stalls, on a server whose own speed limit makes it wait longer than the timeouts between two
    blocks: the waiting is the server's, not the peer's - the transfer completes and the session goes on"""
    # a block takes 1 s at this limit; the few bytes of the control channel are not held up noticeably
    kw = {"socket_timeout": sock, "idle_timeout": idle, "block_size": limit}
    users = [W.UserSpec(None, None, **({"read_speed_limit_per_connection": limit} if direction == "stor" else {"write_speed_limit_per_connection": limit}))]
    data = bytes(range(256)) * (4 * limit // 256)
    wd = W.World(loop, users, server_kwargs=kw)
    await wd.start()
    out = {}
    try:
        wd.set_tree(S.TREE + [(("big.bin",), data)])
        raw = await wd.raw_client()
        if direction != "stor":
            raw_limit = None
        await W.run_line(wd, raw, b"USER anonymous")
        await W.run_line(wd, raw, b"EPSV")
        await W.data_connect(wd, raw)
        t0 = loop.time()
        dr, dw = raw.data
        n0 = len(raw.replies)
        if direction == "stor":
            raw.send_raw(b"STOR up.bin\r\n")
            await loop.settle()
            dw.write(data)  # at once, and then the orderly end: this peer never makes the server wait
            dw.close()
            got = None
        else:
            raw.send_raw(b"RETR big.bin\r\n")
            await loop.settle()
            got = await asyncio.wait_for(dr.read(), 600)  # reads whatever comes, as it comes
            dw.close()
        raw.data = None
        waited = 0.0
        while waited < 60 and not any(int(x) >= 200 for x, _ in raw.replies[n0:]) and not raw.eof:
            await asyncio.sleep(0.5)
            waited += 0.5
        await loop.settle()
        codes = [int(c) for c, _ in raw.replies[n0:]]
        follow = None
        if not raw.eof:
            follow, _, _, _ = await W.run_line(wd, raw, b"PWD")
        out = {"codes": codes, "took": loop.time() - t0, "got": got, "stored": wd.tree(), "eof": raw.eof, "follow": follow}
        raw.close()
        await loop.settle()
    finally:
        try:
            await wd.stop()
        except Exception:
            wd.finish()
    return out


async def _ctrl_unread_case(loop, sock, idle, n_cmds):
    """the peer keeps sending commands but stops READING the control connection: replies pile up until the
    server's reply writer blocks; with socket_timeout set the session must be released that long after"""
    kw = {"socket_timeout": sock, "idle_timeout": idle}
    wd = W.World(loop, S.USERS_ANON, server_kwargs=kw)
    await wd.start()
    out = {}
    try:
        wd.set_tree(S.TREE)
        raw = await wd.raw_client()
        await W.run_line(wd, raw, b"USER bob")
        sp = raw.transport.peer  # server -> client direction of the control connection
        sp.HIGH = 64
        sp.hold = True
        t_block = loop.time()
        for _ in range(n_cmds):
            raw.send_raw(b"MLST f.txt\r\n")
        await loop.settle()
        out["blocked"] = sp.write_paused
        await asyncio.sleep(60)
        await loop.settle()
        conn_left = len(wd.server.connections)
        out.update({"t_block": t_block, "connections": conn_left, "ledger": SC.ledger(wd), "server_closed": bool(sp.closing or sp.closed), "close_time": None})
        out["tasks"] = out["ledger"]["tasks"]
        raw.vanish()
        await loop.settle()
    finally:
        try:
            await wd.stop()
        except Exception:
            wd.finish()
    return out


def _job(args):
    kind = args[0]
    try:
        if kind == "idle":
            return simnet.run(_idle_case, *args[1:])
        if kind == "wait":
            return simnet.run(_wait_case, *args[1:])
        if kind == "ctrl":
            return simnet.run(_ctrl_unread_case, *args[1:])
        if kind == "throttled":
            return simnet.run(_throttled_case, *args[1:])
        return simnet.run(_stall_case, *args[1:])
    except BaseException as e:  # noqa
        return "HARNESS-ERROR %s: %s" % (type(e).__name__, e)


def gen(ctx):
    rng = ctx.rng
    jobs = []
    grid = [0.25, 0.5, 1.0, 2.75, 3.0, 3.25, 5.0, 9.75, 10.0, 12.5]
    for idle in (None, 0, 3, 10):
        for k in range(0, 6):
            # k short gaps, then silence (the stall begins after command k)
            jobs.append(("idle", idle, [0.5] * k, None))
        for _ in range(ctx.pick(25, 300)):
            gaps = [rng.choice(grid) for _ in range(rng.randint(1, 7))]
            jobs.append(("idle", idle, gaps, rng.choice([None, None, rng.randint(1, len(gaps))])))
        # all combinations with the other two timeouts
        for sock in (None, 2):
            for wait in (None, 1):
                jobs.append(("idle", idle, [0.5, 0.5], None, sock, wait))
                jobs.append(("idle", idle, [2.75, 3.25, 0.5], 2, sock, wait))
    # silence that begins while a transfer is alive and nothing else bounds it: the idle bound still holds
    for idle in (None, 3):
        for tr in ("stor-stall", "retr-nodata", "line+fragment"):
            jobs.append(("idle", idle, [0.5], None, None, None, tr))
            jobs.append(("idle", idle, [], None, None, None, tr))
    for sock in (None, 0, 2):
        for idle in (None, 30, 3):
            jobs.append(("ctrl", sock, idle, 40))
    for sock, idle in ((0.4, None), (0.4, 60), (0.9, None)):
        for limit in (8192, 1024):
            for direction in ("stor", "retr"):
                jobs.append(("throttled", sock, idle, limit, direction))
    for wait in (None, 0, 1, 2.5):
        for verb in ("RETR", "STOR", "LIST", "MLSD"):
            for delta in (None, 0.25, 0.75, 1.0, 1.25, 2.25, 2.5, 2.75, 4.0):
                jobs.append(("wait", wait, delta, verb))
    for verb in ("RETR", "STOR", "LIST", "MLSD"):
        for delta in (None, 2.0):
            jobs.append(("wait", 1, delta, verb, [41001]))
    for sock in (None, 0, 2, 5):
        for direction in ("stor", "retr"):
            for k in range(0, 4):
                jobs.append(("stall", sock, direction, [0.5] * k))
            for _ in range(ctx.pick(10, 100)):
                jobs.append(("stall", sock, direction, [rng.choice([0.25, 1.0, 1.75, 2.0, 2.25, 4.75, 5.0, 6.0]) for _ in range(rng.randint(1, 5))]))
    return jobs


def opt(x):
    return "n" if x is None else str(ms(x))


def _run(ctx, compare=True):
    res = Result()
    jobs = gen(ctx)
    mp = multiprocessing.get_context("fork")
    with mp.Pool(min(16, os.cpu_count() or 4)) as pool:
        outs = pool.map(_job, jobs, chunksize=4)
    lines, expect = [], []
    for j, o in zip(jobs, outs):
        res.cases += 1
        res.count("kind=" + j[0])
        inp = {"kind": j[0], "args": list(j[1:])}
        if isinstance(o, str):
            if "simnet deadlock" in o:
                # nothing is runnable and no timer is pending, yet the run is not over: a session (or server.close())
                # waits for something that no timeout bounds any more
                res.oracle_failures.append({"input": inp, "what": "the run cannot come to an end: every task waits and no timer is pending (%s)" % o, "signature": "C16:%s:waits-for-ever" % j[0]})
            else:
                res.disagreements.append({"correspondence": "harness", "input": inp, "impl": o})
            continue
        res.distinct.add(repr(j))
        if j[0] == "idle":
            idle, gaps, partial = j[1], j[2], j[3]
            drop = None if o["eof_time"] is None else ms(o["eof_time"] - o["t0"])
            ls = [ms(t - o["t0"]) for t in o["lines"]]
            # oracle
            last = ls[-1] if ls else 0
            if not idle:
                if drop is not None:
                    res.oracle_failures.append({"input": inp, "what": "idle_timeout=%r but the session was dropped after %d ms" % (idle, drop), "signature": "C16:dropped-without-idle-timeout"})
            else:
                armed = 0
                want = None
                for l in ls:
                    if l < armed + ms(idle):
                        armed = l
                    else:
                        break
                want = armed + ms(idle)
                if drop is None:
                    res.oracle_failures.append({"input": inp, "what": "silent since %d ms, idle_timeout=%s s, never dropped" % (armed, idle), "signature": "C16:idle-session-never-dropped"})
                elif drop < want:
                    res.oracle_failures.append({"input": inp, "what": "dropped at %d ms, earlier than last activity %d + idle %d" % (drop, armed, ms(idle)), "signature": "C16:dropped-too-early"})
                elif drop > want:
                    res.oracle_failures.append({"input": inp, "what": "dropped at %d ms, later than the bound %d ms" % (drop, want), "signature": "C16:dropped-too-late"})
                if drop is not None:
                    bad = SC.ledger_clean(o["ledger"], {"maximum_connections": None, "data_ports": None})
                    if bad:
                        res.oracle_failures.append({"input": inp, "what": "after the idle drop: " + "; ".join(bad), "signature": "C16:drop-without-cleanup"})
            lines.append("timers idle %s 0 %s" % ("n" if idle is None else str(ms(idle)), enc_nats(ls)))
            expect.append((inp, "drop=%s" % ("n" if drop is None else drop)))
        elif j[0] == "wait":
            wait, delta, verb = j[1], j[2], j[3]
            codes = o["codes"]
            t425 = None
            for c, t in zip(codes, o["times"]):
                if c == 425:
                    t425 = ms(t - o["tau"])
            started = any(c in (226, 200) for c in codes)
            if wait is None:
                want = ("never" if delta is None else "start")
            elif delta is not None and ms(delta) < ms(wait):
                want = "start"
            else:
                want = "425@%d" % ms(wait)
            got = "425@%d" % t425 if t425 is not None else ("start" if started else "never")
            if got != want:
                sig = "C16:wait-425-" + ("missing" if want.startswith("425") and t425 is None else "wrong-time" if t425 is not None and want.startswith("425") else "unexpected")
                res.oracle_failures.append({"input": inp, "what": "%s with wait_future_timeout=%r, data connection after %r s: observed %s (replies %r), expected %s" % (verb, wait, delta, got, codes, want), "signature": sig})
            if t425 is not None and (o["eof"] or o["follow"] != [257]):
                res.oracle_failures.append({"input": inp, "what": "session not usable after the 425: PWD -> %r" % (o["follow"],), "signature": "C16:session-lost-after-425"})
            if o.get("retry") is not None and (o["retry"][0] != [150, 226] or o["retry"][1] != b"0123456789" or o.get("retry_pwd") != [257]):
                res.oracle_failures.append({"input": inp, "what": "after the 425 the same transfer retried with a data connection gave %r, then PWD -> %r" % (o["retry"], o.get("retry_pwd")), "signature": "C16:retry-after-425-broken"})
            lines.append("timers wait %s 0 %s" % ("n" if wait is None else str(ms(wait)), "n" if delta is None else str(ms(delta))))
            expect.append((inp, got.split("@")[0] + ("@" + got.split("@")[1] if "@" in got and got.startswith("425") else "")))
        elif j[0] == "throttled":
            finals = [c for c in o["codes"] if c >= 200]
            if finals != [226] or o["eof"] or o["follow"] != [257] or (j[4] == "retr" and o["got"] != bytes(range(256)) * (4 * j[3] // 256)):
                res.oracle_failures.append({"input": inp, "what": "a %s whose peer never stalled, throttled by the server's own limit of %d B/s (socket_timeout=%r, idle_timeout=%r): replies %r after %.2f s, session %s, PWD -> %r" % (
                    j[4].upper(), j[3], j[1], j[2], o["codes"], o["took"], "dropped" if o["eof"] else "alive", o["follow"]), "signature": "C16:dropped-while-the-server-itself-was-waiting"})
            continue
        elif j[0] == "ctrl":
            sock, idle = j[1], j[2]
            if not o["blocked"]:
                res.count("ctrl_not_blocked")
                continue
            held = o["connections"] > 0 or bool(o["tasks"])
            if sock:
                if held:
                    res.oracle_failures.append({"input": inp, "what": "the peer stopped reading the control connection; socket_timeout=%s s, but 60 s later the session is still held (connections=%d, tasks=%r)" % (sock, o["connections"], o["tasks"]), "signature": "C16:control-write-stall-never-released"})
            elif idle is not None and idle < 60 and held:
                # no write timeout, but the peer is silent as well: the idle timeout bounds the session whatever the reply writer is doing
                res.oracle_failures.append({"input": inp, "what": "the peer stopped reading the control connection and went silent; idle_timeout=%s s, but 60 s later the session is still held (connections=%d, tasks=%r)" % (idle, o["connections"], o["tasks"]), "signature": "C16:idle-session-never-dropped"})
            continue
        else:
            sock, direction, gaps = j[1], j[2], j[3]
            give = None if o["eof_time"] is None else ms(o["eof_time"] - o["start"])
            acts = [ms(t - o["start"]) for t in o["acts"]]
            if sock is None:
                if give is not None:
                    res.oracle_failures.append({"input": inp, "what": "socket_timeout=%r but the session was given up after %d ms" % (sock, give), "signature": "C16:given-up-without-socket-timeout"})
            else:
                armed = 0
                for a in acts:
                    if a < armed + ms(sock):
                        armed = a
                    else:
                        break
                want = armed + ms(sock)
                if give is None:
                    res.oracle_failures.append({"input": inp, "what": "data %s stalled since %d ms, socket_timeout=%s s, never given up" % (direction, armed, sock), "signature": "C16:stalled-data-never-given-up"})
                elif give != want:
                    res.oracle_failures.append({"input": inp, "what": "stalled data connection (%s) given up at %d ms, bound is %d ms" % (direction, give, want), "signature": "C16:data-stall-" + ("too-early" if give < want else "too-late")})
                if give is not None:
                    bad = SC.ledger_clean(o["ledger"], {"maximum_connections": None, "data_ports": None})
                    if bad:
                        res.oracle_failures.append({"input": inp, "what": "after the data stall: " + "; ".join(bad), "signature": "C16:stall-without-cleanup"})
            lines.append("timers stall %s 0 %s" % ("n" if sock is None else str(ms(sock)), enc_nats(acts)))
            expect.append((inp, "giveup=%s" % ("n" if give is None else give)))
    if compare and ctx.model_ok and lines:
        mout = drive(lines)
        res.lines += len(lines)
        for (inp, got), m in zip(expect, mout):
            if inp["kind"] == "idle":
                ok = m.split(" ")[0] == got
            elif inp["kind"] == "wait":
                mm = m if m.startswith("425") else m.split("@")[0]
                ok = mm == got
            else:
                ok = m == got
            if not ok:
                if len(res.disagreements) < 12:
                    res.disagreements.append({"correspondence": "Model.Timers vs real server (virtual time, ms)", "input": inp, "impl": got, "model": m})
                else:
                    res.count("more_disagreements")
    res.samples = [{"kind": "idle", "idle_timeout": 3, "gaps": [0.5, 2.75, 3.25]}, {"kind": "wait", "wait_future_timeout": 2.5, "data_connection_after": 2.25, "verb": "STOR"}]
    return res


def correspondence(ctx):
    return _run(ctx)


def search(ctx, prior):
    return _run(ctx, compare=False)


def replay(ctx, doc):
    inp = doc["failure"]["input"]
    o = _job(tuple([inp["kind"]] + list(inp["args"])))
    print(o)
    return True


# somebody else's classes: the documented extension points used the way a third party uses them (props/thirdparty.py)
from props import thirdparty as _thirdparty  # noqa: E402

correspondence, search, replay = _thirdparty.attach(PID, correspondence, search, replay)
