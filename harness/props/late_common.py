"""Late-data-connection histories shared by C01 (restart offset), C03 (login state) and C04 (permissions):
generators and oracles on top of harness/latewire.py.  See that module for what a plan and a record are."""
import pathlib

import framework as F
import latewire as LW
from framework import Result


def parse_tree(tok):
    out = {}
    if tok in ("~", None):
        return out
    for item in tok.split(";"):
        p, v = item.split("=", 1)
        out[tuple(F.dec_str(x) for x in p.split("|"))] = v
    return out


def file_bytes(tree_tok, parts):
    v = parse_tree(tree_tok).get(tuple(parts))
    if v is None or not v.startswith("F"):
        return None
    return F.dec_bytes(v[1:])


def want_path(rec):
    """the backend path the command addressed when it was received"""
    st = rec["state"]
    base = pathlib.PurePosixPath(st["base"] or ".").parts
    cwd_parts = [x for x in st["cwd"].split("/") if x]
    arg = rec["cmd"].partition(" ")[2]
    return list(base) + LW.py_walk(cwd_parts, arg), LW.py_walk(cwd_parts, arg)


def worker_target_mismatch(rec):
    """first open/list call of the worker whose path is not the one addressed at receive time -> (name, got, want)"""
    want_full, _ = want_path(rec)
    want = "/".join([x for x in want_full if x not in (".",)])
    for name, p in rec.get("worker_calls", []):
        if name in ("open", "list") and p is not None:
            got = LW.paths_of((name, p))
            if got and str(pathlib.PurePosixPath(got[0])) != str(pathlib.PurePosixPath(want)):
                return name, got[0], want
    return None


# ------------------------------------------------------------------------------------------------
# C01: the restart offset a transfer uses is the one pending when the command was received
# ------------------------------------------------------------------------------------------------
C01_TREE = [(("f.txt",), b"0123456789abcdefghij"), (("d",), None)]
C01_INTER = [[], ["PWD"], ["NOOP"], ["SYST", "PWD"], ["TYPE I"], ["XYZZY"], ["CWD d"], ["MLST f.txt"]]


def c01_plans(ctx):
    plans = []
    for n in (0, 3, 7, 20, 25):
        for inter in C01_INTER:
            for cmd in ("RETR f.txt", "STOR f.txt", "APPE f.txt", "STOR new.bin"):
                plans.append([("late", cmd, inter, ["REST %d" % n] if n else [])])
    return plans


def c01_oracle(plan, recs):
    import world as W  # noqa

    from props import c01

    offset = 0
    for step in plan:
        for line in (step[3] if step[0] == "late" and len(step) > 3 else []):
            if line.startswith("REST "):
                offset = int(line.split()[1])
    for r in recs:
        if not r.get("late") or not r.get("accepted"):
            continue
        verb, _, arg = r["cmd"].partition(" ")
        old = file_bytes(r["tree0"], ["f.txt"] if arg == "f.txt" else [arg])
        fin = r["replies"][1:] if r["replies"][:1] == [150] else r["replies"]
        if verb == "RETR":
            if 226 in fin and r["data"] != (old or b"")[offset:]:
                return {"what": "REST %d, RETR %s, then %r before the data connection: delivered %r, want %r" % (offset, arg, r["interposed"], r["data"], (old or b"")[offset:]),
                        "signature": "C01:late:offset-not-the-one-at-receive:retr"}
        elif 226 in fin:
            new = file_bytes(r["tree1"], [arg])
            want = c01.spec_stored(old, verb, offset, LW.PAYLOAD)
            if new != want:
                return {"what": "REST %d, %s, then %r before the data connection: stored %r, want %r" % (offset, r["cmd"], r["interposed"], new, want),
                        "signature": "C01:late:offset-not-the-one-at-receive:%s" % verb.lower()}
    return None


# ------------------------------------------------------------------------------------------------
# C03: a transfer accepted under one login never serves the tree of another (pending or new) login
# ------------------------------------------------------------------------------------------------
C03_TREE = [
    (("ub",), None), (("ub", "x.txt"), b"bob-x"), (("ub", "a"), None), (("ub", "a", "y.txt"), b"bob-a-y"),
    (("ua",), None), (("ua", "x.txt"), b"ALICE-SECRET-x"), (("ua", "a"), None), (("ua", "a", "y.txt"), b"ALICE-SECRET-a-y"), (("ua", "keys.pem"), b"ALICE-KEYS"),
]
C03_INTER = [["USER alice"], ["USER alice", "PASS wrong"], ["USER nobody"], ["USER alice", "PWD"], ["USER alice", "PASS pw"], ["USER bob"], ["CWD a", "USER alice"]]
C03_TRANSFERS = ["RETR x.txt", "RETR a/y.txt", "LIST", "LIST a", "MLSD", "MLSD a", "STOR up.bin"]


def c03_users():
    import world as W

    return [W.UserSpec("bob", None, home="/"), W.UserSpec("alice", "pw", home="/")], ["ub", "ua"]


def c03_plans(ctx):
    plans = []
    for t in C03_TRANSFERS:
        for inter in C03_INTER:
            plans.append([("late", t, inter)])
            plans.append([("cmd", "CWD a"), ("late", t.replace("a/", ""), inter)])
    return plans


def c03_oracle(plan, recs):
    for r in recs:
        if not r.get("late") or not r.get("accepted"):
            continue
        base = r["state"]["base"]
        bparts = pathlib.PurePosixPath(base).parts
        for name, p in r.get("worker_calls", []):
            for q in LW.paths_of((name, p)):
                parts = pathlib.PurePosixPath(q).parts
                if parts[: len(bparts)] != bparts:
                    return {"what": "%r was accepted for the login with base %r; after %r the worker's backend %s(%s) lies in another user's tree" % (r["cmd"], base, r["interposed"], name, q),
                            "signature": "C03:late:transfer-served-under-another-login"}
        if r.get("data") and b"ALICE" in r["data"]:
            return {"what": "%r accepted for bob delivered alice's data after %r" % (r["cmd"], r["interposed"]), "signature": "C03:late:transfer-served-under-another-login"}
        if "keys.pem" in (r.get("data") or b"").decode("latin-1"):
            return {"what": "%r accepted for bob listed alice's directory after %r" % (r["cmd"], r["interposed"]), "signature": "C03:late:transfer-served-under-another-login"}
        t1 = parse_tree(r["tree1"])
        t0 = parse_tree(r["tree0"])
        for k in set(t0) | set(t1):
            if t0.get(k) != t1.get(k) and k[:1] == ("ua",) and r["state"]["base"] == "ub":
                return {"what": "%r accepted for bob changed alice's tree (%s) after %r" % (r["cmd"], "/".join(k), r["interposed"]), "signature": "C03:late:transfer-served-under-another-login"}
    return None


C03_PIPE_FIRST = ["RETR x.txt", "RETR a/y.txt", "LIST", "LIST a", "MLSD a", "STOR up.bin", "APPE x.txt", "MLST x.txt", "DELE x.txt", "MKD made", "RMD a", "CWD a", "RNFR x.txt"]
C03_PIPE_NEXT = [["USER alice"], ["USER alice", "PWD"], ["USER alice", "PASS wrong"], ["USER nobody"], ["CWD a", "USER alice"]]


def c03_pipe_plans(ctx):
    """a command and a USER for ANOTHER (password-protected) account in one segment, on a backend whose calls suspend:
    the command was sent under bob's completed login and must act on bob's tree, whatever the handlers' interleaving"""
    plans = []
    for first in C03_PIPE_FIRST:
        for nxt in C03_PIPE_NEXT:
            for delay in ((0.01,) if not ctx.thorough() else (0.01, 0.0, 0.2)):
                plans.append([("pipe", [first] + nxt, delay)])
    # a transfer whose worker finishes while the NEXT command is still in its guards, and a USER behind that one
    for first in (("LIST", "RETR x.txt") if not ctx.thorough() else ("LIST", "MLSD a", "RETR x.txt", "STOR up.bin")):
        for second in (("RETR x.txt", "MLST x.txt", "DELE x.txt") if not ctx.thorough() else ("RETR x.txt", "RETR a/y.txt", "MLST x.txt", "DELE x.txt", "LIST a", "MKD made2")):
            # (one backend call of the second command's guards is slow; the first command's worker is done meanwhile)
            for delay in (({"is_file": 0.5, "exists": 0.3},) if not ctx.thorough() else ({"is_file": 0.5, "exists": 0.3}, {"exists": 0.5}, 0.01, 0.2)):
                plans.append([("pipe", [first, second, "USER alice"], delay)])
    return plans


def c03_pipe_oracle(plan, recs):
    for r in recs:
        if not r.get("pipe"):
            continue
        for name, p in r.get("pipe_calls", []):
            for q in LW.paths_of((name, p)):
                if pathlib.PurePosixPath(q).parts[:1] == ("ua",):
                    return {"what": "%r sent in one segment under bob's login: backend %s(%s) lies in alice's tree, whose password was never presented (replies %r)" % (r["pipe"], name, q, r["replies"]),
                            "signature": "C03:pipelined:served-under-a-login-without-password"}
        if r.get("data") and (b"ALICE" in r["data"] or b"keys.pem" in r["data"]):
            return {"what": "%r sent in one segment under bob's login delivered alice's data %r" % (r["pipe"], r["data"][:40]), "signature": "C03:pipelined:served-under-a-login-without-password"}
        t0, t1 = parse_tree(r["tree0"]), parse_tree(r["tree1"])
        for k in set(t0) | set(t1):
            if t0.get(k) != t1.get(k) and k[:1] == ("ua",):
                return {"what": "%r sent in one segment under bob's login changed alice's tree (%s)" % (r["pipe"], "/".join(k)), "signature": "C03:pipelined:served-under-a-login-without-password"}
    return None


# ------------------------------------------------------------------------------------------------
# C04: the permission decision of a transfer is about the path its worker acts on
# ------------------------------------------------------------------------------------------------
def c04_plans(ctx, dirs):
    plans = []
    for d1 in dirs:
        for d2 in dirs:
            if d1 == d2:
                continue
            for cmd in ("STOR new.bin", "APPE a.txt", "RETR a.txt", "LIST", "MLSD", "STOR sub/../up.bin"):
                plans.append([("cmd", "CWD " + d1), ("late", cmd, ["CWD " + d2])])
    if "/free" in dirs:
        # a relative path that is permitted below the directory the command was received in, and that spells a
        # forbidden location below the directory the session has moved to when the data connection arrives
        for cmd in ("RETR wo/d.txt", "LIST wo", "MLSD wo", "STOR ro/new.bin", "APPE ro/a.txt"):
            plans.append([("cmd", "CWD /free"), ("late", cmd, ["CWD /"])])
            plans.append([("cmd", "CWD /free"), ("late", cmd, ["CDUP", "PWD"])])
    return plans


def c04_oracle(plan, recs, nearest):
    for r in recs:
        if not r.get("late"):
            continue
        verb, _, arg = r["cmd"].partition(" ")
        _, target = want_path(r)
        rd, wr = nearest(list(target))
        if r.get("accepted"):
            if verb in ("STOR", "APPE") and not wr:
                return {"what": "%r was accepted (150) in %r although /%s is not writable" % (r["cmd"], r["state"]["cwd"], "/".join(target)), "signature": "C04:late:write-accepted-under-non-writable"}
            if verb in ("RETR", "LIST", "MLSD") and not rd:
                return {"what": "%r was accepted (150) in %r although /%s is not readable" % (r["cmd"], r["state"]["cwd"], "/".join(target)), "signature": "C04:late:read-accepted-under-non-readable"}
            mm = worker_target_mismatch(r)
            if mm:
                return {"what": "%r was checked against /%s (cwd %r when received) but after %r the worker's %s acted on %r" % (r["cmd"], "/".join(target), r["state"]["cwd"], r["interposed"], mm[0], mm[1]),
                        "signature": "C04:late:permission-checked-for-another-path"}
            # the decision was taken when the command was received: what the session does before the data connection
            # arrives does not take it back
            if r["replies"][-1:] == [550] and len(r["replies"]) >= 2 + len(r.get("interposed", [])) and all(x.split(" ")[0].upper() in ("CWD", "CDUP", "PWD", "NOOP", "TYPE", "SYST") for x in r.get("interposed", [])):
                return {"what": "%r was accepted (150) in %r - /%s is %s there - and after %r answered %r: a permission was asked for again, for another path" % (
                    r["cmd"], r["state"]["cwd"], "/".join(target), "writable" if verb in ("STOR", "APPE") else "readable", r["interposed"], r["replies"]), "signature": "C04:late:permitted-transfer-refused-afterwards"}
        t0, t1 = parse_tree(r["tree0"]), parse_tree(r["tree1"])
        for k in set(t0) | set(t1):
            if t0.get(k) != t1.get(k):
                _, w2 = nearest(list(k))
                if not w2:
                    return {"what": "%r (then %r) changed /%s which lies under a non-writable permission entry" % (r["cmd"], r["interposed"], "/".join(k)), "signature": "C04:late:modified-under-non-writable"}
    return None


def run_family(ctx, pid, jobs_plans, make_job, oracle):
    """run plans, apply `oracle(plan, recs)`; returns a Result (oracle only: the Lean session model is sequential)"""
    res = Result()
    jobs = [make_job(p) for p in jobs_plans]
    outs = LW.run_many(jobs)
    for plan, recs in zip(jobs_plans, outs):
        res.cases += 1
        res.count("late_data_plans")
        if isinstance(recs, str):
            res.disagreements.append({"correspondence": "harness (late data)", "input": {"late_plan": plan}, "impl": recs, "model": None})
            continue
        if any(r.get("late") and r.get("accepted") for r in recs):
            res.distinct.add(("late", repr(plan)))
            res.count("late_transfers_accepted")
        f = oracle(plan, recs)
        if f:
            f["input"] = {"late_plan": [list(s) for s in plan]}
            res.oracle_failures.append(f)
    return res
