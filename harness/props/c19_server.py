"""C19, server half: arbitrary bytes on the control channel are contained.

For every generated garbage input: a bystander session O is logged in and has changed directory; a garbage
session G connects (sometimes logs in), sends the input, the peer then disconnects (orderly or abruptly).
Observed: what G got back (compared with the Lean prediction: decodable, short lines go through the session
model, undecodable or over-long lines end the session without a reply), that O is undisturbed, that a NEW
session is admitted (server limit = 2, so G's slot must be back), and the ledger when everybody is gone."""
import asyncio
import multiprocessing
import os

import scenario as SC
import seqrun as S
import simnet
import world as W
from framework import Result, drive, enc_bytes, enc_str

VERBS = ["USER", "PASS", "PWD", "CWD", "MKD", "RETR", "STOR", "LIST", "EPSV", "PASV", "REST", "TYPE", "RNFR", "RNTO", "ABOR", "QUIT", "SITE", "FEAT"]


def gen_inputs(ctx):
    rng = ctx.rng
    out = []
    fixed = [
        b"USER \xff\xfe\r\n", b"\xff\r\n", b"PWD\xc3\r\n", b"\x00\r\n", b"\r\n", b"\n", b"   \r\n", b"PWD\rPWD\r\n", b"NOOP" * 10 + b"\r\n",
        b"A" * 70000 + b"\r\n", b"PWD " + b"x" * 66000 + b"\r\n", b"PWD", b"USER bo", b"", b"\xe2\x82", b"MKD \xed\xa0\x80\r\n", b"MKD \xff\xfe\r\n", b"MKD d/\xff\r\n", b"RNFR f.txt\r\nRNTO \xfe\r\n",
        b"CWD " + "é".encode("latin-1") + b"\r\n", b"REST \xc2\xb2\r\n", b"PWD\r\n\xff\r\nPWD\r\n", b"TYPE I\r\n" * 50,
    ]
    for f in fixed:
        out.append(("fixed", f))
    # a peer that names an account again and again without ever logging in, and then talks garbage
    for f in (b"USER alice\r\nUSER alice\r\n\xff\xfe\r\n", b"USER alice\r\nUSER alice\r\nUSER alice\r\nUSER alice\r\n", b"USER alice\r\nPASS wrong\r\nUSER alice\r\nPASS\r\n\x00\r\n",
              b"USER alice\r\nUSER bob\r\nUSER alice\r\nuser ALICE\r\nUSER alice", b"USER alice\r\nUSER alice\r\nQUIT\r\n"):
        out.append(("fixed", f))
    # verbs that are not commands but ARE names the server object knows (its methods and attributes): to the
    # dispatcher they are unknown verbs like any other
    import aioftp

    known = set(aioftp.Server(users=[]).commands_mapping)
    names = sorted(n for n in dir(aioftp.Server) if not n.startswith("__") and n.lower() not in known)
    for n in names:
        for line in (n.upper(), n + " x", n.upper() + " x\r\n" + n.upper()):
            out.append(("server-attribute-verb", line.encode("utf-8") + b"\r\n"))
    for _ in range(ctx.pick(150, 3000)):
        n = rng.randint(1, 3)
        buf = b""
        for _ in range(n):
            v = rng.choice(VERBS)
            arg = rng.choice(["", "d", "f.txt", "../..", "a b", "é", "x" * rng.choice([1, 10, 300]), "\t", "  ", "%s%n", "\x7f"])
            line = (v + (" " + arg if arg else "")).encode("utf-8") + b"\r\n"
            r = rng.random()
            if r < 0.35:
                pos = rng.randrange(len(line))
                line = line[:pos] + bytes([rng.randrange(256)]) + line[pos + (1 if rng.random() < 0.5 else 0) :]
            elif r < 0.45:
                line = line.rstrip(b"\r\n")  # no line end: premature end of stream
            elif r < 0.5:
                line = bytes(rng.randrange(256) for _ in range(rng.randint(1, 40))) + b"\r\n"
            buf += line
        out.append(("mutated", buf))
    return out


async def _case(loop, data, login_first, end_kind):
    # (alice may have one session at a time: a slot of hers that a garbage session keeps is missed by the next login)
    users = [W.UserSpec(u.login, u.password, home=u.home, max_conn=(1 if u.login == "alice" else None)) for u in S.USERS_ANON]
    wd = W.World(loop, users, server_kwargs={"maximum_connections": 2})
    await wd.start()
    out = {}
    try:
        wd.set_tree(S.TREE)
        o = await wd.raw_client()
        await W.run_line(wd, o, b"USER bob")
        await W.run_line(wd, o, b"CWD d")
        g = await wd.raw_client()
        if login_first:
            await W.run_line(wd, g, b"USER bob")
        n0 = len(g.replies)
        g.send_raw(data)
        if end_kind.startswith("vanish-now"):
            # the peer disappears in the same instant, or a few loop iterations later, without reading anything:
            # the reset lands while the server is still reading / answering what it was sent
            for _ in range(int(end_kind.partition(":")[2] or 0)):
                await asyncio.sleep(0)
            g.vanish()
        await loop.settle()
        await asyncio.sleep(3)  # bounded wait in virtual time: nothing may hang on it
        await loop.settle()
        out["g_codes"] = [int(c) if c.isdigit() else -1 for c, _ in g.replies[n0:]]
        out["g_eof"] = g.eof
        if not g.eof:
            if end_kind == "vanish":
                g.vanish()
            else:
                g.close()
            await loop.settle()
        # the bystander is undisturbed
        c1, _, _, _ = await W.run_line(wd, o, b"PWD")
        out["o_pwd"] = (c1, o.replies[-1][1] if o.replies else None)
        # ... and can still look at the tree the garbage session may have touched
        out["o_list"] = None
        if not o.eof:
            await W.run_line(wd, o, b"EPSV")
            await W.data_connect(wd, o)
            cl, _, _, _ = await W.run_line(wd, o, b"LIST /")
            cm = []
            if not o.eof:
                await W.run_line(wd, o, b"EPSV")
                await W.data_connect(wd, o)
                cm, _, _, _ = await W.run_line(wd, o, b"MLSD /")
            out["o_list"] = (cl, cm, o.eof)
        # a new session is admitted: G's slot is back
        n = await wd.raw_client()
        out["n_greeting"] = [int(c) for c, _ in n.replies]
        c2, _, _, _ = await W.run_line(wd, n, b"USER bob") if not n.eof else ([], 0, 0, 0)
        out["n_user"] = c2
        # ... and so are the slots of the accounts G named: alice can log in
        ca, _, _, _ = await W.run_line(wd, n, b"USER alice") if not n.eof else ([], 0, 0, 0)
        cp, _, _, _ = await W.run_line(wd, n, b"PASS secret") if not n.eof else ([], 0, 0, 0)
        out["n_alice"] = (ca, cp)
        out["connections_now"] = len(wd.server.connections)
        o.close()
        n.close()
        await loop.settle()
        out["ledger"] = SC.ledger(wd)
    finally:
        try:
            await wd.stop()
        except Exception:
            wd.finish()
    return out


def _job(args):
    # one case needs well under a second of real time; a server that stops yielding must not stall the check
    os.environ.setdefault("VERIF_WALL_LIMIT", "25")
    try:
        return simnet.run(_case, *args[:3], task_salt=(args[3] if len(args) > 3 else 0))
    except simnet.WallClockExceeded as e:
        return "SERVER-STARVED-THE-LOOP %s" % e
    except BaseException as e:  # noqa
        return "HARNESS-ERROR %s: %s" % (type(e).__name__, e)


def model_lines(data, login_first):
    """the session model's prediction: complete, decodable lines of at most 64 KiB are dispatched in order;
    the first undecodable / over-long / unterminated one ends the session without a reply"""
    lines = S.model_lines(S.USERS_ANON, S.TREE, [("connect",)] + ([S.ev_line("USER bob")] if login_first else []))
    n_head = len(lines)
    rest = data
    fate = "open"
    while rest:
        i = rest.find(b"\n")
        if i < 0:
            fate = "eof-in-line" if len(rest) <= 65536 else "overlong"
            break
        raw, rest = rest[: i + 1], rest[i + 1 :]
        if len(raw) > 65536:
            fate = "overlong"
            break
        try:
            s = raw.decode("utf-8")
        except UnicodeDecodeError:
            fate = "undecodable"
            break
        lines.append("sess ev 0 line %s -" % enc_str(s))
    return lines, n_head, fate


def run(ctx, compare=True):
    res = Result()
    inputs = gen_inputs(ctx)
    rng = ctx.rng
    jobs = []
    for fam, data in inputs:
        jobs.append((data, rng.random() < 0.5, rng.choice(["close", "vanish"])))
    # the hand-written inputs both ways (logged in and not), whatever the random draw above was
    for fam, data in list(inputs):
        if fam == "fixed":
            for lf in (True, False):
                inputs.append((fam, data))
                jobs.append((data, lf, "close"))
    # orderly and garbage endings cut off by a reset before the answer is out (every offset of a few loop turns)
    # ... under several iteration orders of the server's task sets (`done`, `pending`): which of two tasks finished in
    # the same loop turn is looked at first is a scheduling choice the outcome must not depend on
    for tail in (b"QUIT\r\n", b"PWD\r\nQUIT\r\n", b"\xff\r\n", b"NOOP\r\n", b"EPSV\r\nQUIT\r\n", b"PASV\r\nFOO\r\nQUIT\r\n", b"EPSV\r\nEPSV\r\n\xff\r\n"):
        for k in range(0, 10):
            for salt in range(ctx.pick(8, 16)):
                inputs.append(("cut-before-reply", tail))
                jobs.append((tail, True, "vanish-now:%d" % k, salt))
    mp = multiprocessing.get_context("fork")
    with mp.Pool(min(16, os.cpu_count() or 4)) as pool:
        outs = pool.map(_job, jobs, chunksize=8)
    all_lines, spans = [], []
    for (fam, data), job, o in zip(inputs, jobs, outs):
        res.cases += 1
        res.count("server_garbage_" + fam)
        inp = {"kind": "control-bytes", "bytes": data[:200].hex() + ("..(%d bytes)" % len(data) if len(data) > 200 else ""), "full_len": len(data), "login_first": job[1], "end": job[2], "task_salt": (job[3] if len(job) > 3 else 0)}
        if isinstance(o, str) and o.startswith("SERVER-STARVED-THE-LOOP"):
            res.oracle_failures.append({"input": inp, "what": "after this input the server never yielded to the event loop again: every session (the bystander too) is frozen, nothing is released (%s)" % o, "signature": "C19:server:event-loop-starved"})
            continue
        if isinstance(o, str):
            res.disagreements.append({"correspondence": "C19 server harness", "input": inp, "impl": o})
            continue
        res.distinct.add(("server", data[:64], job[1]))
        if o["o_pwd"][0] != [257] or '"/d"' not in (o["o_pwd"][1] or [""])[0]:
            res.oracle_failures.append({"input": inp, "what": "the bystander session was disturbed: PWD -> %r" % (o["o_pwd"],), "signature": "C19:server:other-session-disturbed"})
        elif o.get("o_list") is not None and (o["o_list"][0] != [150, 226] or o["o_list"][1] != [150, 200] or o["o_list"][2]):
            res.oracle_failures.append({"input": inp, "what": "after the garbage session the bystander cannot list the root any more: LIST -> %r, MLSD -> %r, session ended: %r" % o["o_list"], "signature": "C19:server:other-session-disturbed"})
        elif o["n_greeting"] != [220] or o["n_user"] != [230]:
            res.oracle_failures.append({"input": inp, "what": "after the garbage session's peer disconnected a new session is not admitted (greeting %r, USER %r): its slot was not released" % (o["n_greeting"], o["n_user"]), "signature": "C19:server:slot-not-released"})
        elif o.get("n_alice") != ([331], [230]):
            res.oracle_failures.append({"input": inp, "what": "after the garbage session is gone, a new session logging in as alice (one session allowed) is answered %r: a slot of hers was not given back" % (o.get("n_alice"),), "signature": "C19:server:user-slot-not-released"})
        elif o["connections_now"] != 2:
            res.oracle_failures.append({"input": inp, "what": "%d entries in server.connections, expected the bystander and the new session only" % o["connections_now"], "signature": "C19:server:session-not-removed"})
        else:
            bad = SC.ledger_clean(o["ledger"], {"maximum_connections": 2, "data_ports": None})
            if bad:
                res.oracle_failures.append({"input": inp, "what": "when everybody is gone: " + "; ".join(bad), "signature": "C19:server:resources-left"})
        if compare and len(data) < 5000 and not job[2].startswith("vanish-now"):  # a peer that is gone reads no replies
            lines, n_head, fate = model_lines(data, job[1])
            spans.append((len(all_lines), len(lines), n_head, fate, inp, o))
            all_lines += lines
    if compare and ctx.model_ok and all_lines:
        mout = drive(all_lines)
        res.lines += len(all_lines)
        for start, n, n_head, fate, inp, o in spans:
            outs_ = mout[start + n_head : start + n]
            want = []
            alive = True
            for m in outs_:
                st = dict(t.split("=", 1) for t in m.split(" ") if "=" in t)
                if not alive:
                    break
                if st["replies"] != "~":
                    want += [int(x) for x in st["replies"].split(",")]
                alive = st["alive"] == "1"
            # transfers that wait for a data connection answer 425 after the wait; the model appends it at once
            got = o["g_codes"]
            # pipelined lines: every command is its own task, so replies may overtake each other, and replies of
            # commands still pending when an undecodable / over-long line ends the session are never sent
            import collections as _c

            cw, cg = _c.Counter(want), _c.Counter(got)
            if fate in ("undecodable", "overlong") and alive:
                same = not (cg - cw)
            elif not alive:
                # the model's session ended inside the input (QUIT, 522 ...): lines read before the handler ran
                # may still be answered (502 is queued by the dispatcher itself), later ones never are
                same = not (cw - cg) or not (cg - cw)
            else:
                same = cw == cg
            if (not same) or (fate in ("undecodable", "overlong") and alive and not o["g_eof"]):
                if len(res.disagreements) < 12:
                    res.disagreements.append({"correspondence": "Model.Session (line intake) vs real dispatcher on raw control bytes", "input": inp, "impl": {"replies": got, "ended_by_server": o["g_eof"]}, "model": {"replies": want, "fate": fate}})
                else:
                    res.count("more_disagreements")
    return res


def replay(inp):
    """re-run exactly this input (bytes, login, how and when the peer leaves, task-set order); True = still fails"""
    hx = inp.get("bytes", "")
    if ".." in hx:
        print("replay: the input was longer than the 200 bytes kept in the replay file; re-run the family instead")
        return True
    job = (bytes.fromhex(hx), bool(inp.get("login_first")), inp.get("end", "close"), int(inp.get("task_salt", 0)))
    o = _job(job)
    print("replay input:", inp)
    print("implementation:", o if isinstance(o, str) else {k: o.get(k) for k in ("g_codes", "g_eof", "o_pwd", "o_list", "n_greeting", "n_user", "connections_now", "ledger")})
    if isinstance(o, str):
        return True
    if o["o_pwd"][0] != [257] or o["n_greeting"] != [220] or o["n_user"] != [230] or o["connections_now"] != 2:
        return True
    if o.get("o_list") is not None and (o["o_list"][0] != [150, 226] or o["o_list"][1] != [150, 200] or o["o_list"][2]):
        return True
    return bool(SC.ledger_clean(o["ledger"], {"maximum_connections": 2, "data_ports": None}))
