"""C07, wall-clock part: `Client.parse_ls_date(s)` as the library itself calls it (now=None: the wall clock)
must depend on the string and on the clock AT THAT CALL only - one long-lived process listing the same
`Mon dd HH:MM` string months apart has to infer the year afresh each time.  The function-level run passes
`now` explicitly and cannot see a dependency on earlier calls; here the client's clock is a controllable
stand-in and the same strings are parsed at successive times in one process, each result compared with the
explicit-now result for that instant (which the Lean model is tied to by the function-level run)."""
import datetime as _dt

from framework import Result

STRINGS = ["Jul 20 10:00", "Dec 24 18:30", "Jan  1 00:00", "Feb 29 12:00", "Mar  1 23:59", "Jun 30 06:07", "Sep  9 09:09", "Dec 31 23:59"]
# successive wall-clock instants of ONE process (naive local datetimes)
CLOCKS = [
    (2021, 1, 15, 12, 0), (2021, 7, 21, 9, 0), (2021, 12, 25, 8, 0), (2022, 1, 2, 0, 30), (2022, 8, 1, 0, 0),
    (2024, 2, 29, 13, 0), (2024, 3, 1, 0, 0), (2025, 1, 1, 0, 0), (2021, 1, 15, 12, 0),
]


def _run_sequence(strings, clocks):
    """returns [(clock, s, got_with_wall_clock, want_with_explicit_now)]"""
    import aioftp
    import aioftp.client as AC

    real = AC.datetime

    class _Shim:
        """stands in for the `datetime` MODULE inside aioftp.client: only `datetime.now()` is redirected"""

        def __init__(self):
            self.current = None
            outer = self

            class FakeDateTime(_dt.datetime):
                @classmethod
                def now(cls, tz=None):
                    return outer.current

            self.datetime = FakeDateTime

        def __getattr__(self, name):
            return getattr(real, name)

    shim = _Shim()
    out = []
    AC.datetime = shim
    try:
        for c in clocks:
            now = _dt.datetime(*c)
            shim.current = now
            for s in strings:
                try:
                    got = aioftp.Client.parse_ls_date(s)
                except Exception as e:  # noqa
                    got = "EXC:" + type(e).__name__
                try:
                    want = aioftp.Client.parse_ls_date(s, now=now)
                except Exception as e:  # noqa
                    want = "EXC:" + type(e).__name__
                out.append((c, s, got, want))
    finally:
        AC.datetime = real
    return out


def _run_server_sequence(mtimes, nows):
    """the server half: `Server.build_list_mtime(st_mtime)` as the LIST worker calls it (now=None: `time.time()`), at
    successive clock values in one process; returns [(now, mtime, got, want_with_explicit_now)]"""
    import aioftp
    import aioftp.server as AS

    real = AS.time

    class _TimeShim:
        def __init__(self):
            self.current = 0.0

        def time(self):
            return self.current

        def __getattr__(self, name):
            return getattr(real, name)

    shim = _TimeShim()
    out = []
    AS.time = shim
    try:
        for now in nows:
            shim.current = now
            for m in mtimes:
                got = aioftp.Server.build_list_mtime(m)
                want = aioftp.Server.build_list_mtime(m, now)
                out.append((now, m, got, want))
    finally:
        AS.time = real
    return out


def run_server(ctx, res):
    import time as _t

    rng = ctx.rng
    base = 1_700_000_000
    half = 15778476
    seqs = []
    # the same modification time looked at before and after it crosses a boundary of the "recent" window
    for m in (base, base + 86400 * 30, base - 86400 * 100):
        seqs.append(([m], [m - 86400, m + 60, m + half - 86400, m + half + 86400, m + 3 * half, m + 60]))
    for _ in range(ctx.pick(6, 60)):
        ms = [base + rng.randrange(-2 * half, 2 * half) for _ in range(3)]
        ns = [base + rng.randrange(-3 * half, 3 * half) for _ in range(6)]
        seqs.append((ms, ns))
    for mtimes, nows in seqs:
        for now, m, got, want in _run_server_sequence(mtimes, nows):
            res.cases += 1
            res.count("server_wall_clock_formats")
            res.distinct.add(("server-clock", now, m))
            if got != want:
                res.oracle_failures.append({
                    "input": {"kind": "server-wall-clock-sequence", "mtimes": list(mtimes), "nows": list(nows), "at": now, "mtime": m},
                    "what": "build_list_mtime(%d) with the clock at %d gave %r; with now passed explicitly %r: the result depends on an earlier call in the same process" % (m, now, got, want),
                    "signature": "C07:ls-date-depends-on-earlier-calls",
                })
                break


def run(ctx):
    res = Result()
    run_server(ctx, res)
    rng = ctx.rng
    seqs = [(STRINGS, CLOCKS)]
    for _ in range(ctx.pick(6, 60)):
        ss = [rng.choice(STRINGS) for _ in range(4)]
        cs = [(rng.choice([2019, 2020, 2021, 2023, 2024]), rng.randint(1, 12), rng.randint(1, 28), rng.randint(0, 23), rng.randint(0, 59)) for _ in range(6)]
        seqs.append((ss, cs))
    for strings, clocks in seqs:
        rows = _run_sequence(strings, clocks)
        for c, s, got, want in rows:
            res.cases += 1
            res.count("wall_clock_parses")
            res.distinct.add(("clock", c, s))
            if got != want:
                res.oracle_failures.append({
                    "input": {"kind": "wall-clock-sequence", "strings": list(strings), "clocks": [list(x) for x in clocks], "at": list(c), "string": s},
                    "what": "parse_ls_date(%r) with the wall clock at %s gave %r; with now passed explicitly %r: the result depends on an earlier call in the same process" % (s, _dt.datetime(*c).isoformat(), got, want),
                    "signature": "C07:ls-date-depends-on-earlier-calls",
                })
                break
    return res


def replay(inp):
    if inp.get("kind") == "server-wall-clock-sequence":
        rows = _run_server_sequence(inp["mtimes"], inp["nows"])
        bad = [r for r in rows if r[2] != r[3]]
        for r in bad[:5]:
            print(r)
        return bool(bad)
    rows = _run_sequence(inp["strings"], [tuple(x) for x in inp["clocks"]])
    bad = [r for r in rows if r[2] != r[3]]
    for r in bad[:5]:
        print(r)
    return bool(bad)
