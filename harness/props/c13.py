"""C13  backend failures are contained: 451, data channel closed, session lives on.

For every command situation the k-th backend call of that command is made to fail (every k), inside the
real backend method so that `universal_exception` wraps it as a real failure would be.  Compared with the
Lean model (Model/Faults.lean): the fault-free sequence of backend calls, and for every k the replies and
whether the data connection was closed.  Oracle on the implementation: never a success reply, final reply
451, data connection of a marked transfer closed, session and a second session still usable.
"""
import asyncio
import multiprocessing
import os

import seqrun as S
import simnet
import spyio
import world as W
from framework import Result, drive

PID = "C13"
RULE = (
    "case = (command situation, backend, fault position k) with k ranging over EVERY backend call of the command "
    "(exists, is_dir, is_file, stat, list step, mkdir, rmdir, unlink, rename, open, seek, read, write, close), plus "
    "repeated-fault cases (every call of one kind fails); situations cover every verb that reaches the backend, "
    "offsets, multi-block transfers, empty and mixed directories; non-trivial = the fault lands after at least one "
    "successful backend call or inside a worker; distinct = distinct (situation, backend, k)"
)
EXPLANATION = (
    "Properties/C13.lean: fault_contained holds for every verb, shape and call index of the program model built from "
    "the regenerated decorator stacks and `async with` item order; fault_closes_data holds for every failing call, the open "
    "of a file transfer included (finding F6 repaired in /repo a864f95; context_order_matters shows the old order fails).  This run ties the program model to the code (call sequences and outcomes)."
)
ASSUMPTIONS = ["a backend failure is an exception raised inside the backend method (becomes PathIOError)", "faults are injected on MemoryPathIO and PathIO through the spying subclass"]

TREE = [
    (("d",), None),
    (("d", "sub"), None),
    (("d", "g.txt"), b"hello world"),
    (("e",), None),
    (("f.txt",), b"0123456789"),
]
PAYLOAD = b"ABCDEFGHIJ"

# name, preparation lines, command, shape (file?, entries, blocks, offset), needs data connection
SITUATIONS = [
    ("cwd", [], "CWD d", (1, [], 0, 0), False),
    ("cdup", ["CWD d"], "CDUP", (1, [], 0, 0), False),
    ("mkd", [], "MKD new/deep", (1, [], 0, 0), False),
    ("rmd", [], "RMD e", (1, [], 0, 0), False),
    ("dele", [], "DELE f.txt", (1, [], 0, 0), False),
    ("rnto", ["RNFR f.txt"], "RNTO z.txt", (1, [], 0, 0), False),
    ("mlst-file", [], "MLST f.txt", (1, [], 0, 0), False),
    ("mlst-dir", [], "MLST d", (0, [], 0, 0), False),
    ("list-root", [], "LIST", (1, [0, 0, 1], 0, 0), True),
    ("list-empty", [], "LIST e", (1, [], 0, 0), True),
    ("list-d", [], "LIST d", (1, [0, 1], 0, 0), True),
    ("mlsd-root", [], "MLSD", (1, [0, 0, 1], 0, 0), True),
    ("mlsd-d", [], "MLSD d", (1, [0, 1], 0, 0), True),
    ("retr", [], "RETR f.txt", (1, [], 3, 0), True),
    ("retr-offset", ["REST 2"], "RETR f.txt", (1, [], 2, 1), True),
    ("retr-offset-end", ["REST 10"], "RETR f.txt", (1, [], 0, 1), True),
    ("stor-new", [], "STOR n.bin", (1, [], 3, 0), True),
    ("stor-over", [], "STOR f.txt", (1, [], 3, 0), True),
    ("stor-offset", ["REST 4"], "STOR f.txt", (1, [], 3, 1), True),
    ("appe", [], "APPE f.txt", (1, [], 3, 0), True),
    ("stor-empty", [], "STOR n.bin", (1, [], 0, 0), True),
]
BLOCK = 4


# what a backend may raise: any exception class counts as a backend failure (`universal_exception` lets only
# CancelledError, NotImplementedError and StopAsyncIteration through); TimeoutError is an OSError since 3.11
# (ETIMEDOUT from a network file system, or the expiry of `path_timeout`)
FAULT_CLASSES = [
    ("OSError", lambda m: OSError(5, m)),
    ("TimeoutError", lambda m: TimeoutError(110, m)),
    ("PermissionError", lambda m: PermissionError(13, m)),
    ("ValueError", lambda m: ValueError(m)),
    ("asyncio.TimeoutError", lambda m: __import__("asyncio").TimeoutError(m)),
]


def fault_for(i, k):
    return FAULT_CLASSES[(i * 7 + (k or 0)) % len(FAULT_CLASSES)]


async def _situation(loop, sit, backend, k, repeat_name=None, pipelined=False, fault_class=0, parked=False, slow=None, close_returns=None):
    """`slow`: (backend "vasync" only) the slow-th job handed to the executor after the preparation takes longer than
    `path_timeout` - a disk that hangs instead of failing"""
    name, prep, cmd, shape, needs_data = sit
    spy = spyio.Spy()
    spy.close_returns = close_returns  # a legal backend whose close() returns something (truthy)
    kw = {"block_size": BLOCK}
    if backend == "vasync":
        kw["path_timeout"] = 0.25
    wd = W.World(loop, S.USERS_ANON, backend=backend, spy=spy, server_kwargs=kw)
    await wd.start()
    res = {}
    try:
        wd.set_tree(TREE)
        a = await wd.raw_client()
        b = await wd.raw_client()
        await W.run_line(wd, a, b"USER bob")
        await W.run_line(wd, b, b"USER bob")
        if needs_data:
            await W.run_line(wd, a, b"EPSV")
            await W.data_connect(wd, a)
        for p in prep:
            await W.run_line(wd, a, p.encode())
        if parked and not needs_data:
            # a data connection made ahead of time (for the NEXT transfer) is parked at the server while the
            # faulting command runs
            await W.run_line(wd, a, b"EPSV")
            await W.data_connect(wd, a)
        n0 = spy.n
        spy.name_count = {}
        e0 = wd.vexec.n if wd.vexec is not None else 0
        if slow is not None and wd.vexec is not None:
            wd.vexec.slow_at[e0 + slow] = 1.0
        if k is not None:
            spy.fail_at[n0 + k] = FAULT_CLASSES[fault_class][1]("injected fault at backend call %d of %s" % (k, cmd))
        if repeat_name is not None:
            spy.fail_name[repeat_name] = True
        data_t = a.data[1].transport if a.data else None
        verb = cmd.split(" ")[0]
        empty = name == "stor-empty"
        pipelined_codes = None
        if pipelined == "reset-data":
            # the peer closes its end of the data connection with bytes unread (a reset reaches the server) while the
            # worker is inside a slow backend call - and THAT call then fails: still a backend failure, still 451
            m0 = len(a.replies)
            spy.delay = 0.3
            a.send_raw(cmd.encode() + b"\r\n")
            waited = 0.0
            while waited < 4.0 and not any(c == "150" for c, _ in a.replies[m0:]) and not a.eof:
                await asyncio.sleep(0.05)
                waited += 0.05
            await asyncio.sleep(0.05)
            if a.data is not None:
                a.data[1].transport.vanish()
                a.data = None
            waited = 0.0
            while waited < 8.0 and not any(not c.startswith("1") for c, _ in a.replies[m0:]) and not a.eof:
                await asyncio.sleep(0.25)
                waited += 0.25
                await loop.settle()
            spy.delay = 0.0
            codes, crashed, out, listing = [int(c) for c, _ in a.replies[m0:] if c.isdigit()], False, b"", None
        elif pipelined:
            # the faulting command and the next command arrive in ONE segment (no waiting for the reply)
            m0 = len(a.replies)
            a.send_raw(cmd.encode() + b"\r\nPWD\r\n")
            await loop.settle()
            waited = 0.0
            while waited < 4.0 and len([c for c, _ in a.replies[m0:] if not c.startswith("1")]) < 2 and not a.eof:
                await asyncio.sleep(0.25)
                waited += 0.25
                await loop.settle()
            pipelined_codes = [int(c) for c, _ in a.replies[m0:]]
            codes, crashed, out, listing = pipelined_codes[:1], False, b"", None
        else:
            r0 = len(a.replies)
            codes, crashed, out, listing = await W.run_line(wd, a, cmd.encode(), b"" if empty else PAYLOAD)
            if 150 in codes and not any(c >= 200 for c in codes):
                # the peer is still waiting for the completion reply: give it (virtual) time
                await asyncio.sleep(3)
                await loop.settle()
                codes = [int(c) for c, _ in a.replies[r0:] if c.isdigit()]
        res["codes"] = codes
        res["pipelined_codes"] = pipelined_codes
        res["calls"] = [nm for kk, nm, _ in spy.log if kk >= n0]
        res["executor_jobs"] = list(wd.vexec.log[e0:]) if wd.vexec is not None else []
        if wd.vexec is not None:
            wd.vexec.slow_at.clear()
        res["crashed"] = crashed
        res["data_closed"] = None
        if data_t is not None:
            sp = data_t.peer
            res["data_closed"] = bool(sp.closing or sp.closed)
        # no more faults from here on
        spy.fail_at.clear()
        spy.fail_name.clear()
        # the session is still usable: a plain command and a full transfer
        parked_data = a.data
        a.keep_data = bool(parked and parked_data is not None)
        c1, _, _, _ = await W.run_line(wd, a, b"PWD")
        conn_a = wd.connection_of(a)
        # the client made that connection for its next transfer and uses it as long as the SERVER still has it
        # registered (whether the server's end is still open is exactly what is being looked at)
        still_parked = parked and parked_data is not None and conn_a is not None and wd._get(conn_a, "data_connection")[0]
        res["follow_uses_parked_data_connection"] = bool(still_parked)
        if not still_parked:
            a.keep_data = False
            await W.run_line(wd, a, b"EPSV")
            await W.data_connect(wd, a)
        c2, _, out2, _ = await W.run_line(wd, a, b"RETR /d/g.txt")
        res["follow_pwd"] = c1
        res["follow_retr"] = (c2, out2)
        c3, _, _, _ = await W.run_line(wd, b, b"PWD")
        res["other_session"] = c3
        res["alive"] = wd.connection_of(a) is not None and not a.eof
        a.close()
        b.close()
        await loop.settle()
    finally:
        try:
            await wd.stop()
        except Exception:
            wd.finish()
    return res


def _job(args):
    idx, backend, k, rep = args[:4]
    pipelined = len(args) > 4 and args[4]
    fc = args[5] if len(args) > 5 else 0
    parked = len(args) > 6 and args[6]
    slow = args[7] if len(args) > 7 else None
    close_returns = args[8] if len(args) > 8 else None
    salt = args[9] if len(args) > 9 else 0  # iteration order of the dispatcher's set of finished tasks (simnet.SeqTask)
    try:
        return simnet.run(_situation, SITUATIONS[idx], backend, k, rep, pipelined, fc, parked, slow, close_returns, task_salt=salt)
    except BaseException as e:  # noqa
        return "HARNESS-ERROR %s: %s" % (type(e).__name__, e)


def shape_tok(shape, calls=None, verb=None):
    f, es, b, o = shape
    if calls is not None and verb == "mlsd":
        # directory order is the backend's business: read the entry kinds off the fault-free call log
        es = []
        for i, c in enumerate(calls):
            if c == "is_file":
                es.append(0 if i + 1 < len(calls) and calls[i + 1] == "is_dir" else 1)
    return "%d %s %d %d" % (f, ",".join(str(x) for x in es) if es else "~", b, o)


def oracle(sit, backend, k, rep, r):
    name, prep, cmd, shape, needs_data = sit
    verb = cmd.split(" ")[0].lower()
    codes = r["codes"]
    inp = {"situation": name, "command": cmd, "preparation": prep, "backend": backend, "fault_at_call": k, "all_calls_of_kind_fail": rep}
    finals = [c for c in codes if c >= 200]
    faulted_call = r["calls"][k] if (k is not None and k < len(r["calls"])) else rep
    if any(200 <= c < 300 for c in codes):
        return {"input": inp, "what": "%r answered %r although backend call %s failed" % (cmd, codes, faulted_call), "signature": "C13:success-reply-after-fault:%s" % verb}
    if not finals or finals[-1] != 451:
        return {"input": inp, "what": "%r answered %r (want a final 451) after backend call %s failed" % (cmd, codes, faulted_call), "signature": "C13:not-451:%s" % verb}
    if 150 in codes and r["data_closed"] is False:
        sig = "C13:data-connection-left-open:fault-in-%s-of-%s" % (faulted_call, "file-transfer" if verb in ("retr", "stor", "appe") else verb)
        return {"input": inp, "what": "%r got its 150 mark, backend call %s failed, reply %r, but the data connection was not closed" % (cmd, faulted_call, codes), "signature": sig}
    if not r["alive"] or r["follow_pwd"] != [257]:
        return {"input": inp, "what": "session not usable after the fault: PWD -> %r" % (r["follow_pwd"],), "signature": "C13:session-unusable:%s" % verb}
    if r["follow_retr"][0] != [150, 226] or r["follow_retr"][1] != b"hello world":
        return {"input": inp, "what": "next transfer after the fault: %r" % (r["follow_retr"],), "signature": "C13:next-transfer-broken:%s" % verb}
    if r["other_session"] != [257]:
        return {"input": inp, "what": "another session was disturbed: PWD -> %r" % (r["other_session"],), "signature": "C13:other-session:%s" % verb}
    return None


def _run(ctx, compare=True):
    res = Result()
    backends = ["memory", "pathio"] + (["async"] if ctx.thorough() else [])
    mp = multiprocessing.get_context("fork")
    with mp.Pool(min(16, os.cpu_count() or 4)) as pool:
        base = pool.map(_job, [(i, be, None, None) for be in backends for i in range(len(SITUATIONS))])
        base = dict(zip([(i, be) for be in backends for i in range(len(SITUATIONS))], base))
        jobs = []
        for (i, be), r in base.items():
            if isinstance(r, str):
                continue
            for k in range(len(r["calls"])):
                # every call index with the plain OSError, and with one other class in rotation (all of them
                # in the thorough tier)
                jobs.append((i, be, k, None))
                others = range(1, len(FAULT_CLASSES)) if ctx.thorough() else [1 + (i * 7 + k) % (len(FAULT_CLASSES) - 1)]
                for fc in others:
                    jobs.append((i, be, k, None, False, fc))
            for kind in sorted(set(r["calls"])):
                jobs.append((i, be, None, kind))
            if not SITUATIONS[i][4]:
                for k in range(len(r["calls"])):
                    jobs.append((i, be, k, None, True))
                    if be == "memory":
                        pass
            if SITUATIONS[i][0] in ("retr", "list-root", "mlsd-d") and be == "memory":
                for k in range(len(r["calls"])):
                    jobs.append((i, be, k, None, "reset-data"))
            if not SITUATIONS[i][4]:
                for k in range(len(r["calls"])):
                    if be == "memory":
                        # the failing handler and the reader of the next line finish in the same wake-up of the
                        # dispatcher: in whichever order it looks at them, both are dealt with
                        for salt in (1, 5):
                            jobs.append((i, be, k, None, True, 0, False, None, None, salt))
            # a backend whose close() returns a truthy value: a fault inside the transfer is still a fault
            if SITUATIONS[i][4] and be == "memory":
                for k in range(len(r["calls"])):
                    jobs.append((i, be, k, None, False, 0, False, None, True))
            # the follow-up transfer uses a data connection that was parked while the command failed
            for k in range(len(r["calls"])):
                jobs.append((i, be, k, None, False, 0, True))
        # a disk that hangs instead of failing: AsyncPathIO on an executor whose slow-th job outlasts path_timeout
        vbase = pool.map(_job, [(i, "vasync", None, None) for i in range(len(SITUATIONS))])
        for i, r in enumerate(vbase):
            if isinstance(r, str):
                jobs.append((i, "vasync", None, None))  # reported below as a harness problem
                continue
            n_jobs = len(r["executor_jobs"])
            firsts = {r["executor_jobs"].index(nm) for nm in set(r["executor_jobs"])}  # each kind of job once
            for sl in (range(n_jobs) if ctx.thorough() else sorted((firsts | {n_jobs - 1}) & set(range(n_jobs)))):
                jobs.append((i, "vasync", None, None, False, 0, False, sl))
        outs = pool.map(_job, jobs, chunksize=4)
    lines, expect = [], []
    # 1. fault-free call sequences vs the model's programs
    for (i, be), r in base.items():
        sit = SITUATIONS[i]
        res.cases += 1
        if isinstance(r, str):
            res.disagreements.append({"correspondence": "harness", "input": [sit[0], be], "impl": r})
            continue
        verb = sit[2].split(" ")[0].lower()
        if be == "memory" or True:
            lines.append("fault calls %s %s" % (verb, shape_tok(sit[3], r["calls"], verb)))
            expect.append(("calls", sit[0], be, None, ",".join(r["calls"])))
    for job, r in zip(jobs, outs):
        i, be, k, rep = job[:4]
        pipelined = len(job) > 4 and job[4]
        fc = job[5] if len(job) > 5 else 0
        sit = SITUATIONS[i]
        res.cases += 1
        res.count("backend=" + be)
        if k is not None:
            res.count("fault_class=" + FAULT_CLASSES[fc][0])
        if isinstance(r, str):
            res.disagreements.append({"correspondence": "harness", "input": [sit[0], be, k, rep], "impl": r})
            continue
        call = r["calls"][k] if k is not None and k < len(r["calls"]) else "all:" + str(rep)
        res.count("fault_in=" + call)
        if k is None or k > 0:
            res.distinct.add((sit[0], be, k, rep, fc))
        if pipelined == "reset-data":
            res.count("data_connection_reset_by_peer")
            if k < len(r["calls"]) and (451 not in r["codes"] or not r["alive"] or r["follow_pwd"] != [257]):
                res.oracle_failures.append({
                    "input": {"situation": sit[0], "command": sit[2], "preparation": sit[1], "backend": be, "fault_at_call": k, "all_calls_of_kind_fail": None, "pipelined_with": "reset-data"},
                    "what": "%r: the peer reset the data connection (bytes unread) while the worker was inside a slow backend call, and backend call %d (%s) then failed: replies %r, session alive: %s, PWD -> %r (want a 451 and a live session)" % (
                        sit[2], k, r["calls"][k], r["codes"], r["alive"], r["follow_pwd"]),
                    "signature": "C13:backend-fault-after-data-reset:%s" % sit[2].split(" ")[0].lower(),
                })
            continue
        if pipelined:
            res.count("pipelined")
            pc = r.get("pipelined_codes") or []
            # both commands must be answered, each exactly once; the ORDER of the two replies is not C13's
            # subject (every command runs as its own task: with a backend that suspends in a thread pool the
            # PWD may finish first - the pipelining caveat of C05 / finding F14)
            if sorted(pc) != [257, 451] or r["follow_pwd"] != [257]:
                res.oracle_failures.append({
                    "input": {"situation": sit[0], "command": sit[2], "preparation": sit[1], "backend": be, "fault_at_call": k, "all_calls_of_kind_fail": None, "pipelined_with": "PWD", "task_salt": (job[9] if len(job) > 9 else 0)},
                    "what": "%r (backend call %d failing) and PWD sent in one segment were answered %r, then PWD -> %r (want one 451, one 257 and a live session)" % (sit[2], k, pc, r["follow_pwd"]),
                    "signature": "C13:pipelined-command-lost:%s" % sit[2].split(" ")[0].lower(),
                })
            continue
        parked = len(job) > 6 and job[6]
        slow = job[7] if len(job) > 7 else None
        if len(job) > 8 and job[8] is not None:
            res.count("close_returns_value")
            f = oracle(sit, be, k, rep, r)
            if f:
                f["input"]["backend_close_returns"] = job[8]
                res.oracle_failures.append(f)
            continue
        if slow is not None:
            res.count("slow_disk")
            f = oracle(sit, be, None, "slow executor job %d (%s)" % (slow, r["executor_jobs"][slow] if slow < len(r["executor_jobs"]) else "?"), r)
            if f:
                f["input"]["slow_executor_job"] = slow
                f["input"]["all_calls_of_kind_fail"] = None
                res.oracle_failures.append(f)
            continue
        f = oracle(sit, be, k, rep, r)
        if f:
            f["input"]["fault_class"] = FAULT_CLASSES[fc][0]
            if parked:
                f["input"]["parked_data_connection"] = True
                f["what"] += " (a data connection was parked at the server while the command failed: the follow-up %s it)" % ("used" if r.get("follow_uses_parked_data_connection") else "did not find")
            res.oracle_failures.append(f)
        if parked:
            res.count("parked_data_connection")
            continue
        if k is not None and fc == 0:
            verb = sit[2].split(" ")[0].lower()
            lines.append("fault run %s %s %d" % (verb, shape_tok(sit[3], base[(i, be)]["calls"], verb), k))
            dc = "1" if r["data_closed"] else "0"
            expect.append(("run", sit[0], be, k, "replies=%s dataclosed=%s" % (",".join(str(c) for c in r["codes"]) or "~", dc if 150 in r["codes"] else "?")))
    if compare and ctx.model_ok:
        mout = drive(lines)
        res.lines += len(lines)
        for (kind, name, be, k, got), m in zip(expect, mout):
            if kind == "calls":
                ok = m == got
            else:
                mm = dict(t.split("=", 1) for t in m.split(" ") if "=" in t)
                want = "replies=%s dataclosed=%s" % (mm.get("replies"), mm.get("dataclosed") if "150" in mm.get("replies", "").split(",") else "?")
                ok = want == got
                m = want
            if not ok:
                if len(res.disagreements) < 12:
                    res.disagreements.append({"correspondence": "Model.Faults.%s vs real server" % ("program (backend-call sequence)" if kind == "calls" else "run (fault outcome)"), "input": {"situation": name, "backend": be, "fault_at_call": k}, "impl": got, "model": m})
                else:
                    res.count("more_disagreements")
    res.samples = [{"situation": SITUATIONS[13][0], "command": SITUATIONS[13][2], "fault_at_call": 4}, {"situation": SITUATIONS[8][0], "command": "LIST", "fault_at_call": 2}]
    res.exhaustive = True
    return res


FUNNEL = ["asyncio.CancelledError", "NotImplementedError", "StopAsyncIteration", "asyncio.TimeoutError", "OSError", "ValueError", "AttributeError", "RuntimeError"]


def funnel(ctx):
    """`universal_exception` itself: a wrapped coroutine raising each class, against `Model.ExcFunnel` (what leaves the
    wrapper); what the dispatcher then does is judged by the fault family on the live server"""
    import asyncio

    from aioftp import errors, pathio

    res = Result()
    got = []
    for name in FUNNEL:
        cls = eval(name, {"asyncio": asyncio, "__builtins__": __builtins__})  # noqa: S307 - a fixed list of names

        @pathio.universal_exception
        async def f():
            raise cls("x")

        try:
            asyncio.run(f())
            got.append("returned")
        except errors.PathIOError:
            got.append("PathIOError")
        except BaseException as e:  # noqa
            got.append("same" if type(e) is cls else "other:" + type(e).__name__)
    want = drive(["fault funnel " + n for n in FUNNEL]) if ctx.model_ok else [None] * len(FUNNEL)
    res.lines += len(FUNNEL)
    for n, g, w in zip(FUNNEL, got, want):
        res.cases += 1
        res.count("funnel")
        res.distinct.add(("funnel", n))
        if w is not None and w.split(" ")[0] != g:
            res.disagreements.append({"correspondence": "pathio.universal_exception vs Model.ExcFunnel.universalException", "input": n, "impl": g, "model": w})
    return res


def correspondence(ctx):
    r = _run(ctx)
    r.merge(funnel(ctx))
    return r


def search(ctx, prior):
    return _run(ctx, compare=False)


def _one(inp):
    names = [s[0] for s in SITUATIONS]
    i = names.index(inp["situation"])
    fc = [n for n, _ in FAULT_CLASSES].index(inp.get("fault_class", "OSError"))
    r = _job((i, inp["backend"], inp.get("fault_at_call"), inp.get("all_calls_of_kind_fail"), (inp.get("pipelined_with") if inp.get("pipelined_with") == "reset-data" else bool(inp.get("pipelined_with"))), fc, bool(inp.get("parked_data_connection")), inp.get("slow_executor_job"), inp.get("backend_close_returns"), int(inp.get("task_salt", 0))))
    return SITUATIONS[i], r


def replay(ctx, doc):
    inp = doc["failure"]["input"]
    sit, r = _one(inp)
    print(r)
    f = None if isinstance(r, str) else oracle(sit, inp["backend"], inp.get("fault_at_call"), inp.get("all_calls_of_kind_fail"), r)
    print(f)
    return f is not None


def probe_known(ctx, finding):
    inp = finding["replay"]
    sit, r = _one(inp)
    if isinstance(r, str):
        return False
    f = oracle(sit, inp["backend"], inp.get("fault_at_call"), inp.get("all_calls_of_kind_fail"), r)
    return f is not None and f["signature"] == finding["signature"]


# the long-lived process: the same probe session after earlier sessions of the same server (props/history.py)
from props import history as _history  # noqa: E402

correspondence, search, replay = _history.attach(PID, correspondence, search, replay, pasts=['backend-failures', 'listing-failed-half-way'])


# somebody else's classes: the documented extension points used the way a third party uses them (props/thirdparty.py)
from props import thirdparty as _thirdparty  # noqa: E402

correspondence, search, replay = _thirdparty.attach(PID, correspondence, search, replay)


# somebody else's machine: the same small sessions in other environments, in child processes (props/envs.py)
from props import envs as _envs  # noqa: E402

correspondence, search, replay = _envs.attach(PID, correspondence, search, replay)
