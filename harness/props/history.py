"""The long-lived process: what a session gets does not depend on what EARLIER sessions of the same server did.

The properties quantify over histories; most families start every case from a fresh server.  Here a server first
lives through a PAST - earlier sessions that ended in the middle of a multi-byte character, in the middle of a
listing, after a second login with a parked data connection, after naming an account without logging in, after
finding every passive port busy, after backend failures, after renaming the ancestor of a directory they had entered
- and then a PROBE session runs a fixed script.  Judged:

 * the ledger once the past is over (sockets, listeners, port pool, slots, tasks, open files): everything is back;
 * the probe's transcript (reply codes, transferred bytes, listings) against the same probe on a FRESH server that
   starts from the tree the past left behind: identical.

Each property's check runs the pasts that bear on it and reports under its own id."""
import asyncio

import scenario as SC
import simnet
import world as W
from framework import Result, dec_bytes, dec_str

USERS = [W.UserSpec("bob", None), W.UserSpec("alice", "secret", max_conn=2), W.UserSpec("carol", "pw", home="/d")]
PORTS = [41001, 41002]
CFG = {"maximum_connections": 4, "data_ports": PORTS}
BAD = "caf\udce9.txt"  # a name no encoding of the wire can carry: a listing of its directory fails half way
TREE = [
    (("d",), None), (("d", "sub"), None), (("d", "sub", "deep.txt"), b"deep"), (("d", "g.txt"), b"hello world"), (("e",), None),
    (("f.txt",), b"0123456789"), (("bad",), None),
] + [(("bad", "a%d.bin" % i), b"x" * i) for i in range(5)] + [(("bad", BAD), b"?"), (("b",), None), (("b", "one"), b"1"), (("b", "two"), b"22")]


def entries_of(token):
    """inverse of World.tree()"""
    out = []
    if token == "~":
        return out
    for item in token.split(";"):
        path, _, val = item.rpartition("=")
        parts = tuple(dec_str(p) for p in path.split("|"))
        out.append((parts, None if val == "D" else dec_bytes(val[1:])))
    out.sort(key=lambda e: (len(e[0]), e[0]))
    return out


async def _line(wd, c, text, payload=b""):
    if c.eof:
        return []
    codes, _, out, listing = await W.run_line(wd, c, text if isinstance(text, bytes) else text.encode("utf-8"), payload)
    return codes


async def _passive(wd, c):
    await _line(wd, c, "EPSV")
    await W.data_connect(wd, c)


# ---- pasts ------------------------------------------------------------------------------------------------------
async def p_mid_multibyte(wd):
    for tail in (b"MKD caf\xc3", b"USER caf\xe2\x82"):
        c = await wd.raw_client()
        await _line(wd, c, "USER bob")
        c.send_raw(tail)
        await wd.loop.settle()
        c.close()
        await wd.loop.settle()


async def p_failed_listing(wd):
    for verb in ("MLSD", "LIST"):
        c = await wd.raw_client()
        await _line(wd, c, "USER bob")
        await _passive(wd, c)
        await _line(wd, c, verb + " /bad")
        c.close()
        await wd.loop.settle()


async def p_relogin_parked(wd):
    for end in ("QUIT", "vanish", "close"):
        c = await wd.raw_client()
        await _line(wd, c, "USER bob")
        await _passive(wd, c)  # a data connection made and not used
        c.keep_data = True
        await _line(wd, c, "USER alice")  # 331: the session is not logged in any more, and still holds what it held
        if end == "QUIT":
            await _line(wd, c, "QUIT")
        elif end == "vanish":
            c.vanish()
        else:
            c.close()
        await wd.loop.settle()


async def p_relogin_listener(wd):
    for second in ("USER alice", "USER nobody-of-that-name"):
        c = await wd.raw_client()
        await _line(wd, c, "USER bob")
        await _line(wd, c, "EPSV")  # a listener, nobody connects
        await _line(wd, c, second)
        await _line(wd, c, "PASS wrong")
        await _line(wd, c, "QUIT")
        await wd.loop.settle()


async def p_rename_ancestor(wd):
    c = await wd.raw_client()
    await _line(wd, c, "USER bob")
    await _line(wd, c, "CWD d/sub")
    await _line(wd, c, "MLST /d/sub/deep.txt")
    await _line(wd, c, "CWD /")
    await _line(wd, c, "RNFR d")
    await _line(wd, c, "RNTO d2")
    await _line(wd, c, "MKD d")  # the old name again, empty
    await _line(wd, c, "QUIT")
    await wd.loop.settle()


async def p_named_then_left(wd):
    for i in range(3):
        c = await wd.raw_client()
        await _line(wd, c, "USER alice")
        if i != 1:
            await _line(wd, c, "PASS wrong")
        if i == 0:
            await _line(wd, c, "QUIT")
        elif i == 1:
            c.vanish()
        else:
            c.close()
        await wd.loop.settle()


async def p_ports_busy(wd):
    async def nobody(r, w):
        w.close()

    held = [await wd.net.start_server(nobody, wd.net.host, p) for p in PORTS]
    c = await wd.raw_client()
    await _line(wd, c, "USER bob")
    await _line(wd, c, "EPSV")  # every port of the pool is somebody else's: 421
    await _line(wd, c, "PASV")
    c.close()
    for h in held:
        h.close()
    await wd.loop.settle()


async def p_backend_failures(wd):
    for k in range(2):
        c = await wd.raw_client()
        await _line(wd, c, "USER bob")
        await _passive(wd, c)
        wd.spy.fail_name["read"] = True
        await _line(wd, c, "RETR f.txt")  # 150, 451
        wd.spy.fail_name.pop("read", None)
        if k == 0:
            # the failed transfer is over: the SAME listener takes the next data connection, and the next transfer is whole
            c.data = None
            conn = wd.connection_of(c)
            ok, ps = wd._get(conn, "passive_server") if conn is not None else (False, None)
            if ok:
                await c.data_connect(ps.port)
                await wd.loop.settle()
                c.keep_data = True
                codes, _, out, _ = await W.run_line(wd, c, b"RETR f.txt")
                c.keep_data = False
                if codes != [150, 226] or out != b"0123456789":
                    wd.notes.append("after a RETR the backend failed (451), a new data connection to the same listener and RETR again gave %r with %d bytes (want [150, 226] and the 10 bytes of the file)" % (codes, len(out)))
            await _passive(wd, c)
        wd.spy.fail_name["mkdir"] = True
        await _line(wd, c, "MKD /will-fail")  # 451
        wd.spy.fail_name.pop("mkdir", None)
        if k == 0:
            await _line(wd, c, "QUIT")
        else:
            c.close()
        await wd.loop.settle()


async def p_before_login(wd):
    c = await wd.raw_client()
    for line in ("LIST", "MLSD", "PWD", "EPSV", "ABOR", "RNTO x"):
        await _line(wd, c, line)
    await _line(wd, c, "USER bob")
    await _line(wd, c, "LIST")  # no passive connection: 503 / 425
    await _line(wd, c, "QUIT")
    await wd.loop.settle()


async def p_plain(wd):
    c = await wd.raw_client()
    await _line(wd, c, "USER bob")
    await _passive(wd, c)
    await _line(wd, c, "RETR f.txt")
    await _passive(wd, c)
    await _line(wd, c, "MLSD d")
    await _line(wd, c, "REST 3")
    await _line(wd, c, "QUIT")
    await wd.loop.settle()


PASTS = {
    "ended-inside-a-multi-byte-character": p_mid_multibyte,
    "listing-failed-half-way": p_failed_listing,
    "second-login-with-a-parked-data-connection": p_relogin_parked,
    "second-login-with-a-listener": p_relogin_listener,
    "renamed-the-ancestor-of-a-directory-it-had-entered": p_rename_ancestor,
    "named-an-account-and-left": p_named_then_left,
    "every-passive-port-busy": p_ports_busy,
    "backend-failures": p_backend_failures,
    "commands-before-login": p_before_login,
    "plain-session": p_plain,
}


# ---- probe ------------------------------------------------------------------------------------------------------
async def probe(wd):
    rec = []
    c = await wd.raw_client()
    rec.append(("greeting", [int(x) if x.isdigit() else -1 for x, _ in c.replies]))

    async def step(text, payload=b"", passive=False):
        if c.eof:
            rec.append((text, "EOF"))
            return
        if passive:
            await _line(wd, c, "EPSV")
            await W.data_connect(wd, c)
        codes, _, out, listing = await W.run_line(wd, c, text.encode("utf-8"), payload)
        said = (c.replies[-1][1] if c.replies else None) if text == "PWD" else None
        rec.append((text, codes, out.hex() if out else "", sorted(listing) if listing is not None else None, said))

    await step("USER bob")
    await step("PWD")
    await step("CWD d/sub")
    await step("PWD")
    await step("MLST deep.txt")
    await step("CWD /")
    await step("MLSD b", passive=True)
    await step("LIST b", passive=True)
    await step("MLSD d", passive=True)
    await step("RETR f.txt", passive=True)
    await step("STOR /up.bin", b"payload", passive=True)
    await step("RETR /up.bin", passive=True)
    await step("MKD /newdir")
    await step("RNFR /newdir")
    await step("RNTO /newdir2")
    await step("ABOR")
    await step("REST 2")
    await step("RETR f.txt", passive=True)
    await step("USER alice")
    await step("PASS secret")
    await step("PWD")
    await step("USER carol")
    await step("PASS pw")
    await step("PWD")
    await step("QUIT")
    await wd.loop.settle()
    return rec


async def _case(loop, past, tree_entries):
    wd = W.World(loop, USERS, server_kwargs=dict(CFG, wait_future_timeout=1))
    await wd.start()
    wd.notes = []
    out = {}
    try:
        wd.set_tree(tree_entries)
        if past is not None:
            await PASTS[past](wd)
            await loop.settle()
            await asyncio.sleep(3)
            await loop.settle()
            out["ledger"] = SC.ledger_clean(SC.ledger(wd), CFG)
            out["tree"] = wd.tree()
            out["notes"] = list(wd.notes)
        out["probe"] = await probe(wd)
        await asyncio.sleep(1)
        await loop.settle()
        out["ledger_end"] = SC.ledger_clean(SC.ledger(wd), CFG)
    finally:
        try:
            await wd.stop()
        except Exception:
            wd.finish()
    return out


def _job(args):
    try:
        return simnet.run(_case, *args, wall_limit=90)
    except BaseException as e:  # noqa
        return "HARNESS-ERROR %s: %s" % (type(e).__name__, e)


def judge(pid, past):
    """-> list of failure dicts"""
    inp = {"kind": "history", "past": past}
    o = _job((past, TREE))
    if isinstance(o, str):
        return [{"input": inp, "what": "a server with the past %r did not get through the probe session (%s)" % (past, o), "signature": "%s:history:%s:probe-failed" % (pid, past)}]
    fails = []
    for n in o.get("notes") or []:
        fails.append({"input": inp, "what": n, "signature": "%s:history:%s:inside-the-past" % (pid, past)})
    if o["ledger"]:
        fails.append({"input": inp, "what": "after earlier sessions that %s were over, the server still held: %s" % (past, "; ".join(o["ledger"])[:300]), "signature": "%s:history:%s:left-behind" % (pid, past)})
    fresh = _job((None, entries_of(o["tree"])))
    if isinstance(fresh, str):
        return fails + [{"input": inp, "what": "harness: the fresh run failed (%s)" % fresh, "signature": "%s:history:harness" % pid}]
    if o["probe"] != fresh["probe"]:
        diff = [(a, b) for a, b in zip(o["probe"], fresh["probe"]) if a != b][:2]
        fails.append({"input": inp, "what": "a session on a server whose earlier sessions %s got %r; on a fresh server with the same tree it gets %r" % (
            past, [d[0] for d in diff], [d[1] for d in diff]), "signature": "%s:history:%s:session-depends-on-the-past" % (pid, past)})
    if o["ledger_end"] and not o["ledger"]:
        fails.append({"input": inp, "what": "after the probe session on a server with the past %r: %s" % (past, "; ".join(o["ledger_end"])[:300]), "signature": "%s:history:%s:left-behind-after-probe" % (pid, past)})
    return fails


# ---- histories that are not sessions: the operator's, and other servers of the same process -------------------------
async def x_two_servers(loop):
    """two servers in one process, the same login name with different passwords: each knows its own"""
    bad = []
    for first, second in ((("admin", "pw-of-A"), ("admin", "pw-of-B")), (("admin", "pw-of-B"), ("admin", "pw-of-A"))):
        for who in (first, second):
            wd = W.World(loop, [W.UserSpec(who[0], who[1])], port=2121 if who is first else 2122)
            await wd.start()
            try:
                wd.set_tree(TREE[:6])
                c = await wd.raw_client()
                other = second if who is first else first
                a = await _line(wd, c, "USER " + who[0])
                if who is second:
                    b = await _line(wd, c, "PASS " + other[1])
                    served = await _line(wd, c, "PWD")
                    if b != [530] or served == [257]:
                        bad.append("a second server of the process (login %r, password %r) answered PASS %r - the password of the same login on the FIRST server - with %r, then PWD %r" % (who[0], who[1], other[1], b, served))
                    a = await _line(wd, c, "USER " + who[0])
                b = await _line(wd, c, "PASS " + who[1])
                if b != [230]:
                    bad.append("a server (login %r, password %r; an earlier server of the process had %r) answered its own password with %r" % (who[0], who[1], other[1], b))
                await _line(wd, c, "QUIT")
            finally:
                try:
                    await wd.stop()
                except Exception:
                    wd.finish()
    return bad


async def x_table_changed(loop):
    """the operator takes an account away / changes a password on the running server: the next session sees the table as it is"""
    bad = []
    wd = W.World(loop, [W.UserSpec("guest", None), W.UserSpec("alice", "secret"), W.UserSpec("bob", None)])
    await wd.start()
    try:
        wd.set_tree(TREE[:6])
        c = await wd.raw_client()
        await _line(wd, c, "USER guest")
        await _line(wd, c, "USER alice")
        await _line(wd, c, "PASS secret")
        await _line(wd, c, "QUIT")
        table = wd.server.user_manager.users
        guest = [u for u in table if u.login == "guest"][0]
        alice = [u for u in table if u.login == "alice"][0]
        table.remove(guest)
        alice.password = "changed"
        c = await wd.raw_client()
        a = await _line(wd, c, "USER guest")
        served = await _line(wd, c, "PWD")
        if a != [530] or served == [257]:
            bad.append("account 'guest' was taken out of the running server's user table after an earlier session had used it: USER guest -> %r, PWD -> %r (want 530, not served)" % (a, served))
        await _line(wd, c, "USER alice")
        b = await _line(wd, c, "PASS secret")
        served = await _line(wd, c, "PWD")
        if b != [530] or served == [257]:
            bad.append("alice's password was changed on the running server after an earlier session had logged in with the old one: PASS <old> -> %r, PWD -> %r (want 530, not served)" % (b, served))
        await _line(wd, c, "USER alice")
        b = await _line(wd, c, "PASS changed")
        if b != [230]:
            bad.append("alice's password was changed on the running server: PASS <new> -> %r" % (b,))
        c.close()
        await loop.settle()
    finally:
        try:
            await wd.stop()
        except Exception:
            wd.finish()
    return bad


async def x_base_changed(loop):
    """the operator re-points a user's base directory on the running server: later sessions are served from the new one"""
    import pathlib

    bad = []
    wd = W.World(loop, [W.UserSpec("bob", None)])
    await wd.start()
    try:
        wd.set_tree([(("monday",), None), (("monday", "x.txt"), b"monday's"), (("monday", "d"), None), (("tuesday",), None), (("tuesday", "x.txt"), b"tuesday's"), (("tuesday", "d"), None)])
        bob = wd.users[0]
        for day, want in (("monday", b"monday's"), ("tuesday", b"tuesday's"), ("monday", b"monday's")):
            bob.base_path = pathlib.Path(day)
            n0 = len(wd.spy.log)
            c = await wd.raw_client()
            await _line(wd, c, "USER bob")
            await _passive(wd, c)
            codes, _, out, _ = await W.run_line(wd, c, b"RETR x.txt")
            await _line(wd, c, "CWD d")
            await _passive(wd, c)
            await W.run_line(wd, c, b"STOR up.bin", b"u")
            await _line(wd, c, "QUIT")
            seen = []
            for _, name, shown in wd.spy.log[n0:]:
                if name not in ("exists", "is_dir", "is_file", "mkdir", "rmdir", "unlink", "list", "stat", "open", "rename"):
                    continue
                if isinstance(shown, list):
                    seen += [x for x in shown[: 2 if name == "rename" else 1]]
                elif isinstance(shown, str):
                    seen.append(shown)
            outside = sorted({x for x in seen if x not in ("", ".") and not (x == day or x.startswith(day + "/"))})
            if out != want or outside:
                bad.append("bob's base directory is %r now (it was another one during earlier sessions): RETR x.txt delivered %r (want %r); backend paths outside the base: %r" % (day, out, want, outside[:4]))
    finally:
        try:
            await wd.stop()
        except Exception:
            wd.finish()
    return bad


async def x_second_manager(loop):
    """a second Server object is built from the same User objects while a session of the first is still logged in"""
    import aioftp

    bad = []
    wd = W.World(loop, [W.UserSpec("foo", "pw", max_conn=1), W.UserSpec("bob", None)])
    await wd.start()
    try:
        wd.set_tree(TREE[:6])
        c = await wd.raw_client()
        await _line(wd, c, "USER foo")
        await _line(wd, c, "PASS pw")
        second = aioftp.Server(wd.users)  # never started: building it must not touch the first one's accounting
        await _line(wd, c, "QUIT")
        await loop.settle()
        first_free = [wd.server.user_manager.available_connections[u].value for u in wd.users]
        second_free = [second.user_manager.available_connections[u].value for u in wd.users]
        c = await wd.raw_client()
        a = await _line(wd, c, "USER foo")
        if first_free != [1, None] or second_free != [1, None] or a != [331]:
            bad.append("a second Server was built from the same User objects while foo (one session allowed) was logged in on the first; after foo left: free slots on the first %r, on the second %r (want [1, None] both), USER foo on the first -> %r" % (first_free, second_free, a))
        c.close()
        await loop.settle()
    finally:
        try:
            await wd.stop()
        except Exception:
            wd.finish()
    return bad


async def x_overlapping_sessions(loop):
    """two sessions at once: what one of them sends is answered to IT, exactly once, and the other hears nothing of it"""
    from props import c14

    bad = []
    for verb in ("RETR", "STOR"):
        for when in ("plain", "a-has-listener"):
            o = await c14._two_session_case(loop, verb, when)
            if o["a_replies"] != [226] or o["a_follow"] != [257]:
                bad.append("a session with no transfer sent ABOR while ANOTHER session's %s was under way: it got %r (want exactly one final reply, 226), then PWD -> %r" % (verb, o["a_replies"], o["a_follow"]))
            if o["b_replies"] != [150, 226] or not o["b_ok"] or o["b_follow"] != [257]:
                bad.append("a session in the middle of its %s, while ANOTHER session sent ABOR: it got %r (want the 150 mark and exactly one final reply, 226), data intact: %r, then PWD -> %r" % (verb, o["b_replies"], o["b_ok"], o["b_follow"]))
    return bad


async def x_restart(loop):
    """the same Server object is closed and started again: every backend still holds what it held"""
    seen = {}
    for backend in ("memory", "pathio"):
        wd = W.World(loop, [W.UserSpec("bob", None)], backend=backend)
        await wd.start()
        rec = []
        try:
            wd.set_tree(TREE[:6])
            c = await wd.raw_client()
            await _line(wd, c, "USER bob")
            await _passive(wd, c)
            await W.run_line(wd, c, b"STOR /run1.bin", b"first run")
            await _line(wd, c, "MKD /made-in-run-1")
            await _line(wd, c, "QUIT")
            await wd.server.close()
            await loop.settle()
            await wd.server.start(wd.net.host, wd.port)
            c = await wd.raw_client()
            rec.append(await _line(wd, c, "USER bob"))
            await _passive(wd, c)
            codes, _, out, _ = await W.run_line(wd, c, b"RETR /run1.bin")
            rec.append((codes, out))
            rec.append(await _line(wd, c, "MKD /made-in-run-1"))
            rec.append(await _line(wd, c, "MLST /d/g.txt"))
            await _passive(wd, c)
            codes, _, out, listing = await W.run_line(wd, c, b"MLSD /")
            rec.append((codes, sorted(listing or [])))
            await _passive(wd, c)
            await W.run_line(wd, c, b"APPE /run1.bin", b"+second")
            await _line(wd, c, "QUIT")
            rec.append(wd.tree())
        finally:
            try:
                await wd.stop()
            except Exception:
                wd.finish()
        seen[backend] = rec
    if seen["memory"] != seen["pathio"]:
        d = [(a, b) for a, b in zip(seen["memory"], seen["pathio"]) if a != b][:2]
        return ["a Server object closed and started again, a session in each run: MemoryPathIO and PathIO differ in the second run: memory %r, pathio %r" % ([x[0] for x in d], [x[1] for x in d])]
    return []


async def x_huge_offsets(loop):
    """restart offsets no backend can seek to (2**63, thirty digits): the seek fails, the transfer is answered 451 - not
    226 - and the session goes on"""
    bad = []
    for backend in ("memory", "pathio"):
        wd = W.World(loop, [W.UserSpec("bob", None)], backend=backend)
        await wd.start()
        try:
            wd.set_tree(TREE[:6])
            c = await wd.raw_client()
            await _line(wd, c, "USER bob")
            for off in (2**63, 10**29, 2**64):
                for verb, payload in (("RETR f.txt", b""), ("STOR f.txt", b"zz"), ("APPE f.txt", b"zz")):
                    await _line(wd, c, "EPSV")
                    await W.data_connect(wd, c)
                    a = await _line(wd, c, "REST %d" % off)
                    codes, _, out, _ = await W.run_line(wd, c, verb.encode(), payload)
                    pwd = await _line(wd, c, "PWD")
                    size = len(dict(entries_of(wd.tree())).get(("f.txt",), b""))
                    if a == [350] and (226 in codes and (verb.startswith("RETR") or size < off)) or pwd != [257]:
                        bad.append("%s backend: REST %d (answered %r) then %s -> %r with %d bytes sent, the file has %d bytes now; PWD -> %r (an offset the backend cannot seek to: want 451, the session going on)" % (
                            backend, off, a, verb, codes, len(out), size, pwd))
                    if c.eof:
                        c = await wd.raw_client()
                        await _line(wd, c, "USER bob")
        finally:
            try:
                await wd.stop()
            except Exception:
                wd.finish()
    return bad


EXTRAS = {"C13": [x_huge_offsets], "C03": [x_two_servers, x_table_changed], "C02": [x_base_changed], "C10": [x_second_manager], "C05": [x_overlapping_sessions], "C18": [x_restart], "C12": [x_restart]}


def _extra_job(fn):
    try:
        return simnet.run(fn, wall_limit=60)
    except BaseException as e:  # noqa
        return ["HARNESS-ERROR %s: %s" % (type(e).__name__, e)]


def run(ctx, pid, pasts=None):
    res = Result()
    for fn in EXTRAS.get(pid, []):
        res.cases += 1
        res.count("history extra=" + fn.__name__)
        res.distinct.add(("history-extra", fn.__name__))
        for what in _extra_job(fn):
            res.oracle_failures.append({"input": {"kind": "history", "extra": fn.__name__}, "what": what, "signature": "%s:history:%s" % (pid, fn.__name__)})
    for past in (list(PASTS) if pasts is None else pasts):
        res.cases += 1
        res.count("history past=" + past)
        res.distinct.add(("history", past))
        for f in judge(pid, past):
            res.oracle_failures.append(f)
    return res


def replay(pid, inp):
    if "extra" in inp:
        bad = _extra_job({f.__name__: f for fs in EXTRAS.values() for f in fs}[inp["extra"]])
        for b in bad:
            print(b)
        return bool(bad)
    fails = judge(pid, inp["past"])
    for f in fails:
        print(f["signature"], f["what"])
    return bool(fails)


def attach(pid, correspondence, search, replay_fn, pasts=None):
    """wrap a property module's entry points so that its check also runs the history family"""

    def corr(ctx):
        r = correspondence(ctx)
        r.merge(run(ctx, pid, pasts))
        return r

    def srch(ctx, prior):
        # (a search of the property's own that crashes on the changed code must not hide what this family finds)
        try:
            r = search(ctx, prior)
        except Exception:
            r = run(ctx, pid, pasts)
            if not r.oracle_failures:
                raise
            return r
        r.merge(run(ctx, pid, pasts))
        return r

    def rep(ctx, doc):
        inp = (doc.get("failure") or {}).get("input")
        if isinstance(inp, dict) and inp.get("kind") == "history":
            return replay(pid, inp)
        return replay_fn(ctx, doc)

    return corr, srch, rep
