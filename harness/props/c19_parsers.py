"""C19, client-parser half: malformed listing lines / passive replies / 257 payloads are contained.

`correspondence_parsers(ctx)`: real `parse_list_line_unix`, `parse_list_line_windows`, `parse_list_line`,
`parse_mlsx_line`, `Client.list` (over a fake data stream), `parse_pasv_response`, `parse_epsv_response`,
`parse_directory_response` on grammar-aware mutations of valid lines and on raw garbage bytes, against the
Lean model (`Model/ListingParse.lean`), which must predict the *result or the exception class* of each.
Oracle (implementation only): `parse_list_line` returns or raises exactly ValueError; `Client.list` returns
or raises ValueError; the passive/257 parsers return or raise an ordinary `Exception`; nothing hangs.
`search_parsers(ctx)`: the same oracle on a larger stream without the model.
"""
import asyncio
import pathlib
import signal

from framework import Result, drive, enc_str, enc_strs

from . import names_common as nc

SIG_MLSD_NO_TYPE = "C19:mlsd-line-without-type-KeyError"

UNIX_BASE = [
    "-rw-r--r-- 1 none none 123 Jan  1 00:00 name",
    "drwxr-xr-x 2 user group 4096 Dec 31  2019 dir name",
    "drwxrwxrwx 1 none none 0 Feb 29 12:00 leap",
    "lrwxrwxrwx 1 root root 4 Mar  3 12:00 link -> target/",
    "lrwxrwxrwx 1 root root 4 Mar  3  2001 link -> 'tar get/'",
    'lrwxrwxrwx 1 root root 4 Mar  3  2001 l -> "',
    "lrwxrwxrwx 1 root root 4 Mar  3  2001 nolinkarrow",
    "-rwsr-sr-t 1 0 0 0 Jan  1  1970 x",
    "-rwSr-Sr-T 1 0 0 0 Jan  1  1970 x",
    "crw-rw-rw- 1 root root 1, 3 Jan  1 00:00 null",
    "-rw-r--r--    1 ftp      ftp           0 Jan 01  2018  two  spaces",
    "-rw-r--r-- 1 none none 5 Jan  1 00:00 .",
    "drwxr-xr-x 1 none none 5 Jan  1 00:00 ..",
    "?--------- 1 a b 0 Jan  1 00:00 q",
    "-rw-r--r-- ١ none none ٣ Jan  1 00:00 arabic-digits",
    "-rw-r--r-- ² none none 3 Jan  1 00:00 superscript",
    # the class witnesses of Properties/C19.lean (unix_parser_class_witnesses)
    "-rw-r--r-",
    "-r?-r--r-- 1 a b 0 Jan  1 00:00 x",
    "-rwSr--r-- 1 a b 0 Jan  1 00:00 x",
    "lrwxrwxrwx 1 a b 0 Jan  1 00:00 x -> '",
]
WIN_BASE = [
    "01/02/2020  10:00 AM <DIR> name",
    "12/31/1999  11:59 PM 1,234,567 file name.txt",
    " 10/3/2018  2:58 PM    34,35xxx  Downloads.zip",
    "10-23-12  03:25PM <DIR> wwwroot",
    "01/02/2020  10:00 AM <DIR> .",
    "01/02/2020  10:00 AM <DIR> ..",
    "01/02/2020  10:00 AM <DIR>",
    "01/02/2020  10:00 PM       <DIR>          a b  c",
    "02/30/2020  10:00 AM 12 x",
    "1/2/2020 1:00 am 0 M",
    "01/02/2020  10:00 AM \u0661\u0662 arabic",
    "01/02/2020  10:00 AM ,, commas",
    "01/02/2020  10:00 AM <DIR>x y",
    "01/02/2020  00:00 AM 1 zero-hour",
    "01/02/0000  10:00 AM 1 year0",
    "Mode 1 2 3 Jan  1 00:00 M",
]
MLSX_BASE = [
    "Size=0;Create=20200101000000;Modify=20200101000000;Type=dir; name",
    "type=file;size=3;modify=19700101000000; two words",
    "Type=dir;  leading space",
    "Size=1; notype",
    " nofacts",
    "",
    "Type=cdir;UNIX.mode=0755; .",
    "Type=pdir; ..",
    "Type=dir; ./",
    "Type=dir; a/..",
    "Type=dir;Type=file; dup",
    "TYPE=dir;tYpE=file; dupcase",
    "=;==;Type; weird",
    "Type=dir;;; x",
    "Type=dir",
    "K=1;Type=file; kelvin",
]
PASV_BASE = [
    "Entering Passive Mode (127,0,0,1,4,5).",
    "=127,0,0,1,4,5",
    "(1,2,3,4,5)",
    "(1,2,3,4,5,6,7,8)",
    "x (a) (1,2,3,4,5,6)",
    "(1,2,3,4,-5,6)",
    "( 1 ,+2,0_0,٤,5 ,6",
    "(1,2,3,4,5,6_)",
    "(,,,,,)",
    "()",
    "",
    "(1\n,2,3,4,5,6)",
    "(1,2,3,4,5,0x10)",
    "(1 2,3,4,5,6)",
    "(1\x1c,2,3,4,5,6)",
    "(1\xa0,2,3,4,5,6)",
    "(256,-1,99999999999999999999,4,65536,70000)",
]
EPSV_BASE = [
    "Entering Extended Passive Mode (|||6446|)",
    "(|||1|) and (!!!22!)",
    "(1111111)",
    "(1111112)",
    "(11111)",
    "(111)",
    "(|||٣٣|)",
    "(|||12|",
    "(||12|)",
    "(\n\n\n1\n)",
    "((((5()",
    "(|||)",
    "",
    "(|||1|)(|||x|)",
    "(|||1|(|||2|)",
    "(   1 )",
    "(٣٣٣٣٣٣)",
]
PDR_BASE = [
    ' "/a/b"',
    ' "/a""b" created',
    ' "/a"""',
    ' "/a"b"',
    ' """"',
    ' "',
    "",
    " no quotes",
    ' x"/p" y "/q"',
    ' "//double/./dots/../x"',
    ' "a""""b"',
    ' """a"',
]
META = ['"', " ", "  ", ";", "=", "-", ">", " -> ", "M", "<DIR>", ",", "\t", "\xa0", "\r", "\n", "\r\n", "(", ")", "|", "0", "9", "١", "²",
        "\x1c", "\x85", "　", "é", "\U0001f600", "/", ".", "..", "'", "_", "+", "d", "l", "r", "w", "x", "s", "t", "\x00", "\x7f"]
BAD_UTF8 = [b"\xff", b"\xc0\xaf", b"\xed\xa0\x80", b"\xf4\x90\x80\x80", b"\xe2\x82", b"\x80", b"\xf8\x88\x80\x80\x80", b"\xc2", b"\xe0\x80\x80", b"\xf0\x80\x80\x80"]


def mutate_str(rng, s):
    k = rng.randint(0, 11)
    if not s:
        return rng.choice(META)
    i = rng.randrange(len(s) + 1)
    j = rng.randrange(len(s) + 1)
    if k == 0:
        return s[:i] + s[i + 1 :]
    if k == 1:
        return s[:i] + rng.choice(META) + s[i:]
    if k == 2:
        return s[:i] + rng.choice(META) + s[i + 1 :]
    if k == 3:
        return s[:i]
    if k == 4:
        return s[i:]
    if k == 5:
        a, b = min(i, j), max(i, j)
        return s[:b] + s[a:b] + s[b:]
    if k == 6:
        f = s.split(" ")
        rng.shuffle(f)
        return " ".join(f)
    if k == 7:
        return s.replace(" ", rng.choice(["\t", "\xa0", "  ", "　", "\x1f"]))
    if k == 8:
        return rng.choice([" ", "\t", "\r\n", "\xa0"]) + s + rng.choice([" ", "\t", "\r\n", "\n", "\x85", "\r"])
    if k == 9:
        f = s.split(" ")
        x = rng.randrange(len(f))
        f[x] = rng.choice(["", "١٢", "²", "12", "-1", "1,2", "none", "Jan", "M", "<DIR>", "->", "rwxrwxrwx", "drwxrwxrwx"])
        return " ".join(f)
    if k == 10:
        a, b = min(i, j), max(i, j)
        return s[:a] + s[b:]
    return s[:i] + s[i : i + 1] * rng.randint(2, 5) + s[i + 1 :]


def mutate_bytes(rng, b):
    k = rng.randint(0, 4)
    i = rng.randrange(len(b) + 1)
    if k == 0:
        return b[:i] + rng.choice(BAD_UTF8) + b[i:]
    if k == 1 and b:
        i = min(i, len(b) - 1)
        return b[:i] + bytes([b[i] ^ (1 << rng.randrange(8))]) + b[i + 1 :]
    if k == 2:
        return b[:i]
    if k == 3:
        return bytes(rng.randrange(256) for _ in range(rng.randint(0, 24)))
    return b + rng.choice([b"\r\n", b"\n", b"\r", b" \r\n", b"\x00"])


def gen_listing_inputs(ctx, n):
    """bytes inputs: (family, bytes)"""
    rng = ctx.rng
    out = []
    for fam, base in (("unix", UNIX_BASE), ("win", WIN_BASE), ("mlsx", MLSX_BASE)):
        for s in base:
            out.append((fam + ":valid", s.encode("utf-8")))
            out.append((fam + ":valid+crlf", (s + "\r\n").encode("utf-8")))
    # names from the C08 generator inside otherwise valid lines
    for _ in range(n // 8):
        kind, nm = nc.gen_name(rng)
        fam = rng.choice(["unix", "win", "mlsx"])
        if fam == "unix":
            s = rng.choice(["-rw-r--r-- 1 none none 3 Jan  1 00:00 ", "drwxr-xr-x 1 none none 0 Jan  1  2001 ", "lrwxrwxrwx 1 a b 0 Jan  1  2001 "]) + nm
        elif fam == "win":
            s = rng.choice(["01/02/2020  10:00 AM <DIR> ", "01/02/2020  10:00 PM 12 "]) + nm
        else:
            s = rng.choice(["Type=dir; ", "Size=3;Type=file; ", "type=file;"]) + nm
        out.append((fam + ":name", (s + "\r\n").encode("utf-8")))
    bases = [("unix", s) for s in UNIX_BASE] + [("win", s) for s in WIN_BASE] + [("mlsx", s) for s in MLSX_BASE]
    while len(out) < n:
        fam, s = rng.choice(bases)
        r = rng.random()
        if r < 0.62:
            for _ in range(rng.choice([1, 1, 1, 2, 3])):
                s = mutate_str(rng, s)
            b = s.encode("utf-8", "surrogatepass") if False else s.encode("utf-8")
            if rng.random() < 0.5:
                b += b"\r\n"
            out.append((fam + ":mut-str", b))
        elif r < 0.85:
            b = s.encode("utf-8")
            for _ in range(rng.choice([1, 1, 2])):
                b = mutate_bytes(rng, b)
            out.append((fam + ":mut-bytes", b))
        else:
            b = bytes(rng.choice([rng.randrange(256), rng.choice(b" -drwxM<>=;0123456789\r\n")]) for _ in range(rng.randint(0, 40)))
            out.append(("garbage", b))
    return out


def gen_text_inputs(ctx, n):
    rng = ctx.rng
    out = []
    for fam, base in (("pasv", PASV_BASE), ("epsv", EPSV_BASE), ("pdr", PDR_BASE)):
        for s in base:
            out.append((fam, fam + ":valid", s))
        out.append((fam, fam + ":long-int", "(|||" + "7" * 4300 + "|)" if fam == "epsv" else "(1,2,3,4,5," + "7" * 4300 + ")"))
        out.append((fam, fam + ":too-long-int", "(|||" + "7" * 4301 + "|)" if fam == "epsv" else "(1,2,3,4,5," + "7" * 4301 + ")"))
    fams = [("pasv", PASV_BASE), ("epsv", EPSV_BASE), ("pdr", PDR_BASE)]
    while len(out) < n:
        fam, base = rng.choice(fams)
        s = rng.choice(base)
        if rng.random() < 0.85:
            for _ in range(rng.choice([1, 1, 2, 3])):
                s = mutate_str(rng, s)
            out.append((fam, fam + ":mut", s))
        else:
            s = "".join(rng.choice(META + ["1", "2", "(", ")", "|", ","]) for _ in range(rng.randint(0, 16)))
            out.append((fam, fam + ":garbage", s))
    # every text also goes to the other two parsers
    return out


class Hang(Exception):
    pass


def _alarm(signum, frame):
    raise Hang()


def run_impl(ctx, listing, texts):
    """returns per-input records of what the real code did"""
    F = nc.Func()
    client = F.client
    rec = F.rec
    recs = []
    trecs = []

    def call(fn, *a):
        try:
            return fn(*a)
        except Hang:
            raise
        except BaseException as e:  # noqa
            return ("EXC", nc.exc_name(e), isinstance(e, Exception), isinstance(e, ValueError))

    async def main():
        for fam, b in listing:
            r = {}
            rec.reset()
            r["unix"] = call(client.parse_list_line_unix, b)
            r["unix_dates"] = list(rec.unix)
            rec.reset()
            r["win"] = call(client.parse_list_line_windows, b)
            r["win_dates"] = list(rec.win)
            rec.reset()
            r["chain"] = call(client.parse_list_line, b)
            r["chain_ud"], r["chain_wd"] = list(rec.unix), list(rec.win)
            r["mlsx"] = call(client.parse_mlsx_line, b)
            lines = b.split(b"\n")
            lines = [x + b"\n" for x in lines[:-1]] + ([lines[-1]] if lines[-1] else [])
            r["lines"] = lines
            for kind in ("MLSD", "LIST"):
                rec.reset()
                try:
                    got = await F.client_list(lines, "base/dir", raw_command=kind)
                    r["list_" + kind] = ("OK", [(p, i) for p, i in got])
                except Hang:
                    raise
                except BaseException as e:  # noqa
                    r["list_" + kind] = ("EXC", nc.exc_name(e), isinstance(e, Exception), isinstance(e, ValueError))
                r["list_%s_ud" % kind], r["list_%s_wd" % kind] = list(rec.unix), list(rec.win)
            recs.append(r)
        for fam, tag, s in texts:
            t = {}
            t["pasv"] = call(client.parse_pasv_response, s)
            t["epsv"] = call(client.parse_epsv_response, s)
            t["pdr"] = call(client.parse_directory_response, s)
            trecs.append(t)

    old = signal.signal(signal.SIGALRM, _alarm)
    signal.alarm(ctx.pick(240, 900))
    try:
        asyncio.run(main())
    finally:
        signal.alarm(0)
        signal.signal(signal.SIGALRM, old)
        F.close()
    return recs, trecs


def _legit_dot(kind, b):
    """independent reading: does the (single) listing line name the entry '.' or '..' ?  Unknown -> True"""
    try:
        s = b.decode("utf-8").rstrip()
    except UnicodeDecodeError:
        return True
    if not s.strip():
        return True
    cands = []
    if kind == "MLSD":
        cands.append(s.partition(" ")[2])
    else:
        f = s.split(None, 8)
        if len(f) > 8:
            cands.append(f[8])
        g = s.split(None, 3)
        if len(g) > 3:
            cands.append(g[3])
        cands.append(s[s.rfind(" ") + 1 :])
    for c in cands:
        name = c.split(" -> ")[0].strip()
        if name == "" or str(pathlib.PurePosixPath(name)) in (".", ".."):
            return True
    return False


def _empty_name(kind, b):
    """the line has no name field at all (e.g. it was cut after the date column)"""
    try:
        s = b.decode("utf-8").rstrip()
    except UnicodeDecodeError:
        return False
    if kind == "MLSD":
        return s.partition(" ")[2].strip() == ""
    t = s.lstrip()
    sp = [x for x in t.split(" ") if x]  # the parsers separate fields at blanks only
    if t[:1].isdigit():
        if len(sp) <= 3:
            return True
        rest = t.split(" ", 0)[0]
        tail = sp[3:]
        if tail and tail[0].startswith("<DIR>"):
            return len(tail) == 1  # nothing separated by a blank follows the <DIR…> token
        return len(tail) <= 1
    return len(sp) <= 8


def _canon_list(r):
    if r[0] == "EXC":
        return "err:" + r[1]
    es = r[1]
    if not es:
        return "ok ~"
    return "ok " + ";".join("%s/%s" % (nc.canon_path(p), nc.canon_dict(i)) for p, i in es)


def _canon_simple(r):
    return "err:" + r[1] if (isinstance(r, tuple) and r and r[0] == "EXC") else nc.canon_entry(r)


def _mlsx_dict_comparable(b):
    try:
        s = b.decode("utf-8")
    except UnicodeDecodeError:
        return True
    return nc.lower_modelled(s.rstrip().partition(" ")[0])


def _strip_dict(c):
    """drop the dict part of an 'ok path dict' line (used where non-ASCII lower() is not modelled)"""
    return " ".join(c.split(" ")[:2]) if c.startswith("ok ") else c


def overlong_cases(ctx, res):
    """listings with a line longer than the stream's line limit (64 KiB), through the library's own data stream: the
    line cannot be parsed, so the listing must end with the documented ValueError - not come back short"""
    F = nc.Func()
    good = {"MLSD": [b"Type=file;Size=1; a\r\n", b"Type=dir; d\r\n"], "LIST": [b"-rw-r--r-- 1 none none 1 Jan  1  2001 a\r\n", b"drwxr-xr-x 1 none none 0 Jan  1  2001 d\r\n"]}
    cases = []
    for kind in ("MLSD", "LIST"):
        g = good[kind]
        head = g[0][: g[0].rindex(b" ") + 1]
        for n in (65536, 65537, 70000, 200000):
            long_line = head + b"x" * n + b"\r\n"
            cases.append((kind, "middle", g[0] + long_line + g[1]))
            cases.append((kind, "first", long_line + g[0]))
            cases.append((kind, "last", g[0] + g[1] + long_line))
            cases.append((kind, "last-unterminated", g[0] + long_line[:-2]))

    async def main():
        out = []
        for kind, pos, data in cases:
            try:
                got = await nc.client_list_real_stream(F, data, "base/dir", raw_command=kind)
                out.append(("OK", len(got)))
            except BaseException as e:  # noqa
                out.append(("EXC", nc.exc_name(e), isinstance(e, ValueError)))
        return out

    try:
        outs = asyncio.run(main())
    finally:
        F.close()
    for (kind, pos, data), o in zip(cases, outs):
        res.cases += 1
        res.count("family=overlong-line")
        inp = {"family": "overlong-line", "kind": kind, "position": pos, "length": len(data)}
        res.distinct.add(("overlong", kind, pos, len(data)))
        if o[0] == "OK":
            res.oracle_failures.append({"input": inp, "what": "Client.list(raw_command=%r) returned %d entries for a listing with a line longer than the stream limit: the line (and what followed) was dropped instead of being reported" % (kind, o[1]), "signature": "C19:overlong-listing-line-dropped"})
        elif not o[2]:
            res.oracle_failures.append({"input": inp, "what": "Client.list(raw_command=%r) raised %s for an over-long listing line (not ValueError)" % (kind, o[1]), "signature": "C19:list-%s-raises-%s" % (kind, o[1])})


def custom_names_cases(ctx, res):
    """a line parser of one's own that returns names as `str` or as another pure path class (the chain only asks for
    "(path, info)"): `Client.list` still skips the '.' and '..' entries of an `ls -la` listing, joins the names to the
    listed directory, and a recursive listing comes to an end"""
    import pathlib

    import aioftp

    import foreign
    import simnet

    async def case(loop, kind, recursive):
        wd = foreign.ForeignWorld(loop, {"mlsd": False, "mlst": False, "dots": True})
        await wd.start()
        try:
            wd.set_tree([(("a.txt",), b"a"), (("sub",), None), (("sub", "b.txt"), b"b"), (("sub", "deep"), None)])
            stock = aioftp.Client()

            def custom(b):
                p, i = stock.parse_list_line_unix(b)
                return (str(p) if kind == "str" else pathlib.PureWindowsPath(str(p))), i

            c = aioftp.Client(parse_list_line_custom=custom, parse_list_line_custom_first=True, path_io_factory=aioftp.MemoryPathIO)
            await c.connect("127.0.0.1", wd.port)
            await c.login()
            got = sorted(str(pathlib.PurePosixPath(*pathlib.PurePosixPath(str(p).replace("\\", "/")).parts)) for p, i in await c.list(pathlib.PurePosixPath("/"), recursive=recursive))
            await c.quit()
            return got
        finally:
            try:
                await wd.stop()
            except Exception:
                wd.finish()

    for kind in ("str", "PureWindowsPath"):
        for recursive in ((False, True) if kind == "str" else (False,)):
            res.cases += 1
            res.count("family=custom-names")
            res.distinct.add(("custom-names", kind, recursive))
            inp = {"family": "custom-names", "names_as": kind, "recursive": recursive}
            want = ["/a.txt", "/sub"] + (["/sub/b.txt", "/sub/deep"] if recursive else [])
            try:
                got = simnet.run(case, kind, recursive, wall_limit=20)
            except BaseException as e:  # noqa
                got = "%s: %s" % (type(e).__name__, str(e)[:120])
            if got != want:
                res.oracle_failures.append({"input": inp, "what": "a custom line parser that returns names as %s, an `ls -la` listing with '.' and '..': list('/', recursive=%s) -> %r, want %r" % (kind, recursive, got, want),
                                            "signature": "C19:custom-parser-names:dot-entries"})


def custom_parser_cases(ctx, res):
    """a line parser of one's own in the chain (`parse_list_line_custom`), tried first or last: whatever it raises of the
    classes the chain contains for the built-in parsers, a line nobody can parse is still reported as ValueError - and a
    line it does parse is parsed by it in either position when the built-in ones reject it"""
    import pathlib

    import aioftp

    junk = [b"?rw-r--r-- what is this\r\n", b"\r\n", b"-rw-r--r-- 1 none none x Jan  1  2001 f\r\n", b"total 12\r\n", b"\xff\xfe broken\r\n"]
    raises = {"ValueError": ValueError("custom"), "KeyError": KeyError("type-letter"), "IndexError": IndexError("fields"), "accepts": None}
    for cls_name, exc in raises.items():
        for first in (True, False):
            def custom(b, _exc=exc):
                if _exc is not None:
                    raise _exc
                return pathlib.PurePosixPath("by-custom"), {"type": "file", "size": "0"}

            client = aioftp.Client(parse_list_line_custom=custom, parse_list_line_custom_first=first)
            for k, line in enumerate(junk):
                res.cases += 1
                res.count("family=custom-parser")
                res.distinct.add(("custom-parser", cls_name, first, k))
                inp = {"family": "custom-parser", "custom_raises": cls_name, "custom_first": first, "line": line.hex()}
                try:
                    got = client.parse_list_line(line)
                    outcome = ("OK", str(got[0]))
                except ValueError:
                    outcome = ("ValueError",)
                except BaseException as e:  # noqa
                    outcome = ("EXC", type(e).__name__)
                want = ("OK", "by-custom") if exc is None else ("ValueError",)
                if outcome != want:
                    res.oracle_failures.append({"input": inp, "what": "Client(parse_list_line_custom=<raises %s>, parse_list_line_custom_first=%s).parse_list_line(%r) -> %r, want %r" % (
                        cls_name, first, line, outcome, want), "signature": "C19:custom-parser-in-the-chain:%s" % (outcome[1] if outcome[0] == "EXC" else outcome[0])})


def stat_fallback_cases(ctx, res):
    """`Client.stat` on a server without MLST goes through a listing of the parent directory: a line of that listing
    that cannot be parsed is reported (ValueError) wherever it stands - before or AFTER the entry looked for - exactly as
    `Client.list` reports it; it is not a reason to answer, and not a reason for anything else than ValueError"""
    import aioftp

    F = nc.Func()
    good = {"MLSD": [b"Type=file;Size=1; wanted\r\n", b"Type=dir; other\r\n"], "LIST": [b"-rw-r--r-- 1 none none 1 Jan  1  2001 wanted\r\n", b"drwxr-xr-x 1 none none 0 Jan  1  2001 other\r\n"]}
    bad = {"MLSD": [b"this line has no facts\r\n", b"Type=file;Size=1;\r\n", b"\xff\xfe broken\r\n"], "LIST": [b"?rw-r--r-- what is this\r\n", b"-rw-r--r-- 1 none none x Jan  1  2001 f\r\n", b"\xff\xfe broken\r\n"]}
    cases = []
    for kind in ("MLSD", "LIST"):
        for k, junk in enumerate(bad[kind]):
            for pos, data in (("before", junk + good[kind][0] + good[kind][1]), ("after", good[kind][0] + junk + good[kind][1]), ("last", good[kind][0] + good[kind][1] + junk)):
                for fn in ("stat", "exists", "is_file"):
                    cases.append((kind, k, pos, fn, data))

    async def one(kind, data, fn):
        client = F.client

        async def fake_command(command=None, *a, **k):
            if command and command.startswith("MLST"):
                raise aioftp.StatusCodeError("2xx", aioftp.Code("502"), ["not implemented"])
            raise AssertionError("unexpected command %r" % command)

        def fake_get_stream(*command_args, conn_type="I", offset=0):
            async def mk():
                if kind == "LIST" and command_args and str(command_args[0]).startswith("MLSD"):
                    raise aioftp.StatusCodeError("1xx", aioftp.Code("502"), ["not implemented"])
                reader = asyncio.StreamReader()
                reader.feed_data(data)
                reader.feed_eof()
                stream = aioftp.common.ThrottleStreamIO(reader, nc._NullWriter(), throttles={}, timeout=None)

                async def finish(*a, **k):
                    stream.close()

                stream.finish = finish
                return stream

            return mk()

        client.command, client.get_stream = fake_command, fake_get_stream
        try:
            return ("OK", repr(await getattr(client, fn)("base/dir/wanted"))[:60])
        except BaseException as e:  # noqa
            return ("EXC", nc.exc_name(e), isinstance(e, ValueError))
        finally:
            del client.command, client.get_stream

    async def main():
        # the same listings through Client.list say which of the junk lines the parsers reject at all
        out = []
        for kind, k, pos, fn, data in cases:
            try:
                await nc.client_list_real_stream(F, data, "base/dir", raw_command=kind)
                rejected = False
            except ValueError:
                rejected = True
            except BaseException:  # noqa
                rejected = None
            out.append((rejected, await one(kind, data, fn)))
        return out

    try:
        outs = asyncio.run(main())
    finally:
        F.close()
    for (kind, k, pos, fn, data), (rejected, o) in zip(cases, outs):
        res.cases += 1
        res.count("family=stat-fallback")
        inp = {"family": "stat-fallback", "kind": kind, "junk": k, "position": pos, "call": fn}
        res.distinct.add(("stat-fallback", kind, k, pos, fn))
        if not rejected:
            continue  # Client.list accepts (or drops) that line: nothing to report here (other families judge list itself)
        if o[0] == "OK":
            res.oracle_failures.append({"input": inp, "what": "Client.%s on a server without MLST answered %s although the parent's %s listing holds a line Client.list rejects with ValueError (%s the entry looked for)" % (fn, o[1], kind, pos), "signature": "C19:stat-fallback-hides-unparsable-line"})
        elif not o[2]:
            res.oracle_failures.append({"input": inp, "what": "Client.%s on a server without MLST raised %s for an unparsable line of the parent's %s listing (not ValueError)" % (fn, o[1], kind), "signature": "C19:stat-fallback-raises-%s" % o[1]})


def _run(ctx, with_model, n_list, n_text):
    res = Result()
    overlong_cases(ctx, res)
    stat_fallback_cases(ctx, res)
    custom_parser_cases(ctx, res)
    custom_names_cases(ctx, res)
    listing = gen_listing_inputs(ctx, n_list)
    texts = gen_text_inputs(ctx, n_text)
    try:
        recs, trecs = run_impl(ctx, listing, texts)
    except Hang:
        res.oracle_failures.append({"input": "(stream)", "what": "a client parser did not return within the time budget", "signature": "C19:hang"})
        return res
    lines = []
    expect = []

    def add(line, want, what, inp):
        lines.append(line)
        expect.append((want, what, inp))

    base = nc.canon_path(pathlib.PurePosixPath("base/dir"))
    for (fam, b), r in zip(listing, recs):
        res.cases += 1
        res.count("family=" + fam)
        inp = {"bytes": b.hex(), "family": fam}
        # ---- oracle on the implementation ----
        ch = r["chain"]
        if isinstance(ch, tuple) and ch and ch[0] == "EXC":
            res.count("chain=" + ch[1])
            if ch[1] != "ValueError":
                res.oracle_failures.append({"input": inp, "what": "parse_list_line raised %s, not ValueError" % ch[1], "signature": "C19:list-line-raises-" + ch[1]})
        else:
            res.count("chain=ok")
            res.distinct.add(("chain-ok", b))
        for k in ("unix", "win"):
            x = r[k]
            res.count("%s=%s" % (k, x[1] if (isinstance(x, tuple) and x and x[0] == "EXC") else "ok"))
            if isinstance(x, tuple) and x and x[0] == "EXC":
                res.distinct.add((k, x[1], fam))
        m = r["mlsx"]
        if isinstance(m, tuple) and m and m[0] == "EXC":
            res.count("mlsx=" + m[1])
            if not m[3]:
                res.oracle_failures.append({"input": inp, "what": "parse_mlsx_line raised %s" % m[1], "signature": "C19:mlsx-line-raises-" + m[1]})
        for kind in ("MLSD", "LIST"):
            x = r["list_" + kind]
            if x[0] == "EXC":
                res.count("list_%s=%s" % (kind, x[1]))
                if not x[3]:
                    if kind == "MLSD" and x[1] == "KeyError":
                        sig = SIG_MLSD_NO_TYPE
                    else:
                        sig = "C19:list-%s-raises-%s" % (kind, x[1])
                    res.oracle_failures.append({"input": inp, "what": "Client.list(raw_command=%r) raised %s for a listing line (not ValueError)" % (kind, x[1]), "signature": sig})
            else:
                res.count("list_%s=ok%d" % (kind, min(3, len(x[1]))))
                if len(x[1]) == 0 and b"\n" not in b.rstrip(b"\r\n") and not _legit_dot(kind, b):
                    cls = "empty-name" if _empty_name(kind, b) else kind.lower()
                    res.oracle_failures.append({"input": inp, "what": "Client.list(raw_command=%r) returned nothing for a one-line listing whose name is not '.' or '..': the line was dropped instead of being reported" % kind, "signature": "C19:unparsable-line-dropped:" + cls})
                bp = pathlib.PurePosixPath("base/dir")
                for p, _ in x[1]:
                    # a '.' entry would come out as the listed directory itself, a '..' entry as <dir>/..
                    if p == bp or p == bp / "..":
                        res.oracle_failures.append({"input": inp, "what": "Client.list yielded a dot entry %r" % str(p), "signature": "C19:dot-entry-yielded"})
        # ---- model lines ----
        hb = nc.hexb(b)
        add("names listunix %s %s" % (hb, enc_strs(r["unix_dates"])), _canon_simple(r["unix"]), "parse_list_line_unix", inp)
        add("names listwin %s %s" % (hb, enc_strs(r["win_dates"])), _canon_simple(r["win"]), "parse_list_line_windows", inp)
        add("names listchain %s %s %s" % (hb, enc_strs(r["chain_ud"]), enc_strs(r["chain_wd"])), _canon_simple(r["chain"]), "parse_list_line", inp)
        want = _canon_simple(r["mlsx"])
        cmp_dict = _mlsx_dict_comparable(b)
        if not cmp_dict:
            res.count("mlsx:unmodelled-lower")
        add("names mlsxbytes %s" % hb, want if cmp_dict else ("NODICT", _strip_dict(want)), "parse_mlsx_line", inp)
        bl = "~" if not r["lines"] else "|".join(nc.hexb(x) for x in r["lines"])
        if all(_mlsx_dict_comparable(x) for x in r["lines"]):
            add("names listlines mlsd %s %s ~ ~" % (base, bl), _canon_list(r["list_MLSD"]), "Client.list/MLSD", inp)
        add("names listlines list %s %s %s %s" % (base, bl, enc_strs(r["list_LIST_ud"]), enc_strs(r["list_LIST_wd"])), _canon_list(r["list_LIST"]), "Client.list/LIST", inp)
    for (fam, tag, s), t in zip(texts, trecs):
        res.cases += 1
        res.count("family=" + tag)
        inp = {"text": s}
        for k in ("pasv", "epsv", "pdr"):
            x = t[k]
            if isinstance(x, tuple) and x and x[0] == "EXC":
                res.count("%s=%s" % (k, x[1]))
                res.distinct.add((k, x[1]))
                if not x[2] or x[1] in ("Other:RecursionError", "Other:MemoryError"):
                    res.oracle_failures.append({"input": inp, "what": "%s raised %s" % (k, x[1]), "signature": "C19:%s-raises-%s" % (k, x[1])})
                if k == "pdr":
                    res.oracle_failures.append({"input": inp, "what": "parse_directory_response raised %s" % x[1], "signature": "C19:pdr-raises-" + x[1]})
            else:
                res.count(k + "=ok")
                res.distinct.add((k, "ok", s))
        x = t["pasv"]
        add("names pasv " + enc_str(s), ("err:" + x[1]) if x[0] == "EXC" else "ok %s %d" % (enc_str(x[0]), x[1]), "parse_pasv_response", inp)
        x = t["epsv"]
        add("names epsv " + enc_str(s), ("err:" + x[1]) if x[0] == "EXC" else "ok %d" % x[1], "parse_epsv_response", inp)
        x = t["pdr"]
        add("names pdr " + enc_str(s), ("err:" + x[1]) if (isinstance(x, tuple) and x[0] == "EXC") else nc.canon_path(x), "parse_directory_response", inp)
    if with_model and ctx.model_ok:
        outs = drive(lines, shards=8)
        res.lines += len(lines)
        for (want, what, inp), o in zip(expect, outs):
            if isinstance(want, tuple):
                ok = _strip_dict(o) == want[1]
                want = want[1]
            else:
                ok = o == want
            if not ok:
                if len(res.disagreements) < 20:
                    res.disagreements.append({"correspondence": "Model vs " + what, "input": inp, "model": o[:400], "impl": want[:400]})
                else:
                    res.count("more_disagreements")
    res.samples = [
        {"family": f, "bytes": b.hex(), "parse_list_line": _canon_simple(r["chain"])[:60], "list(MLSD)": _canon_list(r["list_MLSD"])[:60]}
        for (f, b), r in list(zip(listing, recs))[200:204]
    ]
    return res


def correspondence_parsers(ctx):
    return _run(ctx, True, ctx.pick(6000, 120000), ctx.pick(3000, 60000))


def search_parsers(ctx):
    return _run(ctx, False, ctx.pick(30000, 400000), ctx.pick(10000, 100000))


def replay_parsers(ctx, doc):
    """re-run the oracle on one stored input"""
    inp = doc["failure"]["input"]
    sub = Result()
    if "bytes" in inp:
        listing = [(inp.get("family", "replay"), bytes.fromhex(inp["bytes"]))]
        texts = []
    else:
        listing = []
        texts = [("pasv", "replay", inp["text"])]
    recs, trecs = run_impl(ctx, listing, texts)
    print("implementation:", {k: (v if not isinstance(v, list) else "...") for k, v in (recs[0] if recs else trecs[0]).items() if k in ("chain", "mlsx", "list_MLSD", "list_LIST", "pasv", "epsv", "pdr")})
    # evaluate the oracle through _run's logic on this single input
    class C:  # minimal ctx shim
        pass
    import random

    c = C()
    c.rng = random.Random(0)
    c.model_ok = False
    c.pick = lambda q, t: q
    global gen_listing_inputs, gen_text_inputs
    gl, gt = gen_listing_inputs, gen_text_inputs
    try:
        gen_listing_inputs = lambda ctx, n: listing
        gen_text_inputs = lambda ctx, n: texts
        r = _run(c, False, 0, 0)
    finally:
        gen_listing_inputs, gen_text_inputs = gl, gt
    sig = doc["failure"].get("signature")
    return any(f.get("signature") == sig for f in r.oracle_failures)
