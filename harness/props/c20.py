"""C20  passwords never reach the logs.

Correspondence:
  (1) function level, fake streams: real `Server.parse_command` (record + returned (cmd, rest)),
      `BaseClient.command` (record), `BaseClient.parse_line` (record + (code, rest))    vs  Model/Logs.lean
  (2) session level, real loopback sockets, a capturing handler at DEBUG on the root logger and on
      `aioftp.*`: raw command histories (verb spellings x canary passwords x outcomes) vs `Model.serverRun`,
      and the real `aioftp.Client.login` vs `Model.loginSession` (both record streams)
Oracle (implementation only): the canary never occurs (case-insensitively) in any formatted record of any
logger, traceback text included, and the record of a PASS command is `<verb> ` followed by stars only.

Scope (see Properties/C20.lean): `verb<SP>password` with verb.lower() == "pass", no LF inside the password,
line decodable and shorter than the 64 KiB StreamReader limit.  TAB / NBSP separators and a leading blank
make an *unknown verb* that is echoed in clear (counted as `noted_out_of_scope_leak`, not a failure).
A password containing CR/LF is refused by the client (repaired in /repo d8526e4); if its tail ever shows up in a
record again the signature is C20:lf-password (a fixed finding: reported as a violation).
"""
import asyncio
import logging

from framework import Result, drive, enc_str, enc_strs, dec_str

PID = "C20"
RULE = (
    "inputs = (user table, history of command lines) and (user table, user, password) for Client.login; "
    "passwords are built around a random canary token: bare, leading/trailing/inner blanks, CR inside, '%s %d %(x)s' "
    "directives, non-ASCII, 1 rare character, empty, all-blank, 3000 chars, (oracle-only) > 64 KiB and LF inside; "
    "verb spellings = the 16 case variants of PASS with one or two blanks (in scope) and TAB / NBSP / leading blank / "
    "Kelvin-sign / long-s variants (out of scope, noted); outcomes = accepted, rejected, PASS before USER, PASS twice, "
    "PASS after a password-less login, unknown user, re-USER; plus fake-stream runs of parse_command / command / "
    "parse_line on random lines; a case is non-trivial when the password is not [a-z]+ or the verb is not 'PASS' "
    "or the outcome is not 'accepted'; distinct = distinct (kind, spelling class, password shape, outcome)"
)
EXPLANATION = (
    "Theorems in Properties/C20.lean: the server's record of verb<SP>pw depends only on the verb and len(pw.rstrip()), "
    "the client's only on len(pw), whole histories / Client.login runs that differ only in LF-free passwords of equal "
    "lengths and equal acceptance give identical records on both sides; Generated.logSites is pinned.  This run ties "
    "the model to the live code over real sockets and evaluates the canary oracle on every record."
)
ASSUMPTIONS = [
    "login means verb<SP>password with verb.lower() == 'pass'; 'PASS<TAB>pw', 'PASS<NBSP>pw', '<SP>PASS pw' are unknown "
    "verbs echoed in clear by the command record and the 502 reply (noted, not claimed)",
    "a password with CR/LF is refused by the client before anything is logged or sent (newline_password_logs_nothing)",
    "the line decodes in the server's encoding (a UnicodeDecodeError traceback names one byte value and its position) "
    "and is shorter than the 64 KiB StreamReader limit",
    "user manager = MemoryUserManager without connection limits; other managers must not log in authenticate/get_user",
    "no handler other than pass_ is given the typed password (pass_ hands it to authenticate and drops it)",
    "Py.lower is exact on ASCII, on U+212A and on characters that are their own lower(); generators stay inside that set",
    "what is revealed: verb as typed, len(pw) on the client, len(pw.rstrip()) on the server, the outcome",
]
GENERATED_OBLIGATIONS = ["Generated.logSites (call_sites)", "Generated.censorCommands (censor_list)",
                         "Generated.loginStateWriters (login_state_writers)", "Generated.passRestUses (pass_rest_uses)"]
EXTRA_LEAN_TARGETS = ["AioftpModel.Driver.Logs", "AioftpModel.Driver.Perms"]

PASS_SPELLINGS = ["PASS", "pass", "Pass", "PaSs", "pASS", "pasS", "PAss", "pAsS"]
RARE = ["§", "Ω", "µ", "¤", "ж"]
ALNUM = "ABCDEFGHJKLMNPQRSTUVWXYZabcdefghijkmnopqrstuvwxyz23456789"


# ------------------------------------------------------------------------------------------------
# log capture
# ------------------------------------------------------------------------------------------------
class Capture(logging.Handler):
    def __init__(self):
        super().__init__(logging.DEBUG)
        self.recs = []
        self.fmt = logging.Formatter()

    def emit(self, r):
        try:
            msg = r.getMessage()
        except Exception as e:  # noqa  (a '%' directive evaluated against missing args)
            msg = "<<format error %s>> %r %% %r" % (type(e).__name__, r.msg, r.args)
        if r.exc_info:
            msg += "\n" + self.fmt.formatException(r.exc_info)
        if r.stack_info:
            msg += "\n" + str(r.stack_info)
        self.recs.append((r.name, r.levelname, r.funcName, msg))

    def take(self):
        out, self.recs = self.recs, []
        return out


class _Installed:
    def __enter__(self):
        self.cap = Capture()
        self.root = logging.getLogger()
        self.old_root = self.root.level
        self.root.addHandler(self.cap)
        self.root.setLevel(logging.DEBUG)
        self.olds = {}
        for n in ("aioftp", "aioftp.server", "aioftp.client", "asyncio"):
            lg = logging.getLogger(n)
            self.olds[n] = (lg.level, lg.propagate, lg.disabled)
            lg.setLevel(logging.DEBUG)
            lg.propagate = True
            lg.disabled = False
        return self.cap

    def __exit__(self, *a):
        self.root.removeHandler(self.cap)
        self.root.setLevel(self.old_root)
        for n, (lv, pr, di) in self.olds.items():
            lg = logging.getLogger(n)
            lg.setLevel(lv)
            lg.propagate = pr
            lg.disabled = di


# ------------------------------------------------------------------------------------------------
# generators
# ------------------------------------------------------------------------------------------------
def token(rng, n=7):
    return "Zq" + "".join(rng.choice(ALNUM) for _ in range(n - 2))


PW_SHAPES = ["bare", "lead_blank", "trail_blank", "inner_blank", "cr_inside", "percent", "nonascii", "one_char",
             "empty", "all_blank", "long", "trail_tab", "quote_backslash"]


def make_password(rng, shape):
    """(password, canaries)"""
    t = token(rng)
    if shape == "bare":
        return t, [t]
    if shape == "lead_blank":
        return "  " + t, [t]
    if shape == "trail_blank":
        return t + "   ", [t]
    if shape == "trail_tab":
        return t + " \t\x0b ", [t]
    if shape == "inner_blank":
        t2 = token(rng)
        return t + " " + t2, [t, t2]
    if shape == "cr_inside":
        t2 = token(rng)
        return t + "\r" + t2, [t, t2]
    if shape == "percent":
        return "%s%d" + t + "%(x)s%", [t]
    if shape == "nonascii":
        return "é" + t + "ü→", [t]
    if shape == "quote_backslash":
        return "'" + t + '"\\', [t]
    if shape == "one_char":
        c = rng.choice(RARE)
        return c, [c]
    if shape == "empty":
        return "", []
    if shape == "all_blank":
        return "   ", []
    if shape == "long":
        return t * 430, [t]
    raise ValueError(shape)


def spell(rng):
    if rng.random() < 0.4:
        return rng.choice(PASS_SPELLINGS)
    return "".join(c.upper() if rng.random() < 0.5 else c.lower() for c in "pass")


# spelling classes: (class name, in scope?, function verb,pw -> line text without CRLF)
SPELL_CLASSES = [
    ("sp1", True, lambda v, pw: v + " " + pw),
    ("sp2", True, lambda v, pw: v + "  " + pw),
    ("tab", False, lambda v, pw: v + "\t" + pw),
    ("nbsp", False, lambda v, pw: v + " " + pw),
    ("lead_blank", False, lambda v, pw: " " + v + " " + pw),
    ("kelvin", False, lambda v, pw: "PAKS " + pw),
    ("long_s", False, lambda v, pw: "paſs " + pw),
    ("glued", False, lambda v, pw: v + pw),
    # spellings that are NOT "pass" under str.lower() but are under other caseless comparisons (casefold, NFKC)
    ("long_s_twice", False, lambda v, pw: "PAſſ " + pw),
    ("long_s_mixed", False, lambda v, pw: "PaſS " + pw),
    ("sharp_s", False, lambda v, pw: "paß " + pw),
    ("fullwidth", False, lambda v, pw: "ｐａｓｓ " + pw),
]

OUTCOMES = ["accepted", "rejected", "pass_first", "pass_twice", "after_nopw_login", "unknown_user", "re_user"]


def build_history(outcome, pass_line, pw):
    """(users, [line texts]) ; users = [(login, password)]"""
    stored = pw.rstrip() if outcome in ("accepted", "pass_twice", "re_user") else "another-Pw"
    if stored == "":
        stored = "another-Pw"
    users = [("bob", stored), ("nopw", None)]
    if outcome in ("accepted", "rejected"):
        return users, ["USER bob", pass_line]
    if outcome == "pass_first":
        return users, [pass_line, "USER bob", pass_line]
    if outcome == "pass_twice":
        return users, ["USER bob", pass_line, pass_line]
    if outcome == "after_nopw_login":
        return users, ["USER nopw", pass_line]
    if outcome == "unknown_user":
        return users, ["USER nobody", pass_line]
    if outcome == "re_user":
        return users, ["USER bob", "PASS wrong-one", "USER bob", pass_line, "USER nopw", pass_line]
    raise ValueError(outcome)


# ------------------------------------------------------------------------------------------------
# implementation runners
# ------------------------------------------------------------------------------------------------
class _FakeStream:
    def __init__(self, lines=()):
        self.lines = list(lines)
        self.written = []

    async def readline(self):
        return self.lines.pop(0) if self.lines else b""

    async def write(self, data):
        self.written.append(data)

    def close(self):
        pass


def run_function_level(jobs):
    """jobs: ('parse', line str) | ('clientcmd', command str, censor or None) | ('clientline', line str)"""
    import aioftp

    out = []

    async def main(cap):
        server = aioftp.Server()
        client = aioftp.Client()
        for j in jobs:
            cap.take()
            try:
                if j[0] == "parse":
                    r = await server.parse_command(_FakeStream([j[1].encode("utf-8")]))
                    recs = cap.take()
                    out.append(("ok", [x[3] for x in recs], r))
                elif j[0] == "clientcmd":
                    client.stream = _FakeStream()
                    await client.command(j[1], censor_after=j[2])
                    recs = cap.take()
                    out.append(("ok", [x[3] for x in recs], client.stream.written))
                else:
                    client.stream = _FakeStream([j[1].encode("utf-8")])
                    r = await client.parse_line()
                    recs = cap.take()
                    out.append(("ok", [x[3] for x in recs], (str(r[0]), r[1])))
            except Exception as e:  # noqa
                out.append(("EXC", type(e).__name__, [x[3] for x in cap.take()]))

    with _Installed() as cap:
        asyncio.run(main(cap))
    return out


async def _raw_session(port, lines):
    reader, writer = await asyncio.open_connection("127.0.0.1", port)
    replies = []
    try:
        replies.append(await asyncio.wait_for(reader.readline(), 2))
        for l in lines:
            writer.write(l)
            await writer.drain()
            try:
                replies.append(await asyncio.wait_for(reader.readline(), 2))
            except (asyncio.TimeoutError, ConnectionError):
                replies.append(b"<none>")
                break
    finally:
        writer.close()
        try:
            await writer.wait_closed()
        except Exception:  # noqa
            pass
    return replies


def run_sessions(cases):
    """cases: dicts with users, and either lines (raw) or login=(user, pw).  Returns per case the captured records."""
    import aioftp

    out = []

    async def one(cap, c):
        users = [aioftp.User(l, p) for l, p in c["users"]]
        server = aioftp.Server(users)
        await server.start("127.0.0.1", 0)
        info = None
        try:
            if "lines" in c:
                raw = [(l + "\r\n").encode("utf-8") for l in c["lines"]]
                info = await _raw_session(server.server_port, raw)
            else:
                client = aioftp.Client()
                try:
                    await asyncio.wait_for(client.connect("127.0.0.1", server.server_port), 3)
                    await asyncio.wait_for(client.login(c["login"][0], c["login"][1]), 3)
                    info = "logged in"
                except Exception as e:  # noqa
                    info = "client raised %s" % type(e).__name__
                await asyncio.sleep(0.02 if "\n" in c["login"][1] else 0)
                client.close()
            await asyncio.sleep(0)
        finally:
            await server.close()
        await asyncio.sleep(0)
        return cap.take(), info

    async def main(cap):
        for c in cases:
            cap.take()
            try:
                out.append(await one(cap, c))
            except Exception as e:  # noqa
                out.append(([("harness", "ERROR", "", "harness exception %s: %s" % (type(e).__name__, e))], None))

    with _Installed() as cap:
        asyncio.run(main(cap))
    return out


# ------------------------------------------------------------------------------------------------
# oracle
# ------------------------------------------------------------------------------------------------
def canary_hits(records, canaries):
    hits = []
    for name, level, func, msg in records:
        low = msg.lower()
        for c in canaries:
            if c and c.lower() in low:
                hits.append((name, level, func, msg[:200], c))
    return hits


def is_pass_spelling(v):
    return v.lower() == "pass"


def star_shape_violations(records):
    """a record that starts with a PASS spelling and a blank must continue with stars only"""
    bad = []
    for name, level, func, msg in records:
        if func not in ("parse_command", "command"):
            continue
        head, sep, tail = msg.partition(" ")
        if sep and is_pass_spelling(head) and tail.strip("*") != "":
            bad.append((name, func, msg[:200]))
    return bad


# ------------------------------------------------------------------------------------------------
# model encodings
# ------------------------------------------------------------------------------------------------
def enc_users(users):
    if not users:
        return "_"
    return ";".join("%s/%s" % ("*" if l is None else enc_str(l), "*" if p is None else enc_str(p)) for l, p in users)


def dec_strs(tok):
    return [] if tok == "~" else [dec_str(t) for t in tok.split("|")]


def modelled_server_records(records):
    """DEBUG records of parse_command / write_line of the server, greeting removed"""
    r = [m for (n, lv, f, m) in records if n == "aioftp.server" and f in ("parse_command", "write_line")]
    if r and r[0] == "220 welcome":
        r = r[1:]
    return r


def modelled_client_records(records):
    r = [m for (n, lv, f, m) in records if n == "aioftp.client" and f in ("command", "parse_line")]
    if r and r[0] == "220 welcome":
        r = r[1:]
    return r


def ascii_lowerable(s):
    """is Py.lower exact on s?"""
    return all(ord(c) < 128 or c == "K" or c.lower() == c for c in s)


# ------------------------------------------------------------------------------------------------
# the run
# ------------------------------------------------------------------------------------------------
def gen_function_jobs(ctx, scale):
    rng = ctx.rng
    jobs = []
    blanks = [" ", "  ", "\t", "\r", "\x0b", "\x1c", "\x85", " ", " ", "　"]
    words = ["PASS", "pass", "PaSs", "USER", "user", "ACCT", "PAKS", "paſs", "", "xyz", "'q'", "\\", "Passé"]
    for _ in range(ctx.pick(12000, 120000) * scale):
        shape = rng.choice(PW_SHAPES)
        pw, _c = make_password(rng, shape)
        if shape == "long":
            pw = pw[: rng.choice([50, 300])]
        verb = rng.choice(words) if rng.random() < 0.5 else spell(rng)
        sep = rng.choice([" ", " ", " ", "  ", "\t", "", " "])
        lead = rng.choice(["", "", "", " ", "\t"])
        tail = "".join(rng.choice(blanks) for _ in range(rng.choice([0, 0, 1, 3]))) + rng.choice(["\r\n", "\n", "", "\r\n\r\n"])
        jobs.append(("parse", lead + verb + sep + pw + tail))
    for _ in range(ctx.pick(4000, 40000) * scale):
        pw, _c = make_password(rng, rng.choice(PW_SHAPES))
        pw = pw[:300]
        k = rng.random()
        if k < 0.5:
            jobs.append(("clientcmd", "PASS " + pw, 5))
        elif k < 0.7:
            jobs.append(("clientcmd", rng.choice(["PASS ", "ACCT ", "USER ", "X"]) + pw, rng.choice([None, 0, 1, 4, 5, 6, 500])))
        else:
            line = rng.choice(["230 ", "530 ", "331-", "502 '", "", "2", "23", "abc ", " 230 "]) + pw + rng.choice(["\r\n", "\n", "  \r\n", ""])
            jobs.append(("clientline", line))
    jobs.append(("clientcmd", "", 5))
    return jobs


def function_line(j):
    if j[0] == "parse":
        return "logs parse %s" % enc_str(j[1])
    if j[0] == "clientcmd":
        return "logs clientcmd %s %s" % (enc_str(j[1]), "*" if j[2] is None else str(j[2]))
    return "logs clientline %s" % enc_str(j[1])


def function_impl_canon(j, g):
    if g[0] == "EXC":
        # an exception raised AFTER something was logged is not the same outcome as one raised before
        return "EXC:" + g[1] + ("+records=%d" % len(g[2]) if g[2] else "")
    recs = g[1]
    if j[0] == "parse":
        if len(recs) != 1:
            return "records=%d" % len(recs)
        return "%s %s %s" % (enc_str(recs[0]), enc_str(g[2][0]), enc_str(g[2][1]))
    if j[0] == "clientcmd":
        if not recs:
            return "none"
        if len(recs) != 1:
            return "records=%d" % len(recs)
        return enc_str(recs[0])
    if len(recs) != 1:
        return "records=%d" % len(recs)
    return "%s %s %s" % (enc_str(recs[0]), enc_str(g[2][0]), enc_str(g[2][1]))


def gen_session_cases(ctx, scale, oracle_only=False):
    rng = ctx.rng
    cases = []
    n = ctx.pick(1500, 9000) * scale
    for i in range(n):
        shape = PW_SHAPES[i % len(PW_SHAPES)]
        if shape == "long" and i % 5:
            shape = "bare"
        pw, canaries = make_password(rng, shape)
        outcome = OUTCOMES[(i // len(PW_SHAPES)) % len(OUTCOMES)] if rng.random() < 0.7 else rng.choice(OUTCOMES)
        if rng.random() < 0.72:
            cls, in_scope, mk = SPELL_CLASSES[0] if rng.random() < 0.75 else SPELL_CLASSES[1]
        else:
            cls, in_scope, mk = rng.choice(SPELL_CLASSES[2:])
        verb = spell(rng)
        line = mk(verb, pw)
        users, lines = build_history(outcome, line, pw if cls != "sp2" else " " + pw)
        cases.append({"kind": "raw", "users": users, "lines": lines, "pw": pw, "canaries": canaries, "shape": shape,
                      "spelling": cls, "verb": verb, "in_scope": in_scope, "outcome": outcome})
    # the real client
    m = ctx.pick(500, 3000) * scale
    for i in range(m):
        shape = PW_SHAPES[i % len(PW_SHAPES)]
        if shape == "long" and i % 3:
            shape = "percent"
        pw, canaries = make_password(rng, shape)
        outcome = ["accepted", "rejected", "unknown_user", "after_nopw_login"][(i // len(PW_SHAPES)) % 4]
        stored = pw.rstrip() if outcome == "accepted" and pw.rstrip() else "another-Pw"
        users = [("bob", stored), ("nopw", None)]
        user = {"accepted": "bob", "rejected": "bob", "unknown_user": "nobody", "after_nopw_login": "nopw"}[outcome]
        cases.append({"kind": "login", "users": users, "login": (user, pw), "pw": pw, "canaries": canaries, "shape": shape,
                      "spelling": "client", "verb": "PASS", "in_scope": True, "outcome": outcome})
    # passwords that look like the command itself (prefixes and pieces of "PASS PASS ..."): a censor that locates the
    # secret inside the line instead of cutting at a fixed column finds it at the wrong place
    for pw in ["P", "PA", "PAS", "PASS", "PASS ", "PASS P", "PASS PASS", "pass", "ASS", "S", "SS P", " PASS", "*", "PASS *"]:
        for outcome in ("rejected", "accepted"):
            stored = pw.rstrip() if outcome == "accepted" and pw.rstrip() else "another-Pw"
            cases.append({"kind": "login", "users": [("bob", stored), ("nopw", None)], "login": ("bob", pw), "pw": pw, "canaries": [],
                          "shape": "verb_like", "spelling": "client", "verb": "PASS", "in_scope": True, "outcome": outcome})
    # LF inside the password through Client.login (known finding) and the > 64 KiB line (oracle only)
    for i in range(ctx.pick(6, 30)):
        t1, t2 = token(rng), token(rng)
        pw = t1 + "\n" + rng.choice(["", "NOOP ", "x "]) + t2
        cases.append({"kind": "login", "users": [("bob", "another-Pw")], "login": ("bob", pw), "pw": pw, "canaries": [t1, t2],
                      "shape": "lf_inside", "spelling": "client", "verb": "PASS", "in_scope": False, "outcome": "rejected",
                      "oracle_only": True})
    for i in range(ctx.pick(2, 6)):
        t = token(rng)
        pw = t * 10000
        cases.append({"kind": "login", "users": [("bob", pw if i % 2 else "another-Pw")], "login": ("bob", pw), "pw": pw,
                      "canaries": [t], "shape": "over_64k", "spelling": "client", "verb": "PASS", "in_scope": True,
                      "outcome": "line_too_long", "oracle_only": True})
    return cases


def case_public(c):
    d = {k: c[k] for k in ("kind", "users", "shape", "spelling", "outcome", "canaries") if k in c}
    if len(c.get("pw", "")) < 5000:
        d["pw"] = c.get("pw", "")
    if "lines" in c:
        d["lines"] = [l if len(l) < 400 else l[:60] + "...(%d chars)" % len(l) for l in c["lines"]]
        d["lines_full"] = c["lines"] if all(len(l) < 5000 for l in c["lines"]) else None
    else:
        d["login"] = [c["login"][0], c["login"][1] if len(c["login"][1]) < 5000 else c["login"][1][:20] + "...(%d chars)" % len(c["login"][1])]
        d["login_pw_repeat"] = None if len(c["login"][1]) < 5000 else [c["canaries"][0], len(c["login"][1]) // len(c["canaries"][0])]
    return d


def judge(c, records, replies=None):
    """oracle on one session; returns list of (signature, what)"""
    out = []
    hits = canary_hits(records, c["canaries"])
    stars_bad = star_shape_violations(records) if c["in_scope"] or c["shape"] == "lf_inside" else []
    if c["shape"] == "lf_inside":
        if hits:
            out.append(("C20:lf-password", "Client.login with a password containing LF: %r logged in clear by %s.%s: %r" % (
                hits[0][4], hits[0][0], hits[0][2], hits[0][3])))
        return out
    if not c["in_scope"]:
        # a spelling the server is not expected to take for PASS - unless it DID: the line was answered like the
        # PASS command (230 / 530), so what it carried was used as a password and must not be in any record
        idx = [i for i, l in enumerate(c.get("lines", [])) if c["pw"] and l.endswith(c["pw"]) and l.lstrip().partition(" ")[0].lower() != "pass"]
        rep = replies if isinstance(replies, list) else []
        taken = [i for i in idx if i + 1 < len(rep) and rep[i + 1][:3] in (b"230", b"530")]
        if not (taken and hits):
            return out
        h = hits[0]
        out.append(("C20:canary", "the line %r was answered %s - taken for the PASS command - and its password token %r appears in a %s record of %s (%s): %r" % (
            c["lines"][taken[0]][:40], rep[taken[0] + 1][:3].decode(), h[4], h[1], h[0], h[2], h[3])))
        return out
    if hits:
        h = hits[0]
        out.append(("C20:canary", "password token %r appears in a %s record of %s (%s): %r [spelling %s, shape %s, outcome %s]" % (
            h[4], h[1], h[0], h[2], h[3], c["spelling"], c["shape"], c["outcome"])))
    if stars_bad:
        b = stars_bad[0]
        out.append(("C20:stars", "the %s record of the PASS command shows more than stars: %r" % (b[0], b[2])))
    return out


def _lower_table_check(res):
    """`cmd.lower() in censor_commands` is modelled per character: no character may lower-case to
    several characters that are all ASCII (then a non-4-character verb could spell 'pass')"""
    bad = [cp for cp in range(0x110000) if not 0xD800 <= cp <= 0xDFFF
           and len(chr(cp).lower()) > 1 and all(ord(x) < 128 for x in chr(cp).lower())]
    res.count("unicode:multi_char_ascii_lower", len(bad))
    if bad:
        _disagree(res, "Py.lower (per-character) vs str.lower", {"code_points": bad[:10]}, "one character each", "multi-character ASCII lower()")


def _run(ctx, oracle_only=False, scale=1):
    res = Result()
    do_model = (not oracle_only) and ctx.model_ok
    _lower_table_check(res)
    # ---- (1) function level
    fjobs = gen_function_jobs(ctx, scale)
    fgot = run_function_level(fjobs)
    lines = []
    expect = []
    for j, g in zip(fjobs, fgot):
        res.cases += 1
        res.count("fn:%s" % j[0])
        if j[0] == "parse":
            s = j[1].rstrip()
            cmd = s.partition(" ")[0]
            res.count("fn:parse:%s" % ("censored" if cmd.lower() == "pass" else "clear"))
            # oracle on the implementation: a record whose verb is a PASS spelling shows stars only
            if g[0] == "ok":
                for msg in g[1]:
                    head, sep, tail = msg.partition(" ")
                    if sep and is_pass_spelling(head) and tail.strip("*") != "":
                        res.oracle_failures.append({"input": {"kind": "parse_command", "line": j[1]},
                                                    "what": "parse_command logged %r" % msg[:200], "signature": "C20:stars"})
            if not ascii_lowerable(cmd):
                res.count("fn:parse:skipped_nonascii_upper")
                continue
        if j[0] == "clientcmd" and j[2] == 5 and j[1].startswith("PASS ") and g[0] == "ok":
            for msg in g[1]:
                if msg[5:].strip("*") != "" or len(msg) != len(j[1]):
                    res.oracle_failures.append({"input": {"kind": "client_command", "command": j[1], "censor_after": 5},
                                                "what": "BaseClient.command logged %r" % msg[:200], "signature": "C20:stars"})
        lines.append(function_line(j))
        expect.append((j, function_impl_canon(j, g)))
    # ---- (2) sessions
    cases = gen_session_cases(ctx, scale, oracle_only)
    sgot = run_sessions(cases)
    slines = []
    sexpect = []
    noted = 0
    for c, (records, info) in zip(cases, sgot):
        res.cases += 1
        res.count("session:%s" % c["kind"])
        res.count("spelling=%s" % c["spelling"])
        res.count("shape=%s" % c["shape"])
        res.count("outcome=%s" % c["outcome"])
        res.count("records_seen", len(records))
        if not (c["shape"] == "bare" and c["verb"] == "PASS" and c["outcome"] == "accepted"):
            res.distinct.add((c["kind"], c["spelling"], c["shape"], c["outcome"], c["verb"] if c["in_scope"] else ""))
        for sig, what in judge(c, records, info):
            res.oracle_failures.append({"input": case_public(c), "what": what, "signature": sig})
        if not c["in_scope"] and c["shape"] != "lf_inside" and canary_hits(records, c["canaries"]):
            noted += 1
        if any(r[0] == "harness" for r in records):
            res.notes.append("harness problem: %s" % records[-1][3])
        if c.get("oracle_only"):
            continue
        if c["kind"] == "raw":
            if not all(ascii_lowerable(l.rstrip().partition(" ")[0]) for l in c["lines"]):
                res.count("session:skipped_nonascii_upper")
                continue
            slines.append("logs serverrun %s %s" % (enc_users(c["users"]), enc_strs([l + "\r\n" for l in c["lines"]])))
            sexpect.append((c, "srv", modelled_server_records(records)))
        else:
            slines.append("logs login %s %s %s -" % (enc_users(c["users"]), enc_str(c["login"][0]), enc_str(c["login"][1])))
            sexpect.append((c, "both", (modelled_client_records(records), modelled_server_records(records))))
    res.count("noted_out_of_scope_leak", noted)
    # ---- model comparison
    if do_model:
        outs = drive(lines + slines, shards=8)
        res.lines += len(lines) + len(slines)
        fo, so = outs[: len(lines)], outs[len(lines):]
        for (j, want), o in zip(expect, fo):
            if want != o:
                _disagree(res, "Model/Logs %s vs live function" % j[0], {"job": list(j)}, _pretty(o), _pretty(want))
        for (c, kind, want), o in zip(sexpect, so):
            if o == "unmodelled":
                res.count("session:unmodelled_by_driver")
                continue
            toks = o.split(" ")
            if kind == "srv":
                got_model = dec_strs(toks[0])
                if got_model != want:
                    _disagree(res, "Model.serverRun vs live server records", case_public(c), got_model, want)
            else:
                got_model = (dec_strs(toks[0]), dec_strs(toks[1]))
                if got_model != want:
                    _disagree(res, "Model.loginSession vs live Client.login + server records", case_public(c), got_model, want)
    picks = [0, len(cases) // 3, len(cases) // 2, len(cases) - 12]
    res.samples = [{"case": case_public(cases[i]), "records": [list(r)[:3] + [r[3][:120]] for r in sgot[i][0]][:12]} for i in picks if 0 <= i < len(cases)]
    res.exhaustive = False
    return res


def _pretty(o):
    try:
        return [dec_str(t) if (t[:1].isdigit() or t == "-") else t for t in o.split(" ")]
    except Exception:  # noqa
        return o


def _disagree(res, name, inp, model, impl):
    if len(res.disagreements) < 20:
        res.disagreements.append({"correspondence": name, "input": inp, "model": model, "impl": impl})
    else:
        res.count("more_disagreements")


def correspondence(ctx):
    from props import c20_extra

    r = _run(ctx)
    r.merge(c20_extra.run(ctx))
    return r


def search(ctx, prior):
    from props import c20_extra

    r = _run(ctx, oracle_only=True, scale=2)
    r.merge(c20_extra.run(ctx, scale=2))
    return r


def _case_from_public(d):
    c = dict(d)
    if d.get("lines_full"):
        c["lines"] = d["lines_full"]
    if "login" in d:
        pw = d["login"][1]
        if d.get("login_pw_repeat"):
            pw = d["login_pw_repeat"][0] * d["login_pw_repeat"][1]
        c["login"] = (d["login"][0], pw)
    c["users"] = [tuple(u) for u in d["users"]]
    c.setdefault("pw", "")
    c["in_scope"] = d["spelling"] in ("sp1", "sp2", "client") and d["shape"] != "lf_inside"
    return c


def replay(ctx, doc):
    if doc["failure"]["input"].get("kind") in ("scripted-login", "encoding-mismatch", "limit-refusal", "user-manager-under-with_timeout", "late-reply", "sessions-of-one-account", "unencodable-password", "long-pass-line-in-pieces"):
        from props import c20_extra

        r = c20_extra.run(ctx)
        hit = [f for f in r.oracle_failures if f["signature"] == doc["failure"]["signature"]]
        print(hit[:2])
        return bool(hit)
    inp = doc["failure"]["input"]
    if inp.get("kind") == "parse_command":
        g = run_function_level([("parse", inp["line"])])[0]
        print("implementation:", g)
        return any(m.partition(" ")[2].strip("*") != "" for m in g[1]) if g[0] == "ok" else False
    if inp.get("kind") == "client_command":
        g = run_function_level([("clientcmd", inp["command"], inp["censor_after"])])[0]
        print("implementation:", g)
        return any(m[5:].strip("*") != "" for m in g[1]) if g[0] == "ok" else False
    c = _case_from_public(inp)
    records, info = run_sessions([c])[0]
    for r in records:
        print("   ", r[0], r[1], r[2], repr(r[3][:160]))
    verdict = judge(c, records, info)
    print("oracle:", verdict)
    return bool(verdict)


def probe_known(ctx, finding):
    c = _case_from_public(finding["replay"])
    records, info = run_sessions([c])[0]
    return any(sig == finding["signature"] for sig, _ in judge(c, records, info))


# somebody else's classes: the documented extension points used the way a third party uses them (props/thirdparty.py)
from props import thirdparty as _thirdparty  # noqa: E402

correspondence, search, replay = _thirdparty.attach(PID, correspondence, search, replay)
