"""C07, wire level (implementation-side oracle): what a client learns from MLSD / MLST / LIST-fallback equals
the backend's truth - every entry once, none invented, exact type and byte size, MLSx times equal to the
backend's st_mtime in UTC seconds - after histories of whole / offset / appended / partly downloaded transfers
(which leave the in-memory backend's file positions anywhere), on the memory and the filesystem backend."""
import asyncio
import time

import aioftp

import simnet
import world as W
from framework import Result

TREE = [(("d",), None), (("d", "sub"), None), (("d", "g.txt"), b"hello world"), (("e",), None), (("f.txt",), b"0123456789"), (("z.bin",), bytes(300))]

HISTORIES = [
    [],
    [("up", "n.bin", 100, 0), ("up", "n.bin", 5, 10)],
    [("up", "n.bin", 100, 0), ("down", "n.bin", 40)],
    [("app", "f.txt", 7), ("down", "f.txt", 3)],
    [("up", "d/h.bin", 64, 0), ("up", "d/h.bin", 0, 20), ("app", "d/h.bin", 1)],
    [("down", "z.bin", 299), ("up", "z.bin", 2, 298)],
]


async def _session(loop, backend, mlsx, hist, mtimes, prelude=None):
    spy_times = {}
    wd = W.World(loop, [W.UserSpec(None, None)], backend=backend)
    await wd.start()
    fails = []
    try:
        wd.set_tree(TREE)

        def patch(path, st):
            # controlled modification times: recorded as the truth the listing must report
            name = str(path).rsplit("/", 1)[-1]
            if name in mtimes:
                d = st._asdict() if hasattr(st, "_asdict") else None
                if d is not None:
                    d["st_mtime"] = mtimes[name]
                    st = type(st)(**d)
            spy_times[name] = st.st_mtime
            return st

        wd.spy.stat_patch = patch
        if not mlsx:
            wd.server.commands_mapping.pop("mlst")
            wd.server.commands_mapping.pop("mlsd")
        client = aioftp.Client()
        await client.connect("127.0.0.1", wd.port)
        if prelude == "list-before-login":
            # the same client object is used too early once: the refusal must not colour what it learns afterwards
            try:
                await client.list("/")
                fails.append("list() before login() was served")
            except aioftp.StatusCodeError:
                pass
        await client.login()
        if prelude == "list-of-missing-directory":
            for missing in ("/nope", "/d/nope/deeper"):
                try:
                    await client.list(missing)
                except aioftp.StatusCodeError:
                    pass
        elif prelude == "stat-of-missing-path":
            try:
                await client.stat("/nope")
            except aioftp.StatusCodeError:
                pass
        for h in hist:
            if h[0] == "up":
                async with client.upload_stream(h[1], offset=h[3]) as st:
                    if h[2]:
                        await st.write(bytes((i * 3) % 251 for i in range(h[2])))
            elif h[0] == "app":
                async with client.append_stream(h[1]) as st:
                    await st.write(b"A" * h[2])
            elif h[0] == "down":
                async with client.download_stream(h[1], offset=h[2]) as st:
                    await st.read(7)  # a partial read; the rest is drained by finish()
                    while await st.read(4096):
                        pass
        await loop.settle()
        truth = {}
        tok = wd.tree()
        import framework as F

        for item in tok.split(";"):
            p, v = item.split("=", 1)
            truth["/" + "/".join(F.dec_str(x) for x in p.split("|"))] = ("dir", 0) if v == "D" else ("file", len(F.dec_bytes(v[1:])))
        for directory in ("/", "/d", "/e"):
            want = {k: v for k, v in truth.items() if k.rsplit("/", 1)[0] == (directory.rstrip("/")) and k != directory}
            got = {}
            for path, info in await client.list(directory):
                key = str(path)
                if key in got:
                    fails.append("entry %s listed twice in %s" % (key, directory))
                got[key] = info
            if set(got) != set(want):
                fails.append("list(%s) names %s, backend has %s" % (directory, sorted(got), sorted(want)))
                continue
            for k, (typ, size) in want.items():
                info = got[k]
                if info.get("type") != typ:
                    fails.append("%s listed as type %r, backend says %r" % (k, info.get("type"), typ))
                if typ == "file" and int(info.get("size", -1)) != size:
                    fails.append("%s listed with size %s, backend holds %d bytes" % (k, info.get("size"), size))
                name = k.rsplit("/", 1)[-1]
                if mlsx and name in spy_times:
                    wantm = time.strftime("%Y%m%d%H%M%S", time.gmtime(int(spy_times[name] // 1)))
                    if info.get("modify") != wantm:
                        fails.append("%s listed with modify=%s, backend st_mtime is %s" % (k, info.get("modify"), wantm))
        for k, (typ, size) in truth.items():
            info = await client.stat(k)
            if info.get("type") != typ or (typ == "file" and int(info.get("size", -1)) != size):
                fails.append("stat(%s) = type %r size %r, backend says %r %d" % (k, info.get("type"), info.get("size"), typ, size))
        try:
            await client.quit()
        except Exception:
            client.close()
        await loop.settle()
    finally:
        try:
            await wd.stop()
        except Exception:
            wd.finish()
    return fails


async def _special_session(loop, backend):
    """a served directory that holds more than regular files and directories (a FIFO, a unix socket, links): every
    entry is reported with the type the backend gives it - file iff is_file(), dir iff is_dir() - by MLSD, by MLST
    and by the LIST flavour alike"""
    import os
    import socket as _socket

    wd = W.World(loop, [W.UserSpec(None, None)], backend=backend)
    await wd.start()
    fails = []
    socks = []
    try:
        base = wd.tmpdir
        os.mkdir(os.path.join(base, "dir"))
        with open(os.path.join(base, "file.txt"), "wb") as f:
            f.write(b"12345")
        os.mkfifo(os.path.join(base, "pipe"))
        sk = _socket.socket(_socket.AF_UNIX)
        sk.bind(os.path.join(base, "daemon.sock"))
        socks.append(sk)
        os.symlink("file.txt", os.path.join(base, "link-to-file"))
        os.symlink("dir", os.path.join(base, "link-to-dir"))
        truth = {}
        for name in os.listdir(base):
            p = os.path.join(base, name)
            truth[name] = "dir" if os.path.isdir(p) else "file" if os.path.isfile(p) else "unknown"
        client = aioftp.Client()
        await client.connect("127.0.0.1", wd.port)
        await client.login()
        for flavour in ("MLSD", "LIST"):
            got = {}
            for path, info in await client.list("/", raw_command=flavour):
                got[path.name] = info.get("type")
            if set(got) != set(truth):
                fails.append("%s lists %s, the directory holds %s" % (flavour, sorted(got), sorted(truth)))
                continue
            for name, typ in sorted(truth.items()):
                if flavour == "LIST" and name.startswith("link-"):
                    continue  # the LIST line of a link carries the type of the target only through the `-> x/` convention
                if got[name] != typ:
                    fails.append("%s: %s listed as type %r, the backend says %r" % (flavour, name, got[name], typ))
        for name, typ in sorted(truth.items()):
            info = await client.stat("/" + name)
            if info.get("type") != typ:
                fails.append("MLST: %s reported as type %r, the backend says %r" % (name, info.get("type"), typ))
            # the client's own yes/no answers derived from the stat
            for fn, want in ((client.is_file, typ == "file"), (client.is_dir, typ == "dir"), (client.exists, True)):
                got_b = await fn("/" + name)
                if got_b is not want:
                    fails.append("Client.%s(%r) answers %r, the backend says the entry is %r" % (fn.__name__, name, got_b, typ))
        try:
            await client.quit()
        except Exception:
            client.close()
        await loop.settle()
    finally:
        for sk in socks:
            sk.close()
        try:
            await wd.stop()
        except Exception:
            wd.finish()
    return fails


async def _configured_session(loop, config):
    """servers and clients built with options other than the defaults: what a listing reports is still what the backend
    holds.  config "encoding:<name>": both sides use that encoding, the names are such that their encoded bytes also
    happen to be valid UTF-8; config "permissions": a table that closes some of the children of an open directory - a
    listing of the parent still shows them (permissions decide who may ENTER or READ an entry, not whether it exists)"""
    fails = []
    kw, ckw, perms = {}, {}, ()
    names_files = ["plain.txt"]
    if config.startswith("encoding:"):
        enc = config.split(":", 1)[1]
        kw["encoding"] = ckw["encoding"] = enc
        names_files += {"latin-1": ["caf\u00c3\u00a9.txt", "dir \u00c2\u00a71", "\u00d0\u00b0\u00d0\u00b1.bin", "fa\u00e7ade"], "cp1251": ["\u0420\u00b0\u0420\u00b1.bin", "\u0436\u0443\u043a"]}[enc]
    else:
        perms = [("/", True, True), ("/private", False, False), ("/pub/secret.txt", False, True), ("/pub/ro", True, False)]
    wd = W.World(loop, [W.UserSpec(None, None, perms=perms)], server_kwargs=kw)
    await wd.start()
    try:
        tree = [(("pub",), None), (("private",), None), (("private", "x"), b"x"), (("pub", "secret.txt"), b"s"), (("pub", "ro"), None), (("pub", "open.txt"), b"o")]
        tree += [(("pub", nm), b"data") for nm in names_files]
        wd.set_tree(tree)
        truth = {"/": sorted(p[0] for p, c in tree if len(p) == 1), "/pub": sorted(p[1] for p, c in tree if len(p) == 2 and p[0] == "pub")}
        client = aioftp.Client(**ckw)
        await client.connect("127.0.0.1", wd.port)
        await client.login()
        for flavour in ("MLSD", "LIST"):
            for d, want in truth.items():
                try:
                    got = sorted(p.name for p, info in await client.list(d, raw_command=flavour))
                except Exception as e:  # noqa
                    fails.append("%s of %s (%s) raised %s: %s" % (flavour, d, config, type(e).__name__, str(e)[:100]))
                    client.close()
                    client = aioftp.Client(**ckw)
                    await client.connect("127.0.0.1", wd.port)
                    await client.login()
                    continue
                if got != want:
                    fails.append("%s of %s (%s) reports %r, the backend holds %r" % (flavour, d, config, [x for x in got if x not in want] or got, [x for x in want if x not in got] or want))
        try:
            await client.quit()
        except Exception:
            client.close()
        await loop.settle()
    finally:
        try:
            await wd.stop()
        except Exception:
            wd.finish()
    return fails


async def _big_dir_session(loop, backend, n):
    """a directory with many entries (more than any batch size a backend may use internally): every entry once"""
    wd = W.World(loop, [W.UserSpec(None, None)], backend=backend)
    await wd.start()
    fails = []
    try:
        names = ["f%04d.bin" % i for i in range(n)]
        wd.set_tree([(("big",), None)] + [(("big", nm), b"x" * (i % 7)) for i, nm in enumerate(names)] + [(("big", "sub"), None)])
        client = aioftp.Client()
        await client.connect("127.0.0.1", wd.port)
        await client.login()
        for flavour in ("MLSD", "LIST"):
            got = [p.name for p, info in await client.list("/big", raw_command=flavour)]
            if sorted(got) != sorted(names + ["sub"]):
                missing = sorted(set(names + ["sub"]) - set(got))
                twice = sorted(x for x in set(got) if got.count(x) > 1)
                fails.append("%s of a directory with %d entries reports %d: missing %r, listed twice %r" % (flavour, n + 1, len(got), missing[:4], twice[:4]))
        try:
            await client.quit()
        except Exception:
            client.close()
        await loop.settle()
    finally:
        try:
            await wd.stop()
        except Exception:
            wd.finish()
    return fails


PRELUDES = [None, "list-before-login", "list-of-missing-directory", "stat-of-missing-path"]


def run(ctx):
    res = Result()
    rng = ctx.rng
    now = int(time.time())
    for backend in ("pathio", "async"):
        res.cases += 1
        res.count("wire_special_files_" + backend)
        res.distinct.add(("wire-special", backend))
        try:
            fails = simnet.run(_special_session, backend)
        except BaseException as e:  # noqa
            res.disagreements.append({"correspondence": "C07 wire harness", "input": ["special-files", backend], "impl": "%s: %s" % (type(e).__name__, e)})
            continue
        if fails:
            res.oracle_failures.append({"input": {"kind": "wire-special-files", "backend": backend}, "what": fails[0], "signature": "C07:wire:entry-type-differs-from-backend"})
    for config in ("encoding:latin-1", "encoding:cp1251", "permissions"):
        res.cases += 1
        res.count("wire_configured_" + config)
        res.distinct.add(("wire-configured", config))
        try:
            fails = simnet.run(_configured_session, config)
        except BaseException as e:  # noqa
            res.disagreements.append({"correspondence": "C07 wire harness", "input": ["configured", config], "impl": "%s: %s" % (type(e).__name__, e)})
            continue
        if fails:
            res.oracle_failures.append({"input": {"kind": "wire-configured", "config": config}, "what": fails[0], "signature": "C07:wire:listing-differs-from-backend"})
    for backend in ("memory", "pathio", "async"):
        for n in ((128, 129, 300) if not ctx.thorough() else (1, 127, 128, 129, 255, 256, 257, 300, 1025)):
            res.cases += 1
            res.count("wire_big_directory_" + backend)
            res.distinct.add(("wire-bigdir", backend, n))
            try:
                fails = simnet.run(_big_dir_session, backend, n)
            except BaseException as e:  # noqa
                res.disagreements.append({"correspondence": "C07 wire harness", "input": ["big-directory", backend, n], "impl": "%s: %s" % (type(e).__name__, e)})
                continue
            if fails:
                res.oracle_failures.append({"input": {"kind": "wire-big-directory", "backend": backend, "entries": n}, "what": fails[0], "signature": "C07:wire:listing-differs-from-backend"})
    # the same client object after a refused or failed request: what it learns afterwards is the same
    for pi, prelude in enumerate(PRELUDES[1:]):
        for backend in ("memory",):
            mt = {"g.txt": now - 86400 * 3 - 37, "f.txt": now - 10**7 - 1, "e": now - 3601.5, "z.bin": float(now - 86400 * 200) + 0.75}
            res.cases += 1
            res.count("wire_prelude_" + prelude)
            res.distinct.add(("wire-prelude", prelude))
            try:
                fails = simnet.run(_session, backend, True, HISTORIES[1 + pi % 3], mt, prelude)
            except BaseException as e:  # noqa
                res.disagreements.append({"correspondence": "C07 wire harness", "input": [backend, prelude], "impl": "%s: %s" % (type(e).__name__, e)})
                continue
            if fails:
                res.oracle_failures.append({"input": {"kind": "wire-listing", "backend": backend, "mlsx": True, "history": 1 + pi % 3, "prelude": prelude}, "what": fails[0], "signature": "C07:wire:listing-differs-from-backend"})
    for backend in ("memory", "pathio"):
        for mlsx in (True, False):
            for hi, hist in enumerate(HISTORIES):
                mt = {"g.txt": now - rng.randrange(10, 10**7), "f.txt": now - rng.randrange(10**7, 10**9), "e": now - 3600.5, "z.bin": float(now - 86400 * 200) + 0.75}
                if backend != "memory":
                    mt = {}
                res.cases += 1
                res.count("wire_%s_%s" % (backend, "mlsx" if mlsx else "list"))
                res.distinct.add(("wire", backend, mlsx, hi))
                try:
                    fails = simnet.run(_session, backend, mlsx, hist, mt)
                except BaseException as e:  # noqa
                    res.disagreements.append({"correspondence": "C07 wire harness", "input": [backend, mlsx, hi], "impl": "%s: %s" % (type(e).__name__, e)})
                    continue
                if fails:
                    res.oracle_failures.append({"input": {"kind": "wire-listing", "backend": backend, "mlsx": mlsx, "history": hi}, "what": fails[0], "signature": "C07:wire:listing-differs-from-backend"})
    return res


def replay(inp):
    if inp.get("kind") == "wire-configured":
        fails = simnet.run(_configured_session, inp["config"])
        print(fails)
        return bool(fails)
    if inp.get("kind") == "wire-big-directory":
        fails = simnet.run(_big_dir_session, inp["backend"], inp["entries"])
        print(fails)
        return bool(fails)
    if inp.get("kind") == "wire-special-files":
        fails = simnet.run(_special_session, inp["backend"])
        print(fails)
        return bool(fails)
    mt = {}
    if inp.get("prelude"):
        now = int(time.time())
        mt = {"g.txt": now - 86400 * 3 - 37, "f.txt": now - 10**7 - 1, "e": now - 3601.5, "z.bin": float(now - 86400 * 200) + 0.75}
    fails = simnet.run(_session, inp["backend"], inp["mlsx"], HISTORIES[inp["history"]], mt, inp.get("prelude"))
    print(fails)
    return bool(fails)
