"""C07 (date/time and numeric half)  listings and stats report the backend's truth.

Function-level correspondence, no network: the real `Server.build_list_mtime`, `Server._format_mlsx_time`,
`Client.parse_ls_date(s, now=datetime)`, `Client.parse_unix_mode`, `stat.filemode`, `str(int)` against
`Model.ListDate` / `Model.Cal` (Lean driver component `calendar`), under TZ=UTC and fixed-offset zones.
Oracle: Python `datetime` arithmetic on the implementation's output only.
"""
import datetime
import os
import stat
import time

from framework import Result, drive, enc_str

PID = "C07"
RULE = (
    "inputs = (zone, res, mtime ticks, now ticks, client skew, client microseconds); boundary lattice: +-2 days "
    "around now-H at 1-minute steps for anchors at New Year / Feb 28-29-Mar 1 / mid-year in leap, non-leap and "
    "century years (2000, 2100), the exact tick boundaries now-H and now with fractional times, New Year +-2 days, "
    "leap days x listing delays, future mtimes, every year 1970-2100, seeded random pairs; plus gmtime/MLSx times "
    "(incl. pre-epoch and fractional), a malformed stream for parse_ls_date (mutated dates, Unicode digits/blanks, "
    "case variants), all permission words for parse_unix_mode/stat.filemode, sizes up to 2^64. A case is "
    "non-trivial when it is not a same-year recent listing with a two-digit day; distinct = distinct non-trivial "
    "(zone, res, mtime, now, skew) tuples"
)
EXPLANATION = (
    "Theorems in Properties/C07.lean: calendar round trips for every year; list_recent / list_old for every "
    "(mtime, now, now') outside the one-day window, every year 1000..9999; the window is shown to be real. This run "
    "ties Model.ListDate / Model.Cal / Py.Time to the live functions and evaluates the date oracle on the implementation."
)
ASSUMPTIONS = [
    "server and client share one fixed UTC offset: localtime(t) = gmtime(t + off); DST transitions and the tz database are not modelled",
    "times are exact rationals tt/res (dyadic floats in the run); float rounding of now - HALF_OF_YEAR is exact in the tested range",
    "glibc strftime in the C locale (%b, %e space padding, %Y unpadded) and CPython 3.12 _strptime regexes behave as transcribed in Py/Time.lean (sampled here, incl. malformed input)",
    "years 1000..9999 (4-digit %Y, datetime.MAXYEAR); the run covers 1969..2101",
    "client clock not behind the server clock (now <= now' <= now + 3600 s) as in the property",
]
TRUSTED_EXTRA = [
    "time.gmtime/localtime compute the proleptic Gregorian date of floor(t) (+ fixed offset): specified by Model/Calendar.lean (transcribed from _pydatetime), sampled on every run",
]
GENERATED_OBLIGATIONS = ["Dates.lean:formats_as_modelled", "Server.lean:halfYearSeconds/twoYearsSeconds"]

H = 15778476
W = 86400
EPOCH = datetime.datetime(1970, 1, 1)
ZONES_QUICK = [("UTC", 0), ("<+03>-3", 10800)]
ZONES_THOROUGH = [("UTC", 0), ("<+03>-3", 10800), ("<-0930>9:30", -34200)]

SIG_RECENT = "C07:list_recent_wrong"
SIG_OLD = "C07:list_old_wrong"
SIG_EXC = "C07:list_date_exception"
SIG_SHAPE = "C07:list_mtime_shape"
SIG_MLSX = "C07:mlsx_time_wrong"
SIG_MODE = "C07:mode_wrong"
SIG_MODE_T = "C07:mode_sticky_t_drops_x"
SIG_MODE_ST = "C07:mode_upper_S_T_rejected"
SIG_SIZE = "C07:size_wrong"


# ------------------------------------------------------------------------------------------------
# zone handling
# ------------------------------------------------------------------------------------------------
class Zone:
    def __init__(self, tz):
        self.tz = tz

    def __enter__(self):
        self.old = os.environ.get("TZ")
        os.environ["TZ"] = self.tz
        time.tzset()
        return self

    def __exit__(self, *a):
        if self.old is None:
            os.environ.pop("TZ", None)
        else:
            os.environ["TZ"] = self.old
        time.tzset()


def utc(y, mo, d, h=0, mi=0, s=0):
    return int((datetime.datetime(y, mo, d, h, mi, s) - EPOCH).total_seconds())


def local_dt(t, off):
    """naive local datetime of the integral unix second t (pure datetime arithmetic)"""
    return EPOCH + datetime.timedelta(seconds=t + off)


# ------------------------------------------------------------------------------------------------
# generators: (res, mt, nowt, skew, us, tag)
# ------------------------------------------------------------------------------------------------
def is_leap(y):
    return y % 4 == 0 and (y % 100 != 0 or y % 400 == 0)


def special_years(ctx):
    base = [1970, 1972, 1999, 2000, 2001, 2023, 2024, 2025, 2038, 2096, 2099, 2100, 2101]
    return base


def gen_date_cases(ctx, big=False):
    rng = ctx.rng
    cases = []

    def add(mt, nowt, res=1, skew=None, us=None, tag=""):
        if skew is None:
            skew = rng.choice([0, 0, 1, 59, 60, 3599, 3600, rng.randrange(3601)])
        if us is None:
            us = rng.choice([0, 0, 1, 999999, rng.randrange(10**6)])
        if mt < 0 or nowt < 0:
            return
        cases.append((res, mt, nowt, skew, us, tag))

    years = special_years(ctx)
    # A. +-2 days around now-H at 1-minute steps
    anchors = []
    for y in years:
        anchors += [utc(y, 1, 1, 0, 0, 0), utc(y, 1, 1, 2, 54, 37), utc(y, 8, 29, 12, 0, 1), utc(y, 3, 1, 0, 0, 0)]
        if y > 1970:
            anchors += [utc(y - 1, 12, 31, 23, 59, 59)]
    anchors += [utc(2024, 8, 30, 6, 0, 0), utc(2000, 8, 29, 23, 59, 59), utc(2025, 7, 2, 12, 0, 0)]
    if big:
        for y in range(1970, 2101):
            anchors += [utc(y, 1, 1, 0, 0, 0), utc(y, 1, 1) + rng.randrange(366 * 86400)]
    n_anchor = len(anchors) if big else 26
    rng.shuffle(anchors)
    must = [utc(2023, 1, 1, 0, 0, 0), utc(2024, 1, 1, 2, 54, 37), utc(2100, 1, 1, 0, 0, 0)]
    chosen = must + [a for a in anchors if a not in must][: max(0, n_anchor - len(must))]
    for now in chosen:
        j = rng.randrange(60)
        for k in range(-2880, 2881):
            add(now - H + k * 60 + j, now, tag="lattice")
        # exact boundary points, integral and fractional
        for res in (1, 4, 1024):
            for dt in (-1, 0, 1):
                add((now - H) * res + dt, now * res, res=res, tag="boundary-H")
                add((now - H) * res + dt, now * res + res - 1, res=res, tag="boundary-H")
                add(now * res + dt, now * res, res=res, tag="boundary-now")
            add((now - H + W) * res, now * res, res=res, tag="boundary-W")
            add((now - H + W) * res + 1, now * res, res=res, tag="boundary-W")
            add((now - H + W) * res + 1, now * res, res=res, skew=3600, us=999999, tag="boundary-W")
    # B. New Year +-2 days
    ny_years = years if big else [2000, 2001, 2024, 2100]
    for y in ny_years:
        ny = utc(y, 1, 1)
        step = 1800 if big else 7200
        for now in range(ny - 2 * 86400, ny + 2 * 86400 + 1, step):
            now += rng.randrange(step)
            for back in (0, 1, 59, 60, 3600, 86399, 86400, 2 * 86400, 31 * 86400, 100 * 86400, H - W - 1, H - W - 3601, rng.randrange(H - W)):
                add(now - back, now, tag="newyear")
    # C. Feb 28 / 29 / Mar 1
    for y in years if big else [2000, 2023, 2024, 2100]:
        days = [(2, 28), (3, 1)] + ([(2, 29)] if is_leap(y) else [])
        for mo, d in days:
            for hh in range(0, 24, 1 if big else 5):
                m = utc(y, mo, d, hh, rng.randrange(60), rng.randrange(60))
                for delay in (0, 60, 86400, 30 * 86400, 100 * 86400, 182 * 86400, H - W - 1, H - 2, H - 1, H, H + 1, 366 * 86400, 4 * 366 * 86400):
                    add(m, m + delay, tag="leapday")
        # listings made on a leap day
        if is_leap(y):
            now = utc(y, 2, 29, 12, 0, 0)
            for back in (0, 3600, 86400, 59 * 86400, 60 * 86400, 61 * 86400, H - W - 1):
                add(now - back, now, tag="leapday-now")
    # D. future mtimes
    for _ in range(2000 if big else 300):
        now = rng.randrange(0, utc(2100, 1, 1))
        add(now + rng.choice([1, 59, 60, 3600, 86400, 200 * 86400, 3653 * 86400, rng.randrange(1, 10**8)]), now, tag="future")
    # E. every year 1970..2100
    for y in range(1970, 2101):
        for _ in range(40 if big else 6):
            now = utc(y, 1, 1) + rng.randrange(366 * 86400)
            add(now - rng.randrange(H - W), now, tag="year-recent")
            add(now - H - rng.randrange(20 * 366 * 86400), now, tag="year-old")
    # F. random pairs, integral and fractional
    for _ in range(200000 if big else 40000):
        now = rng.randrange(0, utc(2101, 1, 1))
        k = rng.random()
        if k < 0.35:
            m = now - H + rng.randrange(-3 * 86400, 3 * 86400)
        elif k < 0.7:
            m = now - rng.randrange(0, H)
        else:
            m = rng.randrange(0, utc(2101, 1, 1))
        res = rng.choice([1, 1, 2, 4, 1024])
        add(m * res + rng.randrange(res), now * res + rng.randrange(res), res=res, tag="random")
    return cases


MALFORMED_ALPHABET = [
    "Feb", "feb", "FEB", "Jan", "Dec", "Sep", "ſep", "May", " ", "  ", "\t", " ", " ", "29", "30", "31", "32",
    "1", "0", "9", "12", ":", "00", "59", "60", "24", "23", "2020", "1999", "0000", "999", "٣", "١", "２", "x", "-", "",
]


def gen_malformed(ctx, n):
    import aioftp

    rng = ctx.rng
    out = []
    fixed = [
        "Feb 29 12:00", "Feb 29  2024", "Feb 29  2023", "feb 29 12:00", "FEB 29 12:00", "Feb  29 12:00", "Feb 290 1:00",
        "Feb 30 12:00", "Apr 31 12:00", "Jan 311:00", "Jan  1 24:00", "Jan  1 1:5", "Jan 01 01:05", "Jan 1 1:234",
        "Jan  1  0000", "Jan  1 0000", "Jan 1 1:05", "ſep  1 10:00", "Sep  1 10:0٣", "Sep ١٢ 10:00",
        "Dec 31 23:59", "Dec 31  9999", "Jan  1  10000", "", " ", "Jan", "Jan 1", "Jan 1 1", "Jan 1 1:", "Jan  1 :00", "12:00",
    ]
    for s in fixed:
        for now in (datetime.datetime(2023, 6, 1, 12, 0, 0), datetime.datetime(2024, 3, 1, 0, 0, 0, 5), datetime.datetime(2101, 1, 1), datetime.datetime(1903, 5, 5), datetime.datetime(2024, 12, 25), datetime.datetime(2025, 6, 1), datetime.datetime(2026, 2, 28, 12, 0, 0), datetime.datetime(2026, 3, 1, 0, 0, 1), datetime.datetime(2026, 2, 28, 23, 59, 59, 999999), datetime.datetime(3, 1, 1), datetime.datetime(9999, 12, 31, 23, 59, 59, 999999)):
            out.append((s, now))
    for _ in range(n):
        if rng.random() < 0.45:
            s = "".join(rng.choice(MALFORMED_ALPHABET) for _ in range(rng.randrange(1, 9)))
        else:
            base = aioftp.Server.build_list_mtime(rng.randrange(0, 4102444800), rng.randrange(0, 4102444800))
            l = list(base)
            for _ in range(rng.randrange(1, 3)):
                j = rng.randrange(len(l) + 1)
                op = rng.random()
                if op < 0.4 and l:
                    l[min(j, len(l) - 1)] = rng.choice(MALFORMED_ALPHABET)
                elif op < 0.7:
                    l.insert(j, rng.choice(MALFORMED_ALPHABET))
                elif l:
                    del l[min(j, len(l) - 1)]
            s = "".join(l)
        now = EPOCH + datetime.timedelta(seconds=rng.randrange(-2 * 10**9, 4 * 10**9), microseconds=rng.choice([0, 0, 7]))
        out.append((s, now))
    return out


# ------------------------------------------------------------------------------------------------
# implementation runners (must be called inside a Zone)
# ------------------------------------------------------------------------------------------------
def impl_roundtrip(case, off):
    import aioftp

    res, mt, nowt, skew, us, _ = case
    m = mt / res
    now = nowt / res
    s = aioftp.Server.build_list_mtime(m, now)
    nprime = nowt // res + skew
    nowdt = local_dt(nprime, off).replace(microsecond=us)
    try:
        r = aioftp.Client.parse_ls_date(s, now=nowdt)
        err = None
    except Exception as e:  # noqa
        r, err = None, type(e).__name__
    return s, nowdt, r, err


def oracle_roundtrip(case, off, s, r, err):
    """the property, on implementation output only; returns (signature, what) or None; also classification"""
    res, mt, nowt, skew, us, _ = case
    mfloor = mt // res
    loc = local_dt(mfloor, off)
    minute = loc.strftime("%Y%m%d%H%M") + "00"
    day = loc.strftime("%Y%m%d") + "000000"
    # exact rational comparisons on ticks
    recent = nowt - H * res < mt <= nowt
    in_window = recent and not (nowt - (H - W) * res < mt)
    if len(s) != 12 or s[0].isspace() or s != s.strip():
        return SIG_SHAPE, "date column %r is not 12 characters without outer blanks" % s, "shape"
    if err is not None:
        return SIG_EXC, "parse_ls_date(%r) raised %s" % (s, err), "exc"
    if not recent:
        if r != day:
            return SIG_OLD, "mtime outside the half-year interval: expected day %s, got %s (column %r)" % (day, r, s), "old"
        return None, None, "old"
    if in_window:
        return None, None, ("window-wrong" if r != minute else "window-right")
    if r != minute:
        return SIG_RECENT, "recent mtime outside the window: expected minute %s, got %s (column %r)" % (minute, r, s), "recent"
    return None, None, "recent"


def enc_dt(d):
    return "%d %d %d %d %d %d %d" % (d.year, d.month, d.day, d.hour, d.minute, d.second, d.microsecond)


def case_doc(zone, off, case):
    res, mt, nowt, skew, us, tag = case
    return {"kind": "roundtrip", "tz": zone, "off": off, "res": res, "mt": mt, "nowt": nowt, "skew": skew, "us": us, "tag": tag,
            "mtime": mt / res, "now": nowt / res}


# ------------------------------------------------------------------------------------------------
# the run
# ------------------------------------------------------------------------------------------------
def _run(ctx, oracle_only=False, big=None):
    import aioftp

    res = Result()
    lines = []
    expect = []
    meta = []
    if big is None:
        big = ctx.thorough()
    zones = ZONES_THOROUGH if big else ZONES_QUICK
    cases = gen_date_cases(ctx, big)
    nontrivial_tags = {"lattice", "boundary-H", "boundary-now", "boundary-W", "newyear", "leapday", "leapday-now", "future", "year-old"}

    def fail(sig, what, inp):
        if res.distribution.get("oracle_fail:" + sig, 0) < 25:  # cap per signature, so known classes never crowd out new ones
            res.oracle_failures.append({"input": inp, "what": what, "signature": sig})
        res.count("oracle_fail:" + sig)

    for zi, (zone, off) in enumerate(zones):
        with Zone(zone):
            assert -time.timezone == off and not time.daylight, (zone, time.timezone)
            # rotate the bulk over the zones, keep boundary classes in every zone
            for ci, case in enumerate(cases):
                tag = case[5]
                if tag in ("random", "lattice", "year-recent", "year-old") and (ci % len(zones)) != zi:
                    continue
                s, nowdt, r, err = impl_roundtrip(case, off)
                sig, what, cls = oracle_roundtrip(case, off, s, r, err)
                res.cases += 1
                res.count("date:" + tag)
                res.count("class:" + cls)
                res.count("zone:" + zone)
                res.count("res=%d" % case[0])
                mloc = local_dt(case[1] // case[0], off)
                if tag in nontrivial_tags or mloc.year != nowdt.year or mloc.day < 10 or (mloc.month, mloc.day) == (2, 29) or case[0] != 1:
                    res.distinct.add((zone,) + case[:4])
                if mloc.year != nowdt.year and cls == "recent":
                    res.count("recent-across-new-year")
                if (mloc.month, mloc.day) == (2, 29):
                    res.count("mtime-on-feb29")
                if sig:
                    fail(sig, what, case_doc(zone, off, case))
                if len(res.samples) < 4 and tag in ("newyear", "boundary-H", "leapday", "future") and ci % 7 == 0:
                    res.samples.append({"tz": zone, "mtime": case[1] / case[0], "now": case[2] / case[0], "client_now": str(nowdt), "column": s, "parsed": r or err})
                lines.append("calendar roundtrip %d %d %d %d %s" % (case[0], off, case[1], case[2], enc_dt(nowdt)))
                expect.append(enc_str(s) + " " + ("ok " + enc_str(r) if err is None else err))
                meta.append(case_doc(zone, off, case))
            # MLSx / gmtime (zone must not matter for gmtime: that is part of the check)
            rng = ctx.rng
            ts = [0, -1, 59, 86399, 86400, utc(2000, 2, 29), utc(2000, 3, 1) - 1, utc(2100, 2, 28, 23, 59, 59), utc(2100, 3, 1), utc(1900, 3, 1), utc(1900, 2, 28, 23, 59, 59), 2**31 - 1, 2**31, utc(9999, 12, 31, 23, 59, 59), utc(1000, 1, 1)]
            ts += [rng.randrange(utc(1000, 1, 1), utc(9999, 12, 31)) for _ in range(ctx.pick(1500, 20000))]
            ts += [rng.randrange(utc(1969, 1, 1), utc(2101, 1, 1)) for _ in range(ctx.pick(1500, 20000))]
            for t in ts:
                rs = rng.choice([1, 1, 2, 1024])
                tt = t * rs + rng.randrange(rs)
                try:
                    got = aioftp.Server._format_mlsx_time(tt / rs)
                except Exception as e:  # noqa
                    got = "raised %s: %s" % (type(e).__name__, e)
                want = (EPOCH + datetime.timedelta(seconds=t)).strftime("%Y%m%d%H%M%S")
                res.cases += 1
                res.count("mlsx")
                if t < 0 or rs != 1:
                    res.distinct.add(("mlsx", zone, tt, rs))
                if got != want:
                    fail(SIG_MLSX, "_format_mlsx_time(%r) = %s, expected %s" % (tt / rs, got, want), {"kind": "mlsx", "tz": zone, "res": rs, "tt": tt})
                lines.append("calendar mlsx %d %d" % (rs, tt))
                expect.append("ok " + enc_str(got))
                meta.append({"kind": "mlsx", "tz": zone, "res": rs, "tt": tt})
                if rs == 1:
                    g = time.gmtime(t)
                    lines.append("calendar gmtime %d" % t)
                    expect.append("%d %d %d %d %d %d" % tuple(g[:6]))
                    meta.append({"kind": "gmtime", "tz": zone, "t": t})
            if zi == 0:
                # malformed parse_ls_date inputs (zone-independent: now is passed in)
                for s, now in gen_malformed(ctx, ctx.pick(25000, 150000)):
                    try:
                        r = "ok " + enc_str(aioftp.Client.parse_ls_date(s, now=now))
                    except ValueError:
                        r = "ValueError"
                    except Exception as e:  # noqa
                        r = "Other:" + type(e).__name__
                    res.cases += 1
                    res.count("malformed:" + ("accepted" if r.startswith("ok") else r))
                    res.distinct.add(("malformed", s))
                    lines.append("calendar lsdate %s %s" % (enc_str(s), enc_dt(now)))
                    expect.append(r)
                    meta.append({"kind": "lsdate", "s": s, "now": str(now)})
                # modes
                for ty in (stat.S_IFREG, stat.S_IFDIR, stat.S_IFLNK, stat.S_IFSOCK, stat.S_IFIFO, stat.S_IFCHR, stat.S_IFBLK, 0, 0o030000):
                    for p in range(0, 4096, 1 if ty in (stat.S_IFREG, stat.S_IFDIR) else 37):
                        mode = ty | p
                        fm = stat.filemode(mode)
                        try:
                            pr = aioftp.Client.parse_unix_mode(fm[1:])
                            pe = None
                        except (ValueError, KeyError, IndexError) as e:
                            pr, pe = None, type(e).__name__
                        res.cases += 1
                        res.count("mode")
                        if p >= 512:
                            res.distinct.add(("mode", mode))
                        sticky = bool(p & 0o1000)
                        upper = any(c in "ST" for c in fm)
                        inp = {"kind": "mode", "mode": mode}
                        if pe is not None:
                            fail(SIG_MODE_ST if upper else SIG_MODE, "parse_unix_mode(%r) raised %s (mode %o)" % (fm[1:], pe, mode), inp)
                        elif pr != p:
                            fail(SIG_MODE_T if (sticky and pr == p & ~1) else SIG_MODE, "parse_unix_mode(%r) = %o, backend mode %o" % (fm[1:], pr, p), inp)
                        lines.append("calendar filemode %d" % mode)
                        expect.append(enc_str(fm))
                        meta.append(inp)
                        lines.append("calendar unixmode %s" % enc_str(fm[1:]))
                        expect.append("ok %d" % pr if pe is None else pe)
                        meta.append(inp)
                for _ in range(ctx.pick(3000, 30000)):
                    if rng.random() < 0.7:
                        s = "".join(rng.choice(["rw", "r-", "-w", "--", "--", "rw", "wr", "r", "-"]) + rng.choice("x-sStTxl-") for _ in range(3))
                        if rng.random() < 0.2:
                            s = s[: rng.randrange(len(s) + 1)]
                    else:
                        s = "".join(rng.choice("rwx-sStTl ") for _ in range(rng.choice([9, 9, 9, 9, 8, 10, 3, 0, 12])))
                    try:
                        r = "ok %d" % aioftp.Client.parse_unix_mode(s)
                    except (ValueError, KeyError, IndexError) as e:
                        r = type(e).__name__
                    res.cases += 1
                    res.count("mode-malformed:" + r.split(" ")[0])
                    lines.append("calendar unixmode %s" % enc_str(s))
                    expect.append(r)
                    meta.append({"kind": "unixmode", "s": s})
                # sizes
                for n in [0, 1, 9, 10, 99, 100, 2**31, 2**32, 2**40, 2**40 + 1, 2**63, 2**64] + [rng.randrange(2**40) for _ in range(500)] + [10**k for k in range(20)]:
                    sz = str(n)
                    res.cases += 1
                    res.count("size")
                    if not sz.isdigit() or int(sz) != n:
                        fail(SIG_SIZE, "str(%d) = %r" % (n, sz), {"kind": "size", "n": n})
                    lines.append("calendar decstr %d" % n)
                    expect.append(enc_str(sz))
                    meta.append({"kind": "size", "n": n})
    # regex tables of the running interpreter (what Py/Time.lean transcribes)
    import _strptime

    tre = _strptime.TimeRE()
    want_re = {
        "d": r"(?P<d>3[0-1]|[1-2]\d|0[1-9]|[1-9]| [1-9])",
        "H": r"(?P<H>2[0-3]|[0-1]\d|\d)",
        "M": r"(?P<M>[0-5]\d|\d)",
        "Y": r"(?P<Y>\d\d\d\d)",
    }
    for k, v in want_re.items():
        if tre[k] != v:
            res.notes.append("interpreter's strptime regex for %%%s is %r, the model transcribes %r" % (k, tre[k], v))
    if not oracle_only and ctx.model_ok:
        outs = drive(lines, shards=8)
        res.lines += len(lines)
        for l, e, o, m in zip(lines, expect, outs, meta):
            if e != o:
                if len(res.disagreements) < 20:
                    res.disagreements.append({"correspondence": "Lean model (driver `calendar`) vs live aioftp function", "input": m, "line": l, "model": o, "impl": e})
                else:
                    res.count("more_disagreements")
    res.exhaustive = False
    return res


def correspondence(ctx):
    from props import c07_wire

    from props import c07_clock, c07_faults, c07_foreign, c07_locale

    r = _run(ctx)
    r.merge(c07_wire.run(ctx))
    r.merge(c07_foreign.run(ctx))
    r.merge(c07_clock.run(ctx))
    r.merge(c07_faults.run(ctx))
    r.merge(c07_locale.run(ctx))
    return r


def search(ctx, prior):
    # oracle only: first at the tier's own size, then (nothing found) on the large stream with a third zone
    from props import c07_wire

    from props import c07_clock, c07_faults, c07_foreign, c07_locale

    r = _run(ctx, oracle_only=True)
    r.merge(c07_wire.run(ctx))
    r.merge(c07_foreign.run(ctx))
    r.merge(c07_clock.run(ctx))
    r.merge(c07_faults.run(ctx))
    r.merge(c07_locale.run(ctx))
    known = set()
    try:
        from framework import load_known

        known = {k.get("signature") for k in load_known() if k.get("property") == PID}
    except Exception:  # noqa
        pass
    if not [f for f in r.oracle_failures if f.get("signature") not in known] and not ctx.thorough():
        r.merge(_run(ctx, oracle_only=True, big=True))
    # the inputs on which model and implementation disagreed, re-judged by the oracle
    for d in prior.disagreements:
        inp = d.get("input") or {}
        f = _judge(inp)
        if f:
            r.oracle_failures.append(f)
    return r


def _judge(i):
    """run one stored input through the implementation + oracle; returns a failure dict or None"""
    import aioftp

    kind = i.get("kind")
    if kind == "roundtrip":
        case = (i["res"], i["mt"], i["nowt"], i["skew"], i["us"], i.get("tag", ""))
        with Zone(i["tz"]):
            s, nowdt, r, err = impl_roundtrip(case, i["off"])
        sig, what, _ = oracle_roundtrip(case, i["off"], s, r, err)
        print("implementation: build_list_mtime(%r, %r) = %r ; parse_ls_date(.., now=%s) -> %r" % (i["mt"] / i["res"], i["nowt"] / i["res"], s, nowdt, r or err))
        return {"input": i, "what": what, "signature": sig} if sig else None
    if kind == "mlsx":
        with Zone(i["tz"]):
            got = aioftp.Server._format_mlsx_time(i["tt"] / i["res"])
        want = (EPOCH + datetime.timedelta(seconds=i["tt"] // i["res"])).strftime("%Y%m%d%H%M%S")
        print("implementation: _format_mlsx_time(%r) = %s (expected %s)" % (i["tt"] / i["res"], got, want))
        return {"input": i, "what": "_format_mlsx_time wrong", "signature": SIG_MLSX} if got != want else None
    if kind == "mode":
        mode = i["mode"]
        fm = stat.filemode(mode)
        p = mode & 0o7777
        try:
            pr = aioftp.Client.parse_unix_mode(fm[1:])
        except (ValueError, KeyError, IndexError) as e:
            print("implementation: parse_unix_mode(%r) raised %s" % (fm[1:], type(e).__name__))
            return {"input": i, "what": "parse_unix_mode(%r) raised %s" % (fm[1:], type(e).__name__), "signature": SIG_MODE_ST if any(c in "ST" for c in fm) else SIG_MODE}
        print("implementation: parse_unix_mode(%r) = %o, backend %o" % (fm[1:], pr, p))
        if pr != p:
            return {"input": i, "what": "parse_unix_mode(%r) = %o, backend mode %o" % (fm[1:], pr, p), "signature": SIG_MODE_T if (p & 0o1000 and pr == p & ~1) else SIG_MODE}
    return None


def replay(ctx, doc):
    if doc["failure"]["input"].get("kind") in ("foreign-list-line", "foreign-session"):
        from props import c07_foreign

        return c07_foreign.replay(doc["failure"]["input"])
    if doc["failure"]["input"].get("kind") == "foreign-lc-time":
        from props import c07_locale

        return c07_locale.replay(doc["failure"]["input"])
    if doc["failure"]["input"].get("kind") == "listing-fault" or "late_plan" in doc["failure"]["input"]:
        from props import c07_faults

        return c07_faults.replay(doc["failure"]["input"])
    if doc["failure"]["input"].get("kind") in ("wall-clock-sequence", "server-wall-clock-sequence"):
        from props import c07_clock

        return c07_clock.replay(doc["failure"]["input"])
    if doc["failure"]["input"].get("kind") in ("wire-listing", "wire-special-files", "wire-big-directory", "wire-configured"):
        from props import c07_wire

        return c07_wire.replay(doc["failure"]["input"])
    f = doc.get("failure") or doc.get("replay") or {}
    i = f.get("input", f)
    return _judge(i) is not None


def probe_known(ctx, finding):
    return _judge(finding.get("replay", {})) is not None


# the long-lived process: the same probe session after earlier sessions of the same server (props/history.py)
from props import history as _history  # noqa: E402

correspondence, search, replay = _history.attach(PID, correspondence, search, replay, pasts=['listing-failed-half-way', 'renamed-the-ancestor-of-a-directory-it-had-entered'])


# somebody else's classes: the documented extension points used the way a third party uses them (props/thirdparty.py)
from props import thirdparty as _thirdparty  # noqa: E402

correspondence, search, replay = _thirdparty.attach(PID, correspondence, search, replay)


# somebody else's machine: the same small sessions in other environments, in child processes (props/envs.py)
from props import envs as _envs  # noqa: E402

correspondence, search, replay = _envs.attach(PID, correspondence, search, replay)
