"""Shared pieces of the C08 / C19-client harnesses: name generator, fake streams, function-level access to
the real client/server code (no network), date-oracle recording, canonical encodings for the driver."""
import asyncio
import datetime as _datetime
import io
import pathlib
import sys
import types

from framework import enc_bytes, enc_str, enc_strs

# ------------------------------------------------------------------------------------------------
# names
# ------------------------------------------------------------------------------------------------
PY_WS = ["\t", "\x0b", "\x0c", "\x1c", "\x1d", "\x1e", "\x1f", " ", "\x85", "\xa0", "\u1680", "\u2000", "\u2003", "\u2028", "\u2029", "\u202f", "\u205f", "\u3000"]
COMBINING = ["e\u0301", "\u0301x", "a\u0308\u0323", "\u200d", "\ufeff"]
ASTRAL = ["\U0001f600", "\U00010348", "\U0010ffff", "\U000e0001"]
PLAIN = ["a", "b", "foo", "bar.txt", "x1", "Z", "\xe9", "\xdf", "\u0130", "\u017f", "\u212a"]
ALPHABET9 = ['"', " ", ";", "=", "-", ">", "a", "1", "\u3000"]


def valid_name(n):
    """the property's quantifier, in Python (mirrors Model.ValidName)"""
    return (
        n != ""
        and n not in (".", "..")
        and not any(c in n for c in "/\x00\r\n")
        and not n[-1].isspace()
    )


def fix_valid(n):
    n = "".join(c for c in n if c not in "/\x00\r\n" and not (0xD800 <= ord(c) <= 0xDFFF))
    while n and n[-1].isspace():
        n = n[:-1]
    if n in ("", ".", ".."):
        n = n + "z"
    return n


KINDS = [
    "quote_inner", "quote_double", "quote_lead", "quote_trail", "quote_run", "quote_only",
    "space_run", "lead_space", "lead_uws", "inner_uws", "semi", "eq", "typefact", "arrow",
    "lead_dash", "lead_digits", "code3", "backslash", "percent", "combining", "astral",
    "verbish", "dots", "mixed", "long", "plain", "listline", "tilde_glob",
]


def gen_name(rng, kind=None):
    """one name from the biased generator; returns (kind, name) with name valid"""
    kind = kind or rng.choice(KINDS)
    w = rng.choice(PLAIN)
    w2 = rng.choice(PLAIN)
    if kind == "quote_inner":
        n = w + '"' + w2
    elif kind == "quote_double":
        n = w + '""' + w2
    elif kind == "quote_lead":
        n = '"' * rng.randint(1, 3) + w
    elif kind == "quote_trail":
        n = w + '"' * rng.randint(1, 4)
    elif kind == "quote_run":
        n = w + '"' * rng.randint(3, 5) + w2
    elif kind == "quote_only":
        n = '"' * rng.randint(1, 4)
    elif kind == "space_run":
        n = w + " " * rng.randint(1, 4) + w2 + " " * rng.randint(1, 3) + "c"
    elif kind == "lead_space":
        n = " " * rng.randint(1, 3) + w
    elif kind == "lead_uws":
        n = "".join(rng.choice(PY_WS) for _ in range(rng.randint(1, 2))) + w
    elif kind == "inner_uws":
        n = w + rng.choice(PY_WS) + w2
    elif kind == "semi":
        n = rng.choice([";" + w, w + ";" + w2, w + ";", ";;"])
    elif kind == "eq":
        n = rng.choice(["=" + w, w + "=" + w2, w + "=", "=="])
    elif kind == "typefact":
        n = rng.choice(["Type=dir; " + w, "type=file;size=3; " + w, "Type=dir;", "Size=1;Type=file; " + w + " " + w2, "modify=19700101000000;"])
    elif kind == "arrow":
        n = rng.choice([w + " -> " + w2, "-> " + w, w + " ->", " -> " + w, w + "->" + w2, w + " -> " + w2 + "'"])
    elif kind == "lead_dash":
        n = rng.choice(["-" + w, "--" + w, "-rw-r--r--", "-rw-r--r-- 1 none none 0 Jan  1  1970 " + w, "-", "- " + w])
    elif kind == "lead_digits":
        n = rng.choice(["1" + w, "12 " + w, "007", "0", "4096 Jan  1 00:00 " + w, "٣" + w])
    elif kind == "code3":
        n = rng.choice(["250 " + w, "257-" + w, "150", "226 done", "550", "200-" + w, '257 "' + w + '"'])
    elif kind == "backslash":
        n = rng.choice([w + "\\" + w2, "\\" + w, w + "\\", "\\\\", 'a\\"b', "\\r\\n"])
    elif kind == "percent":
        n = rng.choice(["%" + w, "%41", "%2F", w + "%20" + w2, "%", "%%s", "{0}", "%(x)s"])
    elif kind == "combining":
        n = rng.choice(COMBINING) + rng.choice(["", w])
    elif kind == "astral":
        n = rng.choice(ASTRAL) + rng.choice(["", w, rng.choice(ASTRAL)])
    elif kind == "verbish":
        n = rng.choice(["CDUP", "cwd " + w, "PWD", "MLSD", "LIST -la", "..." , "QUIT", "RNTO " + w])
    elif kind == "dots":
        n = rng.choice(["...", "..a", ".hidden", "a.", ". .", ".. " + w, " .", " ..", "./", ".\\"])
    elif kind == "mixed":
        alpha = ALPHABET9 + ["'", "\\", "%", "\t", "\xa0", "é", "\U0001f600", ".", "<", "M", "d", "l", ","]
        n = "".join(rng.choice(alpha) for _ in range(rng.randint(1, 8)))
    elif kind == "long":
        n = (w + rng.choice(['"', " ", ";", "é", "\U0001f600"])) * rng.randint(20, 60)
    elif kind == "listline":
        n = rng.choice(["drwxr-xr-x 1 none none 0 Jan  1 00:00 " + w, "01-01-20  10:00AM <DIR> " + w, "<DIR> " + w, "M " + w])
    elif kind == "tilde_glob":
        n = rng.choice(["~", "~" + w, "*", "?", "[" + w + "]", "$HOME", "`" + w + "`", "a|b", "a&b", "#" + w, "!" + w])
    else:
        n = w
    return kind, fix_valid(n)


def name_class(n):
    """coarse class used for res.count / res.distinct"""
    cls = []
    if '"' in n:
        cls.append("quote")
    if n and n[0].isspace():
        cls.append("leadws")
    if any(c.isspace() for c in n[1:]):
        cls.append("innerws")
    if ";" in n or "=" in n:
        cls.append("fact")
    if " -> " in n:
        cls.append("arrow")
    if n[:1] == "-":
        cls.append("dash")
    if n[:1].isdigit():
        cls.append("digit")
    if any(ord(c) > 0xFFFF for c in n):
        cls.append("astral")
    elif any(ord(c) > 127 for c in n):
        cls.append("nonascii")
    if "\\" in n or "%" in n:
        cls.append("esc")
    return "+".join(cls) or "plain"


# ------------------------------------------------------------------------------------------------
# encodings for the driver
# ------------------------------------------------------------------------------------------------
def canon_path(p):
    root = len(p.root)
    parts = list(p.parts[1:] if p.root else p.parts)
    return "%d:%s" % (root, enc_strs(parts))


def canon_dict(d):
    flat = []
    for k, v in d.items():
        flat.append(str(k))
        flat.append(str(v))
    return enc_strs(flat)


def canon_entry(r):
    """r = (PurePosixPath, dict) or ('EXC', name)"""
    if isinstance(r, tuple) and len(r) == 2 and r[0] == "EXC":
        return "err:" + r[1]
    return "ok %s %s" % (canon_path(r[0]), canon_dict(r[1]))


MODELLED_ERR = {"ValueError", "UnicodeDecodeError", "KeyError", "IndexError", "AttributeError", "TypeError", "OverflowError"}


def exc_name(e):
    n = type(e).__name__
    return n if n in MODELLED_ERR else "Other:" + n


def lower_modelled(s):
    """Py.lower covers ASCII plus U+212A; other cased non-ASCII characters are not modelled"""
    return all(c.isascii() or c == "K" or c.lower() == c for c in s)


# ------------------------------------------------------------------------------------------------
# fake streams and function-level access to the real code
# ------------------------------------------------------------------------------------------------
class FakeStream:
    def __init__(self, data=b""):
        self.buf = io.BytesIO(data)
        self.out = bytearray()

    async def readline(self):
        return self.buf.readline()

    async def read(self, n=-1):
        return self.buf.read(n)

    async def write(self, b):
        self.out += b

    def close(self):
        pass

    async def finish(self, *a, **k):
        pass

    async def __aenter__(self):
        return self

    async def __aexit__(self, *a):
        return False


class Sentinel(Exception):
    pass


class DateRecorder:
    """records every question the real parsers put to the (C07-owned) date functions, with the real answer"""

    WIN_FMT = "%m/%d/%Y %I:%M %p"

    def __init__(self, aioftp, client):
        self.unix = []
        self.win = []
        self.client = client
        self.aioftp = aioftp
        orig = type(client).parse_ls_date  # bound classmethod

        rec = self

        def parse_ls_date(s, *, now=None):
            try:
                r = orig(s, now=now)
            except Exception as e:  # noqa
                rec.unix += [s, "e" + exc_name(e)]
                raise
            rec.unix += [s, "o" + r]
            return r

        client.parse_ls_date = parse_ls_date

        class DT(_datetime.datetime):
            @classmethod
            def strptime(cls, s, fmt):
                try:
                    r = _datetime.datetime.strptime(s, fmt)
                except Exception as e:  # noqa
                    if fmt == rec.WIN_FMT:
                        rec.win += [s, "e" + exc_name(e)]
                    raise
                if fmt == rec.WIN_FMT:
                    rec.win += [s, "o" + client.format_date_time(r)]
                return r

        shim = types.ModuleType("datetime_shim")
        for k in dir(_datetime):
            if not k.startswith("__"):
                setattr(shim, k, getattr(_datetime, k))
        shim.datetime = DT
        self._orig_mod = aioftp.client.datetime
        aioftp.client.datetime = shim

    def reset(self):
        self.unix = []
        self.win = []

    def restore(self):
        self.aioftp.client.datetime = self._orig_mod
        try:
            del self.client.parse_ls_date
        except AttributeError:
            pass


class Func:
    """function-level handles on the real code: one unstarted Server, one unconnected Client"""

    def __init__(self):
        import aioftp

        self.aioftp = aioftp
        self.server = aioftp.Server(path_io_factory=aioftp.MemoryPathIO)
        self.client = aioftp.Client()
        self.rec = DateRecorder(aioftp, self.client)

    def close(self):
        self.rec.restore()

    # ---- client command construction -----------------------------------------------------------
    async def client_commands(self, method, *args, **kw):
        """run a real client method with `command`/`get_stream` replaced by recorders; returns the
        list of command strings it tried to send"""
        aioftp = self.aioftp
        sent = []
        client = self.client

        async def fake_command(command=None, expected_codes=(), wait_codes=(), censor_after=None):
            sent.append(command)
            verb = (command or "").split(" ")[0]
            if verb == "MLST":
                raise aioftp.StatusCodeError("2xx", aioftp.Code("550"), ["path does not exists"])
            code = {"CWD": "250", "CDUP": "250", "MKD": "257", "RMD": "250", "RNFR": "350", "RNTO": "250", "DELE": "250"}.get(verb, "200")
            return aioftp.Code(code), [""]

        def fake_get_stream(*command_args, conn_type="I", offset=0):
            sent.append(command_args[0])
            raise Sentinel()

        client.command = fake_command
        client.get_stream = fake_get_stream
        try:
            r = getattr(client, method)(*args, **kw)
            if asyncio.iscoroutine(r) or hasattr(r, "__await__"):
                await r
        except Sentinel:
            pass
        except aioftp.StatusCodeError:
            pass
        finally:
            del client.command
            del client.get_stream
        return sent

    # ---- server command parsing ----------------------------------------------------------------
    async def parse_command(self, line_bytes):
        return await self.server.parse_command(FakeStream(line_bytes))

    def get_paths(self, cwd, rest, base="/srv"):
        aioftp = self.aioftp
        conn = aioftp.server.Connection(current_directory=pathlib.PurePosixPath(cwd), user=aioftp.User(base_path=base))
        return aioftp.Server.get_paths(conn, rest)

    # ---- replies ------------------------------------------------------------------------------
    async def reply_bytes(self, code, lines, list_mode=False):
        st = FakeStream()
        await self.server.write_response(st, code, lines, list_mode)
        return bytes(st.out)

    async def client_parse_response(self, data):
        self.client.stream = FakeStream(data)
        try:
            return await self.client.parse_response()
        finally:
            self.client.stream = None

    async def pwd_reply(self, cwd):
        """real Server.pwd for a logged-in connection at `cwd` -> (code, info) as queued"""
        aioftp = self.aioftp
        out = []
        conn = aioftp.server.Connection(current_directory=cwd, logged=True, response=lambda *a: out.append(a))
        await self.server.pwd(conn, "")
        return out[0]

    # ---- listings -----------------------------------------------------------------------------
    def mem_with(self, name, typ, mtime, size=0):
        aioftp = self.aioftp
        pio = aioftp.MemoryPathIO()
        content = [] if typ == "dir" else io.BytesIO(b"x" * size)
        pio.fs[0].content.append(aioftp.pathio.Node(typ, name, ctime=mtime, mtime=mtime, content=content))
        conn = aioftp.server.Connection(path_io=pio)
        return pio, conn

    async def client_list(self, lines, path="", raw_command=None):
        """real Client.list over a fake data stream delivering `lines` (bytes, each with its terminator)"""
        client = self.client

        def fake_get_stream(*command_args, conn_type="I", offset=0):
            async def mk():
                return FakeStream(b"".join(lines))

            return mk()

        client.get_stream = fake_get_stream
        try:
            return await client.list(path, raw_command=raw_command)
        finally:
            del client.get_stream


class _NullWriter:
    """the write half of a data connection nobody listens to"""

    def write(self, b):
        pass

    async def drain(self):
        pass

    def close(self):
        pass

    async def wait_closed(self):
        pass

    def get_extra_info(self, *a, **k):
        return None


async def client_list_real_stream(F, data, path="", raw_command=None, limit=2**16):
    """real Client.list over a REAL data stream: the library's own stream class on an asyncio.StreamReader (with its
    line limit) that delivers `data` and then end of stream - so the library's readline wrapper is in the path"""
    import aioftp

    client = F.client

    def fake_get_stream(*command_args, conn_type="I", offset=0):
        async def mk():
            reader = asyncio.StreamReader(limit=limit)
            reader.feed_data(data)
            reader.feed_eof()
            stream = aioftp.common.ThrottleStreamIO(reader, _NullWriter(), throttles={}, timeout=None)

            async def finish(*a, **k):
                stream.close()

            stream.finish = finish
            return stream

        return mk()

    client.get_stream = fake_get_stream
    try:
        return await client.list(path, raw_command=raw_command)
    finally:
        del client.get_stream


def hexb(b):
    return enc_bytes(b)
