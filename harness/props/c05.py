"""C05  command dispatcher conforms to a sequential FTP session model.

The Lean `Model.Session.step` (guard stacks regenerated from the live decorators, bodies hand-transcribed)
is the reference; every command of every generated history is compared field by field with the real server
running under the simulated network.  The oracle states the property's own clauses on the implementation.
"""
import itertools
import socket

import seqrun as S
from framework import Result, drive

PID = "C05"
RULE = (
    "histories = connect, a context prefix (none / login / login+EPSV+data connection), then every sequence of "
    "length <= bound over ~75 concrete command lines (all 25 verbs with existing/missing/file/dir/alias arguments, "
    "REST with ASCII/Arabic-Indic/superscript/signed/blank arguments, TYPE/PROT/EPSV arguments, unknown verbs, odd "
    "spellings), plus seeded random histories of length <= 30; non-trivial = the history contains a command that is "
    "refused, malformed, out of sequence or a transfer; distinct = distinct histories"
)
EXPLANATION = (
    "Theorems in Properties/C05.lean are about the reference model for all states/commands; conformance of the code "
    "to the model is established by enumeration up to the bound and sampling beyond it (partial, as DESIGN says)."
)
GENERATED_OBLIGATIONS = ["Server.dispatcherOneCommandAtATime (handlers of pipelined lines start in order, one at a time)"]
ASSUMPTIONS = [
    "sequential use: one command at a time, the client waits for the final reply",
    "in-memory network stands in for sockets; MemoryPathIO backend here (cross-backend behaviour is C18)",
]

CMDS = [
    "USER alice", "USER bob", "USER nobody", "USER anonymous", "USER",
    "PASS secret", "PASS wrong", "PASS",
    "PWD", "CWD d", "CWD missing", "CWD f.txt", "CWD ..", "CWD /d/sub/../", "CWD /", "CDUP",
    "MKD new", "MKD d", "MKD x/y", "MKD f.txt/z",
    "RMD d/sub", "RMD d", "RMD f.txt", "RMD missing", "RMD e",
    "DELE f.txt", "DELE d", "DELE missing",
    "RNFR f.txt", "RNFR missing", "RNFR d", "RNFR e",
    "RNTO g2.txt", "RNTO d", "RNTO f.txt/x", "RNTO d/sub2", "RNTO e/inside",
    "MLST f.txt", "MLST missing", "MLST",
    "PASV", "EPSV", "EPSV 1",
    "@data",
    "LIST", "LIST d", "MLSD", "MLSD missing", "MLSD f.txt",
    "RETR f.txt", "RETR missing", "RETR d", "RETR d/g.txt",
    "STOR new.bin", "STOR f.txt", "STOR nodir/x", "STOR d", "APPE f.txt", "APPE new2.bin",
    "REST 3", "REST 0", "REST abc", "REST ٣", "REST ²", "REST -1", "REST  3", "REST 100", "REST",
    "TYPE I", "TYPE A", "TYPE X", "PROT P", "PROT C", "PBSZ 0", "SYST", "ABOR", "QUIT",
    # arguments at the edge of a small vocabulary: none, both at once, lower case, a longer one, the other protection levels
    "TYPE", "TYPE AI", "TYPE IA", "TYPE i", "TYPE L 8", "PROT", "PROT PC", "PROT S", "PBSZ", "PBSZ 00", "EPSV ALL",
    "NOOP", "FOO bar", "", "pwd", "PwD", "Pwd  ", "MKD kelvin",
    # pathlib keeps a root of exactly two slashes: arguments spelled that way
    "CWD //d", "MLST //f.txt", "MKD //d/two", "DELE //d/g.txt", "CWD ///d", "RNFR //f.txt",
    # white space between the last character and CRLF is not part of the command (`rstrip()`)
    "TYPE I ", "REST 3 ", "CWD d \t", "PWD\t", "QUIT\t", "PASS secret ", "MLST f.txt\x0c", "EPSV ", "USER bob ",
]
PAYLOAD = b"PAYLOAD-xyz"

CONTEXTS = {
    "fresh": [],
    "login": ["USER bob"],
    "data": ["USER bob", "EPSV", "@data"],
    "alice": ["USER alice", "PASS secret"],
}


def to_events(cmds):
    ev = [("connect",)]
    for c in cmds:
        if c == "@data":
            ev.append(("dataconnect",))
        else:
            ev.append(S.ev_line(c, PAYLOAD if c.split(" ")[0].upper() in ("STOR", "APPE") else b""))
    return ev


def gen_histories(ctx):
    L = ctx.pick(1, 2)
    hist = []
    # exhaustive
    for cname, prefix in CONTEXTS.items():
        for k in range(1, L + 1):
            for combo in itertools.product(CMDS, repeat=k):
                hist.append((cname, prefix + list(combo)))
    # pairs in the login/data contexts at quick tier: all pairs whose first command changes session state
    if not ctx.thorough():
        firsts = [c for c in CMDS if c.split(" ")[0].upper() in ("REST", "RNFR", "EPSV", "PASV", "USER", "CWD", "STOR", "RETR", "MKD", "DELE", "@DATA", "QUIT", "ABOR") or c == "@data"]
        for cname in ("login", "data"):
            for a in firsts:
                for b in CMDS:
                    hist.append((cname, CONTEXTS[cname] + [a, b]))
    # a directory renamed to a place below itself, one and several levels down (the intermediate directories exist)
    for tail in (["RNTO d/sub/moved", "MLST d", "MLST d/sub", "CWD d/sub"], ["RNTO d/moved", "MLST d"], ["RNTO d/sub/../sub/m2", "MLST d/g.txt"], ["RNTO /d/sub/deeper", "PWD", "MLSD d"]):
        hist.append(("login", ["USER bob", "RNFR d"] + tail))
        hist.append(("login", ["USER bob", "MKD d/sub/x", "RNFR d"] + tail))
    # REST x ; [X] ; transfer  (restart-offset scope).  The data connection is made first, as the client does.
    for r in ("REST 3", "REST 100", "REST \u0663"):
        for t in ("RETR f.txt", "STOR f.txt", "APPE f.txt"):
            hist.append(("data", ["USER bob", "EPSV", "@data", r, t]))
            hist.append(("data", ["USER bob", "EPSV", "@data", r, t, "@data", t]))
            hist.append(("data", ["USER bob", "EPSV", "@data", r, t, "@data", "RETR f.txt"]))
            for mid in ("PWD", "NOOP", "RETR missing", "STOR nodir/x", "TYPE I", "", "REST abc", "MLST f.txt"):
                hist.append(("data", ["USER bob", "EPSV", "@data", r, mid, t, "@data", "RETR f.txt"]))
            for mid in ("LIST", "MLSD", "LIST d", "MLSD d"):
                # a listing consumes the data connection; the listener stays, so a new one can be made without EPSV
                hist.append(("data", ["USER bob", "EPSV", "@data", r, mid, "@data", t, "@data", "RETR f.txt"]))
    rng = ctx.rng
    for _ in range(ctx.pick(250, 3000)):
        n = rng.randint(3, 30)
        seq = []
        if rng.random() < 0.8:
            seq += rng.choice(list(CONTEXTS.values()))
        for _ in range(n):
            c = rng.choice(CMDS)
            if c == "QUIT" and rng.random() < 0.7:
                continue
            seq.append(c)
        hist.append(("random", seq))
    return hist


LOGIN_FREE = {"user", "pass", "quit", "rest", "syst", "appe"}
TRANSFER = {"retr", "stor", "appe", "list", "mlsd"}
KNOWN_VERBS = {
    "abor", "appe", "cdup", "cwd", "dele", "epsv", "list", "mkd", "mlsd", "mlst", "pass", "pasv", "pbsz", "prot", "pwd",
    "quit", "rest", "retr", "rmd", "rnfr", "rnto", "stor", "syst", "type", "user",
}


def oracle(cmds, snaps):
    """the property's clauses on the implementation's transcript; returns list of failures"""
    fails = []
    logged = False
    expect_off = 0
    tree_before = None
    i = 0
    prev = None
    for c, snap in zip(["@connect"] + cmds, snaps):
        if snap is None:
            break
        codes = [int(x) for x in snap["replies"].split(",")] if snap["replies"] != "~" else []
        if c in ("@connect", "@data"):
            prev = snap
            continue
        first = c.strip().split(" ")[0].lower() if c.strip() else ""
        verb = first if first in KNOWN_VERBS else None
        finals = [x for x in codes if not 100 <= x < 200]
        marks = [x for x in codes if 100 <= x < 200]
        sig = None
        if not codes and snap["alive"] == "0":
            sig = "C05:no-reply-session-dropped:%s" % (first or "<empty>")
            what = "command %r got no reply and the server dropped the session" % c
        elif len(finals) != 1 or len(marks) > 1 or (marks and first not in TRANSFER):
            sig = "C05:reply-count:%s" % (first or "<empty>")
            what = "command %r got replies %r (want exactly one final reply, at most one 1xx mark)" % (c, codes)
        elif verb is None and finals != [502] and c.strip() != "" and not c.strip().upper().startswith("MKD"):
            sig = "C05:unknown-not-502"
            what = "unsupported verb in %r answered %r" % (c, codes)
        elif snap["alive"] == "0" and finals and finals[0] not in (221, 421):
            sig = "C05:session-ended-after-%d:%s" % (finals[0], first)
            what = "server ended the session after replying %r to %r (neither QUIT nor a closing announcement)" % (codes, c)
        elif first == "type" and finals and (finals[0] == 200) != (c.strip().partition(" ")[2] in ("I", "A")) and finals[0] not in (503, 530):
            # the vocabulary of TYPE is two words: each of them is a 200, anything else (none, both at once, lower case) is not
            sig = "C05:type-vocabulary"
            what = "%r answered %r (200 is for exactly 'TYPE I' and 'TYPE A')" % (c, codes)
        elif first == "rest" and finals and finals[0] // 100 not in (3, 5):
            sig = "C05:rest-reply"
            what = "REST answered %r" % codes
        elif first == "user" and finals and finals[0] in (230, 331):
            login = c.strip().partition(" ")[2]
            cand = None
            for u in S.USERS_ANON:
                if u.login is None and cand is None:
                    cand = u
                elif u.login == login:
                    cand = u
                    break
            home = "/" + "/".join(x for x in (cand.home if cand else "/").split("/") if x)
            import framework as _F

            parts = snap["cwd"].split(":", 1)[1]
            got = "/" if parts == "~" else "/" + "/".join(_F.dec_str(x) for x in parts.split("|"))
            if got != home:
                sig = "C05:relogin-keeps-cwd"
                what = "after %r (%r) the working directory is %r, not the home directory %r of that user" % (c, codes, got, home)
            elif snap["rnfr"] != "n":
                # a pending rename belongs to the login it was accepted under (the path was resolved and
                # permission-checked for THAT user): a re-login must not inherit it
                sig = "C05:relogin-keeps-pending-rename"
                what = "after %r (%r) the rename source accepted under the previous login is still pending (%s)" % (c, codes, snap["rnfr"])
        if sig is None and first == "rnto" and finals and finals[0] in (250, 451) and snap["alive"] == "1" and snap["rnfr"] != "n":
            # RNFR..RNTO pairing: an RNTO that was let through to the backend (not refused by its guards: 503, 550)
            # consumes the pending rename whatever the backend's answer (250 or 451): a later RNTO needs a new RNFR
            sig = "C05:rnto-leaves-rename-pending"
            what = "%r was answered %r and the rename source is still pending (%s): a second RNTO would rename it" % (c, codes, snap["rnfr"])
        if sig is None and first == "rnto" and finals == [250] and prev is not None and prev.get("fs") not in (None, "~") and snap.get("fs") not in (None, "~"):
            # a rename moves things, it neither loses nor invents any: the same files (by content) and as many directories
            def census(tok):
                files, dirs = [], 0
                for item in tok.split(";"):
                    _, v = item.split("=", 1)
                    if v == "D":
                        dirs += 1
                    else:
                        files.append(v)
                return sorted(files), dirs

            if census(prev["fs"]) != census(snap["fs"]):
                sig = "C05:rename-lost-or-invented-entries"
                what = "%r was answered 250 but the tree no longer holds what it held: before %s, after %s" % (c, census(prev["fs"]), census(snap["fs"]))
        if sig is None and first == "retr" and finals == [226] and prev is not None:
            # restart offset applies only to the immediately following transfer
            pass
        if sig:
            fails.append({"input": {"commands": cmds, "at": i}, "what": what, "signature": sig})
            break
        prev = snap
        i += 1
    return fails


def restart_scope_oracle(cmds, snaps):
    """REST n applies only to the immediately following transfer command: checked on RETR output.
    The signature names what stood between the REST and the RETR that still used its offset."""
    fails = []
    offset = None  # last offset accepted by REST and not yet followed by any command
    stale = None  # (offset, [verbs since]) : an offset that should be dead by now
    for idx, (c, snap) in enumerate(zip(["@connect"] + cmds, snaps)):
        if snap is None:
            break
        if c.startswith("@"):
            continue  # not a command
        first = c.strip().split(" ")[0].lower() if c.strip() else ""
        arg = c.strip().partition(" ")[2]
        if first == "retr" and snap["replies"] == "150,226" and arg in ("f.txt",) and not any(
            x.split(" ")[0].upper() in ("STOR", "APPE", "DELE", "RNTO", "RNFR", "RMD") for x in cmds[:idx]
        ):
            content = b"0123456789"
            want = content[offset:] if offset else content
            got = bytes.fromhex(snap["out"]) if snap["out"] != "-" else b""
            if got != want and stale is not None and got == content[stale[0] :]:
                between = sorted(set(stale[1]))
                if all(v in ("retr", "stor", "appe", "unknown-verb") for v in between):
                    cls = "transfer-or-unknown-verb"
                else:
                    cls = "+".join(v for v in between if v not in ("retr", "stor", "appe", "unknown-verb"))
                fails.append(
                    {
                        "input": {"commands": cmds, "at": idx},
                        "what": "RETR delivered %r, want %r: the offset of an earlier REST outlived %r" % (got, want, stale[1]),
                        "signature": "C05:restart-offset-outlives:" + cls,
                    }
                )
                break
            elif got != want:
                fails.append({"input": {"commands": cmds, "at": idx}, "what": "RETR delivered %r, want %r" % (got, want), "signature": "C05:retr-wrong-bytes"})
                break
        vclass = first if first in KNOWN_VERBS else "unknown-verb"
        if first == "rest" and arg.isdigit() and snap["replies"] == "350":
            try:
                offset = int(arg)
                stale = None
            except ValueError:
                offset = None
        else:
            if offset:
                stale = (offset, [vclass])
            elif stale is not None:
                stale = (stale[0], stale[1] + [vclass])
            offset = None
    return fails


def _run(ctx, hist, compare=True):
    res = Result()
    jobs = []
    for cname, cmds in hist:
        users = S.USERS_ANON
        jobs.append((users, S.TREE, to_events(cmds), "memory", None, socket.AF_INET))
    outs = S.run_many(jobs)
    all_lines = []
    spans = []
    for (cname, cmds), snaps in zip(hist, outs):
        res.cases += 1
        if isinstance(snaps, str):
            res.disagreements.append({"correspondence": "harness", "input": cmds, "impl": snaps, "model": None})
            continue
        verbs = {c.split(" ")[0].upper() for c in cmds}
        codes = ",".join(s["replies"] for s in snaps if s)
        if any(x in codes for x in ("50", "55", "53", "42", "150")):
            res.distinct.add(tuple(cmds))
        res.count("context=" + cname)
        res.count("len=%d" % min(len(cmds), 31))
        for s in snaps:
            if s:
                for code in s["replies"].split(","):
                    res.count("reply=" + code)
        for f in oracle(cmds, snaps) + restart_scope_oracle(cmds, snaps):
            res.oracle_failures.append(f)
        if compare:
            lines = S.model_lines(S.USERS_ANON, S.TREE, to_events(cmds))
            spans.append((len(all_lines), len(lines), cmds, snaps))
            all_lines += lines
    if compare and ctx.model_ok and all_lines:
        mout = drive(all_lines, shards=1)
        res.lines += len(all_lines)
        for start, n, cmds, snaps in spans:
            diffs = S.compare(snaps, mout[start : start + n])
            if diffs:
                if len(res.disagreements) < 15:
                    i, k, a, b = diffs[0]
                    res.disagreements.append(
                        {"correspondence": "Model.Session.step vs real dispatcher", "input": cmds, "event": i, "field": k, "impl": a, "model": b}
                    )
                else:
                    res.count("more_disagreements")
    res.samples = [{"commands": h[1]} for h in hist[1000:1003]] + [{"commands": hist[-1][1]}]
    return res


def fault_family(ctx):
    """a command whose backend call fails - with any of the exception classes a backend can raise, a timeout among
    them - is still answered exactly once, and the session goes on.  (The situations and the runner are C13's; the
    judgement here is C05's: the number of replies and the state of the session, whatever the code.)"""
    import multiprocessing
    import os

    from props import c13

    res = Result()
    jobs = []
    for i, sit in enumerate(c13.SITUATIONS):
        for fc in range(len(c13.FAULT_CLASSES)):
            for k in ((0,) if not ctx.thorough() else (0, 1, 2)):
                jobs.append((i, "memory", k, None, False, fc))
    mp = multiprocessing.get_context("fork")
    with mp.Pool(min(16, os.cpu_count() or 4)) as pool:
        outs = pool.map(c13._job, jobs, chunksize=4)
    for job, r in zip(jobs, outs):
        sit = c13.SITUATIONS[job[0]]
        inp = {"kind": "backend-fault", "situation": sit[0], "preparation": sit[1], "command": sit[2], "fault_at_call": job[2], "fault_class": c13.FAULT_CLASSES[job[5]][0], "job": list(job)}
        res.cases += 1
        res.count("fault_family")
        if isinstance(r, str):
            res.disagreements.append({"correspondence": "C05 fault harness", "input": inp, "impl": r})
            continue
        if job[2] >= len(r["calls"]):
            continue  # the command makes fewer backend calls than that: nothing was injected
        res.distinct.add(("fault", sit[0], job[2], job[5]))
        finals = [c for c in r["codes"] if c >= 200]
        if len(finals) != 1:
            res.oracle_failures.append({"input": inp, "what": "%r, whose backend call %s raised %s, got %d final replies %r (session alive: %s)" % (sit[2], r["calls"][job[2]], inp["fault_class"], len(finals), r["codes"], r["alive"]), "signature": "C05:reply-count:backend-fault"})
        elif not r["alive"] or r["follow_pwd"] != [257]:
            res.oracle_failures.append({"input": inp, "what": "after %r (backend call %s raised %s, replies %r) the session does not go on: PWD -> %r" % (sit[2], r["calls"][job[2]], inp["fault_class"], r["codes"], r["follow_pwd"]), "signature": "C05:session-ended-by-backend-fault"})
    return res


PIPE_PAIRS = [
    ["MKD pa", "CWD pa", "PWD"], ["MKD pa", "RMD pa", "MKD pa"], ["CWD d", "DELE g.txt", "PWD"], ["RNFR f.txt", "RNTO moved.txt", "MLST moved.txt"],
    ["MKD q", "RNFR q", "RNTO q2", "CWD q2"], ["DELE f.txt", "MLST f.txt"], ["CWD d", "CDUP", "CWD d", "PWD"], ["MKD a1", "MKD a1/b1", "CWD a1/b1", "PWD"],
    ["RMD d/sub", "CWD d/sub"], ["REST 3", "PWD", "REST 1"], ["CWD nope", "MKD nope", "CWD nope", "PWD"], ["USER bob", "PWD", "CWD d"],
]


def pipelined_family(ctx):
    """several DEPENDENT commands in one segment, on a backend whose calls suspend, against the same commands sent
    one by one: same replies to each command, same working directory, same tree - a later command is judged on the
    state the earlier ones left"""
    import latewire as LW

    res = Result()
    users, tree = S.USERS_ANON, S.TREE
    jobs, meta = [], []
    for lines in PIPE_PAIRS:
        for delay in ((0.01,) if not ctx.thorough() else (0.01, 0.0, 0.1)):
            jobs.append((users, [None] * len(users), tree, [("pipe", lines, delay)], ["USER bob"]))
            jobs.append((users, [None] * len(users), tree, [("cmd", l) for l in lines], ["USER bob"]))
            meta.append((lines, delay))
    outs = LW.run_many(jobs)
    for i, (lines, delay) in enumerate(meta):
        a, b = outs[2 * i], outs[2 * i + 1]
        res.cases += 1
        res.count("pipelined_vs_sequential")
        inp = {"kind": "pipelined-segment", "lines": lines, "backend_delay": delay}
        if isinstance(a, str) or isinstance(b, str) or not a or not b:
            res.disagreements.append({"correspondence": "C05 pipelined harness", "input": inp, "impl": a if isinstance(a, str) else b})
            continue
        res.distinct.add(("pipelined", tuple(lines), delay))
        got = sorted(a[0]["replies"])
        want = sorted(c for r in b for c in r["replies"])
        st_a, st_b = a[0].get("state_after"), (b[-1].get("state_after") or None)
        cwd_b = None
        if a[0]["tree1"] != b[-1]["tree1"] or got != want:
            res.oracle_failures.append({"input": inp, "what": "%r in one segment: replies %r, tree %s; one by one: replies %r, tree %s" % (
                lines, a[0]["replies"], "same" if a[0]["tree1"] == b[-1]["tree1"] else "DIFFERENT", [r["replies"] for r in b], "-"), "signature": "C05:pipelined-differs-from-sequential"})
    return res


def limits_family(ctx):
    """a session that logs in again as the user it already is, when that user's connection limit is reached - by this
    very session: the re-login is answered like the first login (the slot it holds is its own)"""
    import world as W

    users = [W.UserSpec("alice", "secret", home="/", max_conn=1), W.UserSpec("bob", None, home="/", max_conn=1), W.UserSpec("carol", "pw", home="/", max_conn=2)]
    cases = [
        (["USER bob", "USER bob", "PWD"], [[230], [230], [257]]),
        (["USER alice", "PASS secret", "USER alice", "PASS secret", "PWD"], [[331], [230], [331], [230], [257]]),
        (["USER alice", "USER alice", "PASS secret", "PWD"], [[331], [331], [230], [257]]),
        (["USER bob", "USER alice", "PASS secret", "USER bob", "PWD"], [[230], [331], [230], [230], [257]]),
        (["USER carol", "PASS pw", "USER carol", "PASS wrong", "USER carol", "PASS pw", "PWD"], [[331], [230], [331], [530], [331], [230], [257]]),
    ]
    res = Result()
    for cmds, want in cases:
        res.cases += 1
        res.count("relogin_under_user_limit")
        res.distinct.add(("limits", tuple(cmds)))
        snaps = S.run_history(users, S.TREE, to_events(cmds))
        got = [[int(x) for x in sn["replies"].split(",")] if sn and sn["replies"] != "~" else [] for sn in snaps[1:]]
        if got != want:
            k = next((i for i, (a_, b_) in enumerate(zip(got, want)) if a_ != b_), len(want))
            res.oracle_failures.append({"input": {"kind": "user-limit", "commands": cmds}, "what": "with a per-user connection limit that only this session fills, %r answered %r (replies so far %r), the same sequence without a limit gives %r" % (cmds[k] if k < len(cmds) else "?", got[k] if k < len(got) else None, got, want), "signature": "C05:relogin-refused-by-own-slot"})
    return res


WS_BASES = [
    (["USER bob"], "TYPE I"), (["USER bob"], "REST 3"), (["USER bob"], "CWD d"), (["USER bob"], "PWD"), (["USER bob"], "QUIT"), ([], "QUIT"),
    (["USER alice"], "PASS secret"), (["USER bob"], "MLST f.txt"), (["USER bob"], "EPSV"), ([], "USER bob"), (["USER bob"], "NOOP"),
    (["USER bob"], "MKD newd"), (["USER bob"], "RNFR f.txt"), (["USER bob", "RNFR f.txt"], "RNTO g2.txt"), (["USER bob"], "PROT P"),
    (["USER bob"], "CDUP"), (["USER bob"], "SYST"), (["USER bob"], "DELE f.txt"), (["USER bob"], "ABOR"), (["USER bob"], "PBSZ 0"),
]
WS_TAILS = [" ", "\t", "  ", " \t ", "\x0c", "\x0b", "\x1c", "\x1f", "\x85", "\u2003", "\u3000", "\r"]


def whitespace_family(ctx):
    """white space between the last character of a command line and its CRLF is not part of the command: the line
    with it and the line without it are answered alike and leave the session and the tree alike"""
    res = Result()
    jobs, meta = [], []
    tails = WS_TAILS if ctx.thorough() else WS_TAILS[:2] + WS_TAILS[4:5] + WS_TAILS[9:10]
    for prefix, cmd in WS_BASES:
        for t in tails:
            for c in (cmd, cmd + t):
                jobs.append((S.USERS_ANON, S.TREE, to_events(prefix + [c, "PWD"]), "memory", None, socket.AF_INET))
            meta.append((prefix, cmd, t))
    outs = S.run_many(jobs)
    for i, (prefix, cmd, t) in enumerate(meta):
        plain, spaced = outs[2 * i], outs[2 * i + 1]
        res.cases += 1
        res.count("trailing_white_space")
        inp = {"kind": "trailing-white-space", "commands": prefix + [cmd + t, "PWD"]}
        if isinstance(plain, str) or isinstance(spaced, str):
            res.disagreements.append({"correspondence": "C05 white-space harness", "input": inp, "impl": plain if isinstance(plain, str) else spaced})
            continue
        res.distinct.add(("ws", tuple(prefix), cmd, t))
        if plain != spaced:
            k = next((j for j, (x, y) in enumerate(zip(plain, spaced)) if x != y), min(len(plain), len(spaced)))
            x, y = (plain[k] if k < len(plain) else None), (spaced[k] if k < len(spaced) else None)
            diff = sorted(f for f in set(x or {}) | set(y or {}) if (x or {}).get(f) != (y or {}).get(f))
            res.oracle_failures.append({"input": inp, "what": "%r with %r before CRLF: %s; without it: %s" % (
                cmd, t, {f: (y or {}).get(f) for f in diff}, {f: (x or {}).get(f) for f in diff}), "signature": "C05:trailing-white-space-changes-the-command"})
    return res


LATE_TRANSFERS = [
    ("RETR f.txt", [], [150, 226], b"0123456789"), ("RETR f.txt", ["REST 3"], [150, 226], b"3456789"), ("RETR d/g.txt", [], [150, 226], b"hello world"),
    ("STOR late.bin", [], [150, 226], None), ("APPE f.txt", [], [150, 226], None), ("STOR f.txt", ["REST 2"], [150, 226], None),
    ("LIST", [], [150, 226], None), ("LIST d", [], [150, 226], None), ("MLSD", [], [150, 200], None), ("MLSD d", [], [150, 200], None),
]


def late_family(ctx):
    """"with and without a data connection being made": the transfer command is sent FIRST and the data connection is
    made while its worker waits (within wait_future_timeout) - one 150, then exactly one completion reply, of the class
    the same transfer gets when the connection is made first; other commands may pass in between"""
    import latewire as LW

    res = Result()
    users = S.USERS_ANON
    jobs, meta = [], []
    for line, before, want, data in LATE_TRANSFERS:
        for inter in ([], ["PWD"], ["PWD", "SYST"]):
            jobs.append((users, [None] * len(users), S.TREE, [("late", line, inter, before)], ["USER bob"]))
            meta.append((line, before, inter, want, data))
    outs = LW.run_many(jobs)
    for (line, before, inter, want, data), recs in zip(meta, outs):
        res.cases += 1
        res.count("late_data_connection")
        inp = {"kind": "late-data-connection", "transfer": line, "before": before, "interposed": inter}
        if isinstance(recs, str) or not recs:
            res.disagreements.append({"correspondence": "C05 late-data harness", "input": inp, "impl": recs})
            continue
        res.distinct.add(("late", line, tuple(before), tuple(inter)))
        r = recs[-1]
        r["replies"] = [c for c in r["replies"] if c not in (257, 215)]  # (the interposed commands' own answers)
        if r["replies"] != want or (data is not None and r.get("data") != data):
            res.oracle_failures.append({"input": inp, "what": "%r sent before the data connection was made (which followed within the waiting time%s): replies %r%s; with the connection made first: %r" % (
                line, ", after %r" % inter if inter else "", r["replies"], (", %d bytes delivered" % len(r.get("data") or b"")) if data is not None else "", want), "signature": "C05:late-data-connection-not-served"})
    return res


def correspondence(ctx):
    r = _run(ctx, gen_histories(ctx))
    r.merge(late_family(ctx))
    r.merge(whitespace_family(ctx))
    r.merge(limits_family(ctx))
    r.merge(pipelined_family(ctx))
    r.merge(fault_family(ctx))
    return r


def search(ctx, prior):
    hist = gen_histories(ctx)
    for d in prior.disagreements:
        if isinstance(d.get("input"), list):
            hist.insert(0, ("disagreement", d["input"]))
    r = _run(ctx, hist, compare=False)
    r.merge(fault_family(ctx))
    r.merge(pipelined_family(ctx))
    r.merge(limits_family(ctx))
    r.merge(whitespace_family(ctx))
    r.merge(late_family(ctx))
    return r


def replay(ctx, doc):
    if doc["failure"]["input"].get("kind") == "late-data-connection":
        import latewire as LW

        i = doc["failure"]["input"]
        recs = LW.run_plan((S.USERS_ANON, [None] * len(S.USERS_ANON), S.TREE, [("late", i["transfer"], i["interposed"], i["before"])], ["USER bob"]))
        print(recs if isinstance(recs, str) else [(r["cmd"], r["replies"], r.get("data")) for r in recs])
        want = next(w for l, b, w, d in LATE_TRANSFERS if l == i["transfer"] and b == i["before"])
        return isinstance(recs, str) or not recs or [c for c in recs[-1]["replies"] if c not in (257, 215)] != want
    if doc["failure"]["input"].get("kind") == "trailing-white-space":
        cmds = doc["failure"]["input"]["commands"]
        a = S.run_history(S.USERS_ANON, S.TREE, to_events(cmds))
        b = S.run_history(S.USERS_ANON, S.TREE, to_events([c.rstrip() for c in cmds]))
        print("as sent      :", [x and x["replies"] for x in a])
        print("without space:", [x and x["replies"] for x in b])
        return a != b
    if doc["failure"]["input"].get("kind") == "user-limit":
        r = limits_family(ctx)
        hit = [f for f in r.oracle_failures if f["input"]["commands"] == doc["failure"]["input"]["commands"]]
        for f in hit:
            print("implementation:", f["what"])
        return bool(hit)
    if doc["failure"]["input"].get("kind") == "pipelined-segment":
        import latewire as LW

        i = doc["failure"]["input"]
        a = LW.run_plan((S.USERS_ANON, [None] * len(S.USERS_ANON), S.TREE, [("pipe", i["lines"], i["backend_delay"])], ["USER bob"]))
        b = LW.run_plan((S.USERS_ANON, [None] * len(S.USERS_ANON), S.TREE, [("cmd", l) for l in i["lines"]], ["USER bob"]))
        print("one segment:", a if isinstance(a, str) else a[0]["replies"])
        print("one by one :", b if isinstance(b, str) else [r["replies"] for r in b])
        if isinstance(a, str) or isinstance(b, str):
            return True
        return a[0]["tree1"] != b[-1]["tree1"] or sorted(a[0]["replies"]) != sorted(c for r in b for c in r["replies"])
    if doc["failure"]["input"].get("kind") == "backend-fault":
        from props import c13

        r = c13._job(tuple(doc["failure"]["input"]["job"]))
        print("implementation:", r if isinstance(r, str) else {k: r[k] for k in ("codes", "calls", "alive", "follow_pwd")})
        if isinstance(r, str):
            return True
        finals = [c for c in r["codes"] if c >= 200]
        return len(finals) != 1 or not r["alive"] or r["follow_pwd"] != [257]
    cmds = doc["failure"]["input"]["commands"]
    snaps = S.run_history(S.USERS_ANON, S.TREE, to_events(cmds))
    f = oracle(cmds, snaps) + restart_scope_oracle(cmds, snaps)
    for c, s in zip(["@connect"] + cmds, snaps):
        print(repr(c), "->", s and s["replies"], "alive=%s" % (s and s["alive"]))
    print(f)
    return bool(f)


def probe_known(ctx, finding):
    cmds = finding["replay"]["commands"]
    snaps = S.run_history(S.USERS_ANON, S.TREE, to_events(cmds))
    f = oracle(cmds, snaps) + restart_scope_oracle(cmds, snaps)
    return any(x["signature"] == finding["signature"] for x in f)


# the long-lived process: the same probe session after earlier sessions of the same server (props/history.py)
from props import history as _history  # noqa: E402

correspondence, search, replay = _history.attach(PID, correspondence, search, replay, pasts=None)


# somebody else's classes: the documented extension points used the way a third party uses them (props/thirdparty.py)
from props import thirdparty as _thirdparty  # noqa: E402

correspondence, search, replay = _thirdparty.attach(PID, correspondence, search, replay)


# somebody else's machine: the same small sessions in other environments, in child processes (props/envs.py)
from props import envs as _envs  # noqa: E402

correspondence, search, replay = _envs.attach(PID, correspondence, search, replay)
