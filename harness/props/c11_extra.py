"""C11, IPv6 listener (implementation-side oracle): PASV on an IPv6 server is answered 503 after the
listener was already opened from the pool; EPSV works.  Whatever the sequence, at every quiescent point
pool (+) ports held by live sessions = configured ports, and the full pool is back when all sessions are gone."""
import asyncio
import collections
import socket

import simnet
import world as W
from framework import Result


async def _history(loop, ports, ops):
    wd = W.World(loop, [W.UserSpec(None, None)], server_kwargs={"data_ports": list(ports)}, family=socket.AF_INET6)
    await wd.start()
    fails = []
    cfg = collections.Counter(ports)

    def check(where):
        q = wd.server.available_data_ports
        pool = collections.Counter(p for _, p in q._queue)
        held = collections.Counter()
        for conn in wd.server.connections.values():
            ok, _ = wd._get(conn, "passive_server")
            if ok:
                held[conn.passive_server_port] += 1
        tot = pool + held
        if tot != cfg:
            extra = tot - cfg
            missing = cfg - tot
            fails.append("after %s: pool %s + held %s != configured %s (%s)" % (where, sorted(pool.elements()), sorted(held.elements()), sorted(cfg.elements()), "duplicated %s" % sorted(extra.elements()) if extra else "lost %s" % sorted(missing.elements())))

    try:
        clients = []
        for step, op in enumerate(ops):
            if op[0] == "C":
                c = await wd.raw_client()
                await W.run_line(wd, c, b"USER anonymous")
                clients.append(c)
            elif op[1] < len(clients) and not clients[op[1]].eof and wd.connection_of(clients[op[1]]) is not None:
                c = clients[op[1]]
                if op[0] == "V":
                    c.vanish()
                else:
                    await W.run_line(wd, c, {"P": b"PASV", "E": b"EPSV", "Q": b"QUIT", "N": b"NOOP"}[op[0]])
            await loop.settle()
            check(ops[: step + 1])
            if fails:
                break
        for c in clients:
            c.close()
        await loop.settle()
        if not fails:
            check("all sessions gone (%r)" % (ops,))
    finally:
        try:
            await wd.stop()
        except Exception:
            wd.finish()
    return fails


def gen(ctx):
    rng = ctx.rng
    hist = [([5000, 5001], [["C"], ["P", 0], ["C"], ["E", 1], ["C"], ["E", 2]]), ([5000], [["C"], ["P", 0], ["C"], ["P", 1], ["C"], ["E", 2], ["Q", 2]])]
    for _ in range(ctx.pick(120, 1500)):
        ports = [5000 + i for i in range(rng.randint(1, 3))]
        ops = [["C"]]
        n = 1
        for _ in range(rng.randint(2, 10)):
            r = rng.random()
            if r < 0.3 and n < 4:
                ops.append(["C"])
                n += 1
            else:
                ops.append([rng.choice("PPEEQVN"), rng.randrange(n)])
        hist.append((ports, ops))
    return hist


PORT_FORMS = {
    "list": lambda p: list(p), "tuple": lambda p: tuple(p), "range": lambda p: range(p[0], p[0] + len(p)) if p == list(range(p[0], p[0] + len(p))) else list(p),
    "generator": lambda p: (x for x in p), "map": lambda p: map(int, [str(x) for x in p]), "iter": lambda p: iter(p), "dict-keys": lambda p: dict.fromkeys(p).keys(),
    "reversed": lambda p: reversed(list(reversed(p))),
}


def _pool_of(form, ports):
    import asyncio

    import aioftp

    async def go():
        server = aioftp.Server(data_ports=PORT_FORMS[form](ports))
        q = server.available_data_ports
        return sorted(x[1] for x in list(q._queue)) if q is not None else None

    return asyncio.run(go())


def port_forms(ctx, res):
    """`data_ports` is documented as an iterable of ports: whatever kind of iterable it is given as - a one-shot one
    among them - the pool the server starts with holds every configured port once"""
    for ports in ([5001], [5001, 5002, 5003], list(range(6000, 6010))):
        for form in sorted(PORT_FORMS):
            res.cases += 1
            res.count("data_ports_given_as:" + form)
            res.distinct.add(("port-form", form, len(ports)))
            inp = {"kind": "data-ports-form", "form": form, "ports": ports}
            try:
                got = _pool_of(form, ports)
            except Exception as e:  # noqa
                res.oracle_failures.append({"input": inp, "what": "Server(data_ports=<%s of %r>) raised %s: %s" % (form, ports, type(e).__name__, str(e)[:100]), "signature": "C11:pool-not-the-configured-ports"})
                continue
            if got != sorted(ports):
                res.oracle_failures.append({"input": inp, "what": "Server(data_ports=<%s of %r>) starts with the pool %r" % (form, ports, got), "signature": "C11:pool-not-the-configured-ports"})


async def _zero_case(loop, ports, ends):
    """port 0 in `data_ports` is a slot like any other (the system picks the number when the listener starts): taken at
    PASV/EPSV, back when the session is over"""
    import world as W

    wd = W.World(loop, [W.UserSpec("bob", None)], server_kwargs={"data_ports": list(ports)})
    await wd.start()
    seen = []
    try:
        for end in ends:
            c = await wd.raw_client()
            await W.run_line(wd, c, b"USER bob")
            codes, _, _, _ = await W.run_line(wd, c, b"EPSV" if end != "pasv-quit" else b"PASV")
            if end == "vanish":
                c.vanish()
            elif end == "close":
                c.close()
            else:
                await W.run_line(wd, c, b"QUIT")
            await loop.settle()
            await asyncio.sleep(1)
            await loop.settle()
            seen.append((end, codes, sorted(p for _, p in wd.server.available_data_ports._queue)))
    finally:
        try:
            await wd.stop()
        except Exception:
            wd.finish()
    return seen


def zero_ports(ctx, res):
    for ports in ([0], [0, 0], [0, 5001]):
        res.cases += 1
        res.count("data_ports_with_port_zero")
        res.distinct.add(("port-zero", tuple(ports)))
        inp = {"kind": "port-zero", "ports": ports}
        try:
            seen = simnet.run(_zero_case, ports, ["quit", "pasv-quit", "vanish", "close", "quit"], wall_limit=60)
        except BaseException as e:  # noqa
            res.oracle_failures.append({"input": inp, "what": "Server(data_ports=%r): the sessions did not run (%s: %s)" % (ports, type(e).__name__, e), "signature": "C11:port-zero"})
            continue
        for end, codes, pool in seen:
            if codes not in ([229], [227]) or pool != sorted(ports):
                res.oracle_failures.append({"input": inp, "what": "Server(data_ports=%r): a session asked for a passive listener (%r) and ended by %s: the pool is %r afterwards (configured %r)" % (ports, codes, end, pool, sorted(ports)),
                                            "signature": "C11:port-zero:port-lost"})
                break


def run(ctx):
    res = Result()
    port_forms(ctx, res)
    zero_ports(ctx, res)
    for ports, ops in gen(ctx):
        res.cases += 1
        res.count("ipv6_histories")
        res.distinct.add(("ipv6", tuple(ports), repr(ops)))
        try:
            fails = simnet.run(_history, ports, ops)
        except BaseException as e:  # noqa
            res.disagreements.append({"correspondence": "ipv6 harness", "input": [ports, ops], "impl": "%s: %s" % (type(e).__name__, e)})
            continue
        if fails:
            res.oracle_failures.append({"input": {"kind": "ipv6-history", "ports": ports, "ops": ops}, "what": fails[0], "signature": "C11:ipv6:" + ("port-duplicated" if "duplicated" in fails[0] else "port-lost")})
    return res


def replay(inp):
    if inp.get("kind") == "port-zero":
        r = Result()
        zero_ports(None, r)
        for f in r.oracle_failures:
            print(f["what"])
        return bool(r.oracle_failures)
    if inp.get("kind") == "data-ports-form":
        got = _pool_of(inp["form"], inp["ports"])
        print("pool:", got)
        return got != sorted(inp["ports"])
    fails = simnet.run(_history, inp["ports"], inp["ops"])
    print(fails)
    return bool(fails)
