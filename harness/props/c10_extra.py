"""C10, cuts at loop-iteration granularity (implementation-side oracle): sessions under a server-wide and a
per-user limit; the peer vanishes / server.close() is called at EVERY loop iteration of the script (so also in
the middle of a session's own teardown); afterwards every slot must be back."""
import multiprocessing
import os

import scenario as SC
import seqrun as S
import world as W
from framework import Result
from scenario import Scenario

USERS = [W.UserSpec("alice", "secret", max_conn=2), W.UserSpec("bob", None, max_conn=1), W.UserSpec(None, None)]


async def s_slots(ctl):
    a = await ctl.client()
    await ctl.cmd(a, "USER alice")
    await ctl.cmd(a, "PASS secret")
    b = await ctl.client()
    await ctl.cmd(b, "USER bob")
    c = await ctl.client()
    await ctl.cmd(c, "USER bob")  # refused: over the per-user limit
    await ctl.cmd(c, "USER alice")
    await ctl.cmd(a, "QUIT")
    await ctl.cmd(b, "USER alice")
    await ctl.cmd(b, "PASS wrong")
    await ctl.cmd(c, "QUIT")
    d = await ctl.client()  # admitted again
    await ctl.cmd(d, "USER bob")
    await ctl.cmd(b, "QUIT")
    await ctl.cmd(d, "QUIT")


SCEN = Scenario("slots", s_slots, users=USERS, server_kwargs={"maximum_connections": 3})


def _job(args):
    kind, ks = args
    fn = SC.cut_vanish if kind == "vanish" else SC.cut_server_close
    out = []
    for k in ks:
        try:
            r = SC.run_scenario(SCEN, k, fn)
        except BaseException as e:  # noqa
            out.append((k, "HARNESS-ERROR %s: %s" % (type(e).__name__, e)))
            continue
        led = r["ledger"]
        bad = []
        und = r.get("context", {}).get("undispatched_connections", 0)
        if kind == "vanish" or und == 0:
            if led["srvfree"] != 3:
                bad.append("server slots %r of 3 free after every session is gone" % led["srvfree"])
            if led["ufree"] != [2, 1, None]:
                bad.append("per-user slots %r, configured [2, 1, None]" % led["ufree"])
        out.append((k, bad))
    return kind, out


def run(ctx):
    res = Result()
    N = SC.run_scenario(SCEN)["iterations"]
    jobs = []
    for kind in ("vanish", "close"):
        ks = list(range(N))
        for j in range(0, N, 25):
            jobs.append((kind, ks[j : j + 25]))
    mp = multiprocessing.get_context("fork")
    with mp.Pool(min(16, os.cpu_count() or 4)) as pool:
        outs = pool.map(_job, jobs, chunksize=1)
    for kind, out in outs:
        for k, bad in out:
            res.cases += 1
            res.count("iteration_cut_" + kind)
            res.distinct.add(("slots", kind, k))
            if isinstance(bad, str):
                res.disagreements.append({"correspondence": "slots sweep harness", "input": [kind, k], "impl": bad})
            elif bad:
                res.oracle_failures.append({"input": {"kind": "iteration-cut", "cut": kind, "iteration": k}, "what": "; ".join(bad), "signature": "C10:slot-not-returned:cut-at-loop-iteration"})
    res.exhaustive = True
    return res


def replay(inp):
    kind, out = _job((inp["cut"], [inp["iteration"]]))
    print(out)
    return bool(out[0][1])
