"""C10, cuts at loop-iteration granularity (implementation-side oracle): sessions under a server-wide and a
per-user limit; the peer vanishes / server.close() is called at EVERY loop iteration of the script (so also in
the middle of a session's own teardown); afterwards every slot must be back."""
import multiprocessing
import os

import scenario as SC
import seqrun as S
import world as W
from framework import Result
from scenario import Scenario

USERS = [W.UserSpec("alice", "secret", max_conn=2), W.UserSpec("bob", None, max_conn=1), W.UserSpec(None, None)]


async def s_slots(ctl):
    a = await ctl.client()
    await ctl.cmd(a, "USER alice")
    await ctl.cmd(a, "PASS secret")
    b = await ctl.client()
    await ctl.cmd(b, "USER bob")
    c = await ctl.client()
    await ctl.cmd(c, "USER bob")  # refused: over the per-user limit
    await ctl.cmd(c, "USER alice")
    await ctl.cmd(a, "QUIT")
    await ctl.cmd(b, "USER alice")
    await ctl.cmd(b, "PASS wrong")
    await ctl.cmd(c, "QUIT")
    d = await ctl.client()  # admitted again
    await ctl.cmd(d, "USER bob")
    await ctl.cmd(b, "QUIT")
    await ctl.cmd(d, "QUIT")


SCEN = Scenario("slots", s_slots, users=USERS, server_kwargs={"maximum_connections": 3})
# the same sessions on a server with speed limits: its command channels wait in their throttles between lines
SCEN_THROTTLED = Scenario("slots-throttled", s_slots, users=USERS, server_kwargs={"maximum_connections": 3, "read_speed_limit": 300, "write_speed_limit_per_connection": 400})


def slow_manager(users):
    """a user manager of one's own (a database behind it): the shipped bookkeeping, but every call really waits"""
    import asyncio

    import aioftp

    class SlowManager(aioftp.MemoryUserManager):
        async def get_user(self, login):
            await asyncio.sleep(0.05)
            return await super().get_user(login)

        async def authenticate(self, user, password):
            await asyncio.sleep(0.05)
            return await super().authenticate(user, password)

        async def notify_logout(self, user):
            await asyncio.sleep(0.01)
            return await super().notify_logout(user)

    return SlowManager(users)


SCEN_SLOW_MANAGER = Scenario("slots-slow-manager", s_slots, users=USERS, server_kwargs={"maximum_connections": 3}, manager_factory=slow_manager)
SCENS = {"slots": SCEN, "slots-throttled": SCEN_THROTTLED, "slots-slow-manager": SCEN_SLOW_MANAGER}


def _job(args):
    kind, ks = args[:2]
    scen = SCENS[args[2] if len(args) > 2 else "slots"]
    fn = SC.cut_vanish if kind == "vanish" else SC.cut_server_close
    out = []
    for k in ks:
        try:
            r = SC.run_scenario(scen, k, fn)
        except BaseException as e:  # noqa
            out.append((k, "HARNESS-ERROR %s: %s" % (type(e).__name__, e)))
            continue
        led = r["ledger"]
        bad = []
        und = r.get("context", {}).get("undispatched_connections", 0)
        if kind == "vanish" or und == 0:
            if led["srvfree"] != 3:
                bad.append("server slots %r of 3 free after every session is gone" % led["srvfree"])
            if led["ufree"] != [2, 1, None]:
                bad.append("per-user slots %r, configured [2, 1, None]" % led["ufree"])
        out.append((k, bad))
    return kind, out, (args[2] if len(args) > 2 else "slots")


async def _burst_case(loop, limit, n, then_quit):
    """`n` peers connect in the SAME loop iteration to a server that admits `limit`: every one of them is answered
    (220 or 421), exactly `limit` are admitted, the counter is never negative, and afterwards every slot is back"""
    import asyncio

    import simnet

    wd = W.World(loop, USERS, server_kwargs={"maximum_connections": limit})
    await wd.start()
    out = {}
    try:
        raws = [simnet.RawClient(wd.net) for _ in range(n)]
        await asyncio.gather(*[r.connect(wd.port) for r in raws])
        wd.clients.extend(raws)
        low = wd.server.available_connections.value
        for _ in range(12):
            await loop.settle()
            low = min(low, wd.server.available_connections.value)
            await asyncio.sleep(0.05)
        out["first"] = sorted(r.replies[0][0] if r.replies else ("closed-unanswered" if r.eof else "silent") for r in raws)
        out["lowest_counter"] = low
        if then_quit:
            for r in raws:
                if not r.eof and r.replies and r.replies[0][0] == "220":
                    await W.run_line(wd, r, b"QUIT")
        for r in raws:
            r.close()
        await loop.settle()
        await asyncio.sleep(0.5)
        await loop.settle()
        out["free_after"] = wd.server.available_connections.value
        late = await wd.raw_client()
        await asyncio.sleep(0.1)
        await loop.settle()
        out["next"] = late.replies[0][0] if late.replies else None
        late.close()
        await loop.settle()
    finally:
        try:
            await wd.stop()
        except Exception:
            wd.finish()
    return out


def _burst_job(args):
    import simnet

    try:
        return simnet.run(_burst_case, *args)
    except BaseException as e:  # noqa
        return "HARNESS-ERROR %s: %s" % (type(e).__name__, e)


BURSTS = [(1, 2), (1, 3), (2, 3), (2, 5), (3, 4), (3, 8), (2, 2), (4, 3)]


def burst(ctx, res):
    for limit, n in BURSTS:
        for then_quit in (True, False):
            o = _burst_job((limit, n, then_quit))
            res.cases += 1
            res.count("burst_of_connects")
            res.distinct.add(("burst", limit, n, then_quit))
            inp = {"kind": "burst", "maximum_connections": limit, "simultaneous_connects": n, "admitted_quit": then_quit}
            if isinstance(o, str):
                res.disagreements.append({"correspondence": "burst harness", "input": inp, "impl": o})
                continue
            want = sorted(["220"] * min(limit, n) + ["421"] * max(0, n - limit))
            bad = []
            if o["first"] != want:
                bad.append("first replies %r, want %r" % (o["first"], want))
            if o["lowest_counter"] < 0:
                bad.append("the counter of free slots went down to %d" % o["lowest_counter"])
            if o["free_after"] != limit:
                bad.append("%r of %d slots free after every peer is gone" % (o["free_after"], limit))
            if o["next"] != "220":
                bad.append("the next peer got %r" % o["next"])
            if bad:
                res.oracle_failures.append({"input": inp, "what": "%d peers connecting at the same moment to a server that admits %d: %s" % (n, limit, "; ".join(bad)), "signature": "C10:burst-of-connects"})


async def _tls_sessions(limit):
    """a server started with `ssl=` (its own certificate authority, made on the spot) on the loopback interface:
    sessions that end by QUIT, by the peer going away and by a refusal all give their slots back, as without TLS"""
    import asyncio
    import ssl

    import aioftp
    import trustme

    ca = trustme.CA()
    cert = ca.issue_cert("127.0.0.1", "localhost")
    sctx = ssl.create_default_context(ssl.Purpose.CLIENT_AUTH)
    cert.configure_cert(sctx)
    cctx = ssl.create_default_context(ssl.Purpose.SERVER_AUTH)
    ca.configure_trust(cctx)
    users = [aioftp.User("bob", "pw", maximum_connections=limit)]
    server = aioftp.Server(users, maximum_connections=limit, ssl=sctx)
    await server.start("127.0.0.1", 0)
    out = []

    async def session(lines, end):
        r, w = await asyncio.wait_for(asyncio.open_connection("127.0.0.1", server.server_port, ssl=cctx, server_hostname="localhost"), 5)
        codes = [(await asyncio.wait_for(r.readline(), 3))[:3].decode()]
        for line in lines:
            w.write(line + b"\r\n")
            codes.append((await asyncio.wait_for(r.readline(), 3))[:3].decode())
        if end == "abort":
            w.transport.abort()
        else:
            w.close()
        await asyncio.sleep(0.1)
        return codes

    try:
        for k, (lines, end) in enumerate([([b"USER bob", b"PASS pw", b"QUIT"], "close"), ([b"USER bob", b"PASS pw"], "close"), ([b"USER bob", b"PASS pw", b"PWD"], "abort"),
                                          ([b"USER bob", b"PASS wrong", b"QUIT"], "close"), ([b"USER bob", b"PASS pw", b"QUIT"], "close"), ([b"USER bob", b"PASS pw", b"QUIT"], "close")]):
            try:
                codes = await session(lines, end)
            except Exception as e:  # noqa
                codes = ["%s" % type(e).__name__]
            um = server.user_manager
            out.append({"session": k, "codes": codes, "server_free": server.available_connections.value, "user_free": um.available_connections[users[0]].value})
    finally:
        try:
            await asyncio.wait_for(server.close(), 5)
            out.append({"close": "ok"})
        except Exception as e:  # noqa
            out.append({"close": type(e).__name__})
    return out


def tls(ctx, res):
    import asyncio

    try:
        import trustme  # noqa: F401
    except ImportError:
        res.count("tls_sessions:skipped(no trustme)")
        return
    for limit in (2, 1):
        res.cases += 1
        res.count("tls_sessions")
        res.distinct.add(("tls", limit))
        inp = {"kind": "tls-sessions", "maximum_connections": limit}
        try:
            out = asyncio.run(asyncio.wait_for(_tls_sessions(limit), 60))
        except Exception as e:  # noqa
            res.disagreements.append({"correspondence": "tls harness", "input": inp, "impl": "%s: %s" % (type(e).__name__, e)})
            continue
        bad = [o for o in out if ("server_free" in o and (o["server_free"] != limit or o["user_free"] != limit or o["codes"][0] != "220")) or o.get("close", "ok") != "ok"]
        if bad:
            res.oracle_failures.append({"input": inp, "what": "a server started with ssl=, admitting %d: after each session every slot must be back and the next peer greeted with 220; first deviation: %r" % (limit, bad[0]), "signature": "C10:tls-sessions-keep-their-slots"})


def run(ctx):
    res = Result()
    burst(ctx, res)
    tls(ctx, res)
    jobs = []
    for name, scen in SCENS.items():
        N = SC.run_scenario(scen)["iterations"]
        for kind in ("vanish", "close"):
            ks = list(range(N))
            for j in range(0, N, 25):
                jobs.append((kind, ks[j : j + 25], name))
    mp = multiprocessing.get_context("fork")
    with mp.Pool(min(16, os.cpu_count() or 4)) as pool:
        outs = pool.map(_job, jobs, chunksize=1)
    for kind, out, name in outs:
        for k, bad in out:
            res.cases += 1
            res.count("iteration_cut_%s:%s" % (kind, name))
            res.distinct.add((name, kind, k))
            if isinstance(bad, str):
                res.disagreements.append({"correspondence": "slots sweep harness", "input": [kind, k, name], "impl": bad})
            elif bad:
                res.oracle_failures.append({"input": {"kind": "iteration-cut", "cut": kind, "iteration": k, "scenario": name}, "what": "; ".join(bad) + (" (server with speed limits)" if name != "slots" else ""), "signature": "C10:slot-not-returned:cut-at-loop-iteration"})
    res.exhaustive = True
    return res


def replay(inp):
    if inp.get("kind") == "tls-sessions":
        import asyncio

        out = asyncio.run(_tls_sessions(inp["maximum_connections"]))
        for o in out:
            print(o)
        limit = inp["maximum_connections"]
        return any(("server_free" in o and (o["server_free"] != limit or o["user_free"] != limit or o["codes"][0] != "220")) or o.get("close", "ok") != "ok" for o in out)
    if inp.get("kind") == "burst":
        o = _burst_job((inp["maximum_connections"], inp["simultaneous_connects"], inp["admitted_quit"]))
        print(o)
        n, limit = inp["simultaneous_connects"], inp["maximum_connections"]
        return isinstance(o, str) or o["first"] != sorted(["220"] * min(limit, n) + ["421"] * max(0, n - limit)) or o["lowest_counter"] < 0 or o["free_after"] != limit or o["next"] != "220"
    kind, out, _ = _job((inp["cut"], [inp["iteration"]], inp.get("scenario", "slots")))
    print(out)
    return bool(out[0][1])
