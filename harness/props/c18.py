"""C18  the shipped storage backends are interchangeable.

FTP level: command histories are replayed through the REAL server (simulated network) on MemoryPathIO, PathIO
and AsyncPathIO (the last two in temporary directories) and through both Lean session models
(`Session.step` = `stepB Backend.mem`, and `stepB Backend.posix`); every step is compared field by field.
Backend-API level: operation sequences are called directly on instances of the three classes and on the two
Lean backend models (`bk …`).

Oracle (implementation outputs only): at every step the three real backends give the same reply classes, the
same transferred bytes / listing and the same tree; a command whose final reply is 4xx/5xx leaves the tree as
it was; at the API level PathIO and AsyncPathIO agree on result-or-error (errno) and tree for every sequence,
and MemoryPathIO agrees with them outside a fixed catalogue of argument classes the server never produces.
The four F7 input classes carry their own signatures (KNOWN_FINDINGS); any other divergence is a violation.
"""
import itertools
import json
import socket

import backendapi as A
import seqrun as S
from framework import Result, drive, load_known

PID = "C18"
RULE = (
    "FTP level: histories = USER bob, EPSV, then every sequence of length <= 2 over 24 command lines, of length 3 "
    "over 9 and of length 4 over 5 (thorough: <= 3 over 24, 4 over 8, 5 over 5), plus seeded random histories of length 4..8 over 74 command lines (12 of them odd or malformed spellings: dot segments, doubled slashes, non-ASCII and blank-containing names, lower-case and unknown verbs, missing arguments) "
    "(MKD/RMD/DELE/RNFR/RNTO/CWD/REST/STOR/APPE/RETR/LIST/MLSD/MLST on existing files and directories, missing "
    "names, missing parents, paths through files; RNTO onto/into/through; restart offsets 0/3/100; payloads "
    "shorter and longer than the target), a data connection is offered before every command; each history "
    "runs on the 3 real backends and the 2 models.  API level: seeded random sequences of <= 10 operations over "
    "{exists,is_dir,is_file,mkdir x4,rmdir,unlink,rename,stat,list,open rb/wb/ab/r+b + seek/read/write/close} on "
    "39 paths (depth <= 3 over 3 names) from 3 start trees, on the 3 real classes and the 2 models, plus "
    "interleaved-handle sequences on PathIO vs AsyncPathIO.  Mutations aimed at the virtual root are excluded. "
    "non-trivial = contains a refused/failed command, a transfer or a rename (FTP) / an error result or a rename "
    "or a handle write (API); distinct = distinct sequences"
)
EXPLANATION = (
    "ftp_step_bisim is FALSE on the pinned tree (four witnesses proved); ftp_step_bisim_partial holds for all "
    "trees/states/commands outside four decidable regions.  POSIX semantics (pathlib on Linux) are modelled, "
    "not verified: the POSIX side is tied by the differential runs only (errno by errno at the API level)."
)
ASSUMPTIONS = [
    "sequential use: one command at a time; single process; no symlinks; names <= 255 bytes; runs as a user that may write the temp dir",
    "local Linux filesystem behind tempfile.mkdtemp(); in-memory network stands in for sockets",
    "mutations aimed at the virtual root (RMD /, RNFR /, STOR / ...) are outside the property",
]
TRUSTED_EXTRA = [
    "Model/FsPosix.lean: CPython 3.12 pathlib on Linux (mkdir/rmdir/unlink/rename/open/glob) as modelled - sampled errno by errno, not proved",
    "harness/extract_pathio.py: ast of PathIO/AsyncPathIO (method bodies, decorator stacks)",
]
EXTRA_LEAN_TARGETS = ["AioftpModel.Driver.Backends"]
GENERATED_OBLIGATIONS = ["pathioMethods / asyncPathioMethods (method bodies and decorator stacks of the two filesystem backends)"]

# ------------------------------------------------------------------------------------------------------
# FTP level
# ------------------------------------------------------------------------------------------------------
PREFIX = ["USER bob", "EPSV"]

FULL = [
    "MKD new", "MKD d", "MKD x/y", "MKD f.txt/z", "MKD d/sub/n", "MKD d/g.txt/q/r",
    "RMD e", "RMD d", "RMD d/sub", "RMD f.txt", "RMD missing", "RMD new",
    "DELE f.txt", "DELE d/g.txt", "DELE d", "DELE missing", "DELE f.txt/z", "DELE new.bin",
    "RNFR f.txt", "RNFR d", "RNFR e", "RNFR d/sub", "RNFR missing", "RNFR d/g.txt",
    "RNTO g2.txt", "RNTO d", "RNTO f.txt", "RNTO e", "RNTO f.txt/x", "RNTO d/sub/y", "RNTO e/inside", "RNTO x/y", "RNTO d/g.txt/q", "RNTO new",
    "CWD d", "CWD d/sub", "CWD /", "CWD f.txt", "CDUP",
    "REST 3", "REST 0", "REST 100",
    "STOR new.bin", "STOR f.txt", "STOR d", "STOR x/y", "STOR f.txt/z", "STOR d/sub/s.bin",
    "APPE f.txt", "APPE new2.bin", "APPE d",
    "RETR f.txt", "RETR d/g.txt", "RETR missing", "RETR d", "RETR new.bin",
    "LIST", "LIST d", "LIST f.txt", "MLSD", "MLSD e",
    "MLST f.txt",
    # odd / malformed spellings (random histories only)
    "REST abc", "RNTO ../../up", "DELE ./f.txt", "MKD d//sub2/", "RETR d/../f.txt", "STOR ./d/../up.bin",
    "MKD \u00fc", "RNTO \u00f1 x", "XYZZY f.txt", "stor lower.bin", "RNTO", "DELE",
]
# reduced alphabets for the exhaustive parts
A2 = [
    "MKD x/y", "MKD f.txt/z", "RMD e", "RMD d", "DELE f.txt", "DELE d",
    "RNFR f.txt", "RNFR d", "RNFR e",
    "RNTO g2.txt", "RNTO f.txt", "RNTO f.txt/x", "RNTO d/sub/y", "RNTO e/inside", "RNTO x/y",
    "CWD d", "REST 3",
    "STOR new.bin", "STOR f.txt", "STOR d", "APPE f.txt", "APPE new2.bin",
    "RETR f.txt", "LIST d",
]
A3_QUICK = ["RNFR f.txt", "RNFR d", "RNTO f.txt", "RNTO f.txt/x", "RNTO e/inside", "DELE f.txt", "REST 3", "STOR f.txt", "APPE f.txt"]
A4_QUICK = ["RNFR d", "RNTO d/sub/y", "RNTO e/inside", "REST 3", "STOR f.txt"]
A3_THOROUGH = A2
A4_THOROUGH = ["RNFR d", "RNFR f.txt", "RNTO d/sub/y", "RNTO e/inside", "RNTO f.txt", "DELE f.txt", "REST 3", "STOR f.txt"]
A5_THOROUGH = ["RNFR d", "RNTO e/inside", "DELE f.txt", "REST 3", "STOR f.txt"]

PAYLOADS = {"STOR": b"PQ", "APPE": b"xyz", "STOR d/sub/s.bin": b"PAYLOAD-xyz", "STOR new.bin": b"NEW-payload"}

# regression histories (past disagreements / the four witnesses and their neighbours): always run first
CORPUS = [
    ["RNFR e", "RNTO f.txt/x"],
    ["RNFR d", "RNTO d/sub/y"],
    ["RNFR d", "CWD d", "RNTO g2.txt"],
    ["REST 3", "STOR new.bin"],
    ["REST 3", "APPE new2.bin"],
    ["REST 100", "STOR f.txt", "RETR f.txt"],
    ["RNFR f.txt", "DELE f.txt", "RNTO f.txt"],
    ["RNFR d/g.txt", "RNTO d/g.txt/q"],
    ["RNFR d", "RNTO d/g.txt/q"],
    ["STOR f.txt", "RETR f.txt"],
    ["APPE f.txt", "RETR f.txt"],
    ["RNFR d", "RNTO e/inside", "LIST e/inside", "RETR e/inside/g.txt"],
    ["RNFR f.txt", "RNTO d/sub/y", "RETR d/sub/y"],
    ["MKD x/y", "RMD x", "RMD x/y", "RMD x"],
    ["MKD f.txt/z", "MKD d/g.txt/q/r"],
    ["DELE d", "RMD f.txt", "RMD d"],
    # a destination below a SIBLING whose name begins with the source's name: not "into itself"
    ["MKD d.old", "RNFR d", "RNTO d.old/d", "LIST d.old/d", "RETR d.old/d/g.txt"],
    ["MKD ee", "RNFR e", "RNTO ee/e", "MLSD ee"],
    ["MKD f.txt.bak", "RNFR f.txt", "RNTO f.txt.bak/f.txt", "RETR f.txt.bak/f.txt"],
    ["MKD d/su", "RNFR d/su", "RNTO d/sub/su", "MLSD d/sub"],
]


def payload_for(c):
    if c in PAYLOADS:
        return PAYLOADS[c]
    return PAYLOADS.get(c.split(" ")[0].upper(), b"")


def to_events(cmds):
    """connect, login, EPSV; a data connection is offered before every command"""
    ev = [("connect",)]
    for c in PREFIX:
        ev.append(S.ev_line(c))
    for c in cmds:
        ev.append(("dataconnect",))
        ev.append(S.ev_line(c, payload_for(c)))
    return ev


def labels(cmds):
    """one label per event of `to_events(cmds)`"""
    out = ["@connect"] + PREFIX
    for c in cmds:
        out += ["@data", c]
    return out


def gen_histories(ctx):
    hist = [("corpus", h) for h in CORPUS]
    a3 = A3_THOROUGH if ctx.thorough() else A3_QUICK
    a4 = A4_THOROUGH if ctx.thorough() else A4_QUICK
    for k in (1, 2):
        for combo in itertools.product(A2, repeat=k):
            hist.append(("exh%d" % k, list(combo)))
    for combo in itertools.product(a3, repeat=3):
        hist.append(("exh3", list(combo)))
    for combo in itertools.product(a4, repeat=4):
        hist.append(("exh4", list(combo)))
    if ctx.thorough():
        for combo in itertools.product(A5_THOROUGH, repeat=5):
            hist.append(("exh5", list(combo)))
    rng = ctx.rng
    rntos = [c for c in FULL if c.startswith("RNTO")]
    xfers = [c for c in FULL if c.split(" ")[0] in ("STOR", "APPE", "RETR")]
    for _ in range(ctx.pick(300, 10000)):
        n = rng.randint(4, 8)
        seq = []
        while len(seq) < n:
            prev = seq[-1] if seq else ""
            if prev.startswith("RNFR") and rng.random() < 0.6:
                seq.append(rng.choice(rntos))
            elif prev.startswith("REST") and rng.random() < 0.6:
                seq.append(rng.choice(xfers))
            else:
                seq.append(rng.choice(FULL))
        hist.append(("random", seq))
    return hist


def drive_groups(groups, shards=8):
    """groups: list of line lists, each a self-contained stateful sequence; returns the output lines per group.
    (framework.drive's own sharding cuts anywhere, which a stateful component cannot take.)"""
    import concurrent.futures as cf

    if not groups:
        return []
    total = sum(len(g) for g in groups)
    k = max(1, min(shards, total // 3000 + 1))
    per = (total + k - 1) // k
    parts, cur, n = [], [], 0
    for gi, g in enumerate(groups):
        cur.append(gi)
        n += len(g)
        if n >= per:
            parts.append(cur)
            cur, n = [], 0
    if cur:
        parts.append(cur)

    def run(idx):
        lines = [l for gi in idx for l in groups[gi]]
        out = drive(lines, shards=1)
        res, pos = {}, 0
        for gi in idx:
            res[gi] = out[pos : pos + len(groups[gi])]
            pos += len(groups[gi])
        return res

    with cf.ThreadPoolExecutor(max_workers=len(parts)) as ex:
        outs = list(ex.map(run, parts))
    merged = {}
    for o in outs:
        merged.update(o)
    return [merged[i] for i in range(len(groups))]


# ---- implementation-side classification of the input class of one command ------------------------------
def parse_tree(tok):
    """fs token -> {path tuple: None (dir) | hex string}"""
    out = {}
    if tok in ("~", None):
        return out
    for item in tok.split(";"):
        p, v = item.split("=", 1)
        path = tuple("".join(chr(int(x)) for x in name.split(",")) if name != "-" else "" for name in p.split("|"))
        out[path] = None if v == "D" else v[1:]
    return out


def dec_parts(tok):
    if tok == "~":
        return ()
    return tuple("".join(chr(int(x)) for x in name.split(",")) if name != "-" else "" for name in tok.split("|"))


def resolve(cwd, arg):
    parts = [] if arg.startswith("/") else list(cwd)
    for seg in arg.split("/"):
        if seg in ("", "."):
            continue
        if seg == "..":
            if parts:
                parts.pop()
        else:
            parts.append(seg)
    return tuple(parts)


def kind(tree, p):
    if p == ():
        return "dir"
    if p not in tree:
        return None
    return "dir" if tree[p] is None else "file"


SIG_THROUGH = "C18:rename-through-file-loses-source:memory"
SIG_INTO = "C18:rename-dir-into-itself-succeeds:memory"
SIG_RPLUS = "C18:restart-upload-creates-missing-file:memory"
SIG_SAME = "C18:rename-vanished-source-onto-its-own-path-succeeds:memory"


def classify(cmd, before):
    """input class of `cmd` in the state `before` (a snapshot of a real backend before the command)"""
    verb, _, arg = cmd.strip().partition(" ")
    verb = verb.upper()
    tree = parse_tree(before["fs"])
    cwd = dec_parts(before["cwd"].split(":", 1)[1])
    dst = resolve(cwd, arg)
    if verb == "RNTO" and before["rnfr"] != "n" and dst != ():
        src = dec_parts(before["rnfr"][1:])
        if src == ():
            return None
        if kind(tree, dst) is not None:
            return None  # refused by the handler's own guard
        if src == dst:
            return SIG_SAME
        if kind(tree, src) is None:
            return None
        if kind(tree, dst[:-1]) == "file":
            return SIG_THROUGH
        if kind(tree, dst[:-1]) == "dir" and dst[: len(src)] == src:
            return SIG_INTO
    if verb in ("STOR", "APPE") and before["rest"] != "0" and dst != ():
        if kind(tree, dst) is None and kind(tree, dst[:-1]) == "dir":
            return SIG_RPLUS
    return None


def minus_subtree(tree, src):
    return {p: v for p, v in tree.items() if p[: len(src)] != src}


def expected_shape(sig, cmd, before, sm, sp):
    """does the divergence at a classified command look exactly like the recorded finding?"""
    tb = parse_tree(before["fs"])
    tm, tp = parse_tree(sm["fs"]), parse_tree(sp["fs"])
    verb, _, arg = cmd.strip().partition(" ")
    cwd = dec_parts(before["cwd"].split(":", 1)[1])
    dst = resolve(cwd, arg)
    if sig in (SIG_THROUGH, SIG_INTO, SIG_SAME):
        src = dec_parts(before["rnfr"][1:])
        if tp != tb or sp["replies"] != "451":
            return False
        if sig == SIG_THROUGH:
            return sm["replies"] == "451" and tm == minus_subtree(tb, src)
        if sig == SIG_INTO:
            return sm["replies"] == "250" and tm == minus_subtree(tb, src)
        return sm["replies"] == "250" and tm == tb
    if sig == SIG_RPLUS:
        if tp != tb or sp["replies"] != "150,451" or sm["replies"] != "150,226":
            return False
        off = int(before["rest"])
        want = dict(tb)
        want[dst] = (b"\0" * off + payload_for(cmd)).hex()
        return tm == want
    return False


def reply_classes(tok):
    return [] if tok == "~" else [int(x) // 100 for x in tok.split(",")]


def failed(tok):
    return any(int(x) >= 400 for x in tok.split(",")) if tok != "~" else False


CROSS_KEYS = ["replies", "out", "listing", "fs"]


def oracle(cmds, runs):
    """runs: {"memory": snaps, "pathio": snaps, "async": snaps}; implementation outputs only"""
    fails = []
    labs = labels(cmds)
    sm_all, sp_all, sa_all = runs["memory"], runs["pathio"], runs["async"]
    # (a) a failed command changes nothing, on each backend separately
    for b in ("memory", "pathio", "async"):
        snaps = runs[b]
        for j in range(1, min(len(labs), len(snaps))):
            if snaps[j] is None or snaps[j - 1] is None:
                break
            if labs[j].startswith("@"):
                continue
            if failed(snaps[j]["replies"]) and snaps[j]["fs"] != snaps[j - 1]["fs"]:
                sig = classify(labs[j], snaps[j - 1]) if b == "memory" else None
                if sig != SIG_THROUGH:
                    sig = "C18:failed-command-changed-tree:%s:%s" % (b, labs[j].split(" ")[0].lower())
                fails.append(
                    {
                        "input": {"level": "ftp", "commands": cmds[: (j - 3) // 2 + 1], "backend": b},
                        "what": "%s answered %s on %s and the tree changed: %s -> %s" % (labs[j], snaps[j]["replies"], b, snaps[j - 1]["fs"], snaps[j]["fs"]),
                        "signature": sig,
                    }
                )
                break
    # (b) the three backends are interchangeable, step by step, up to the first divergence
    for j in range(min(len(labs), len(sm_all), len(sp_all), len(sa_all))):
        sm, sp, sa = sm_all[j], sp_all[j], sa_all[j]
        if sm is None or sp is None or sa is None:
            if not (sm is None and sp is None and sa is None):
                fails.append(
                    {
                        "input": {"level": "ftp", "commands": cmds[: max(0, (j - 3) // 2 + 1)]},
                        "what": "session alive on some backends only at %r" % labs[j],
                        "signature": "C18:session-liveness-differs",
                    }
                )
            break
        ncmd = max(0, (j - 3) // 2 + 1)
        dpa = [k for k in CROSS_KEYS if sp[k] != sa[k]]
        if dpa:
            fails.append(
                {
                    "input": {"level": "ftp", "commands": cmds[:ncmd]},
                    "what": "PathIO and AsyncPathIO differ at %r in %s: %s vs %s" % (labs[j], dpa, [sp[k] for k in dpa], [sa[k] for k in dpa]),
                    "signature": "C18:pathio-vs-async:%s" % labs[j].split(" ")[0].lower(),
                }
            )
            break
        d = [k for k in CROSS_KEYS if k != "replies" and sm[k] != sp[k]]
        if reply_classes(sm["replies"]) != reply_classes(sp["replies"]):
            d.insert(0, "replies")
        if d:
            sig = classify(labs[j], sm_all[j - 1]) if j > 0 and not labs[j].startswith("@") else None
            if sig is not None and not expected_shape(sig, labs[j], sm_all[j - 1], sm, sp):
                sig = sig + ":unexpected-shape"
            if sig is None:
                sig = "C18:memory-vs-posix:%s:%s" % (labs[j].split(" ")[0].lower(), "+".join(d))
            fails.append(
                {
                    "input": {"level": "ftp", "commands": cmds[:ncmd]},
                    "what": "MemoryPathIO and PathIO differ at %r in %s: memory replies=%s fs=%s | pathio replies=%s fs=%s"
                    % (labs[j], d, sm["replies"], sm["fs"], sp["replies"], sp["fs"]),
                    "signature": sig,
                }
            )
            break
    return fails


def run_ftp(hists):
    """-> list of {"memory": snaps|str, "pathio": …, "async": …} per history"""
    jobs = []
    for cmds in hists:
        ev = to_events(cmds)
        for b in ("memory", "pathio", "async"):
            jobs.append((S.USERS_ANON, S.TREE, ev, b, None, socket.AF_INET))
    outs = S.run_many(jobs)
    return [{"memory": outs[3 * i], "pathio": outs[3 * i + 1], "async": outs[3 * i + 2]} for i in range(len(hists))]


def ftp_failures(cmds):
    runs = run_ftp([cmds])[0]
    if any(isinstance(v, str) for v in runs.values()):
        return [], runs
    return oracle(cmds, runs), runs


def shrink_ftp(f, known_sigs):
    """greedy: drop commands while the same signature still fails"""
    cmds = list(f["input"]["commands"])
    sig = f["signature"]
    changed = True
    budget = 60
    while changed and budget > 0:
        changed = False
        for i in range(len(cmds) - 1):  # the last command is the failing one
            cand = cmds[:i] + cmds[i + 1 :]
            budget -= 1
            fs, _ = ftp_failures(cand)
            hit = [x for x in fs if x["signature"] == sig]
            if hit:
                cmds = cand
                f = hit[0]
                changed = True
                break
    return f


def _ftp(ctx, hist, compare=True):
    res = Result()
    known_sigs = {k.get("signature") for k in load_known() if k.get("property") == PID}
    cmds_list = [h[1] for h in hist]
    runs_all = run_ftp(cmds_list)
    groups = []
    spans = []
    shrunk = 0
    for (tag, cmds), runs in zip(hist, runs_all):
        res.cases += 1
        bad = [b for b, v in runs.items() if isinstance(v, str)]
        if bad:
            res.disagreements.append({"correspondence": "harness", "input": cmds, "impl": {b: runs[b] for b in bad}, "model": None})
            continue
        res.count("ftp:source=" + tag)
        res.count("ftp:len=%d" % len(cmds))
        codes = ",".join(s["replies"] for s in runs["pathio"] if s)
        if any(x in codes for x in ("45", "55", "150", "350")):
            res.distinct.add(("ftp",) + tuple(cmds))
        for lab, s in zip(labels(cmds), runs["pathio"]):
            if s and not lab.startswith("@"):
                res.count("ftp:verb=%s" % lab.split(" ")[0].upper())
                res.count("ftp:pathio-reply=%s" % s["replies"])
        for f in oracle(cmds, runs):
            if f["signature"] not in known_sigs and shrunk < 3:
                shrunk += 1
                f = shrink_ftp(f, known_sigs)
            res.count("ftp:oracle=" + f["signature"])
            res.oracle_failures.append(f)
        if compare:
            ev = to_events(cmds)
            lm = S.model_lines(S.USERS_ANON, S.TREE, ev)
            lp = [("sessp" + l[4:]) for l in lm]
            spans.append((len(groups), cmds, runs))
            groups += [lm, lp]
    if compare and ctx.model_ok and groups:
        mout = drive_groups(groups)
        res.lines += sum(len(g) for g in groups)
        for gi, cmds, runs in spans:
            for b, off, name in (("memory", 0, "Session.step (= stepB mem)"), ("pathio", 1, "stepB posix"), ("async", 1, "stepB posix")):
                diffs = S.compare(runs[b], mout[gi + off])
                if diffs:
                    if len(res.disagreements) < 15:
                        i, k, a, m = diffs[0]
                        res.disagreements.append(
                            {"correspondence": "%s vs real server on %s" % (name, b), "input": cmds, "event": labels(cmds)[i] if i < len(labels(cmds)) else i, "field": k, "impl": a, "model": m}
                        )
                    else:
                        res.count("more_disagreements")
    return res


# ------------------------------------------------------------------------------------------------------
# backend-API level
# ------------------------------------------------------------------------------------------------------
NAMES = ["a", "b", "f"]
PATHS = [p for k in (1, 2, 3) for p in itertools.product(NAMES, repeat=k)]
TREES = {
    "empty": [],
    "std": [(("a",), None), (("a", "b"), None), (("a", "f"), b"hello"), (("b",), None), (("f",), b"0123456789")],
    "deep": [(("a",), None), (("a", "a"), None), (("a", "a", "f"), b"xy"), (("a", "a", "b"), None), (("b",), None), (("b", "f"), b"")],
    # names with a leading dot, a leading tilde, glob metacharacters: entries like any other
    "dots": [(("a",), None), ((".hidden",), b"h"), ((".cfg",), None), ((".cfg", "x"), b"1"), (("a", ".keep"), b""), (("a", "[1]"), b"b"), (("~tmp",), None), (("*",), b"star")],
}
# directories with more entries than any batch a backend might fetch at a time (64, 128, 256 are the natural sizes)
for _n in (65, 129, 200, 257):
    TREES["wide%d" % _n] = [(("w",), None)] + [(("w", "e%03d" % i), b"x" if i % 3 else None) for i in range(_n)] + [(("z",), b"last")]
DATA = ["", "5a", "50515253", "00" * 3, "6162636465666768696a6b6c"]


def gen_path(rng, tree_paths, recent=()):
    if recent and rng.random() < 0.25:
        return rng.choice(list(recent))
    r = rng.random()
    if r < 0.35 and tree_paths:
        return rng.choice(tree_paths)
    if r < 0.6 and tree_paths:
        return tuple(rng.choice(tree_paths)) + (rng.choice(NAMES),)
    if r < 0.7 and tree_paths:
        p = rng.choice(tree_paths)
        return p[:-1] if len(p) > 1 else p
    return rng.choice(PATHS)


def gen_api_op(rng, known, recent=()):
    k = rng.random()
    p = gen_path(rng, known, recent)
    if k < 0.08:
        return (rng.choice(["exists", "is_dir", "is_file"]), p)
    if k < 0.26:
        return ("mkdir", p, rng.random() < 0.5, rng.random() < 0.4)
    if k < 0.36:
        return ("rmdir", p)
    if k < 0.46:
        return ("unlink", p)
    if k < 0.68:
        return ("rename", p, gen_path(rng, known, recent))
    if k < 0.73:
        return ("stat", p)
    if k < 0.80:
        return ("list", p)
    mode = rng.randrange(4)
    seek = rng.choice([None, None, 0, 2, 5, 14])
    a = rng.random()
    if a < 0.15:
        act = ("none",)
    elif a < 0.5:
        act = ("read", rng.choice([None, 0, 3, 100]))
    else:
        act = ("write", rng.choice(DATA))
    return ("file", p, mode, seek, act)


def gen_api(ctx):
    rng = ctx.rng
    seqs = []
    for _ in range(ctx.pick(1200, 20000)):
        tname = rng.choice(["empty", "std", "std", "deep"])
        known = [p for p, _ in TREES[tname]]
        ops = []
        recent = []
        # a quarter of the sequences hammer two or three files with handle operations (positions, modes, truncation)
        focus = None
        if rng.random() < 0.25:
            files = [p for p, c in TREES[tname] if c is not None] or [("f",)]
            focus = [rng.choice(files), rng.choice(files), rng.choice(PATHS[:12])]
        for _ in range(rng.randint(3, 10)):
            if focus is not None and rng.random() < 0.7:
                a = rng.random()
                act = ("none",) if a < 0.1 else (("read", rng.choice([None, 0, 3, 100])) if a < 0.4 else ("write", rng.choice(DATA)))
                op = ("file", rng.choice(focus), rng.randrange(4), rng.choice([None, None, 0, 2, 5, 14]), act)
            else:
                op = gen_api_op(rng, known, recent[-2:])
            ops.append(op)
            recent.append(op[1])
            if op[0] in ("mkdir", "file"):
                known = known + [op[1]]
            elif op[0] == "rename":
                known = known + [op[2]]
                recent.append(op[2])
        seqs.append((tname, ops))
    seqs.append(("dots", [("list", ()), ("list", ("a",)), ("list", (".cfg",)), ("stat", (".hidden",)), ("unlink", ("*",)), ("list", ()), ("rmdir", ("~tmp",)), ("list", ())]))
    for tname in sorted(t for t in TREES if t.startswith("wide")):
        seqs.append((tname, [("list", ("w",)), ("unlink", ("w", "e001")), ("list", ("w",)), ("list", ())]))
    return seqs


def gen_api_interleaved(ctx):
    """handles kept open across tree operations: PathIO vs AsyncPathIO only"""
    rng = ctx.rng
    seqs = []
    for _ in range(ctx.pick(250, 4000)):
        tname = rng.choice(["std", "deep"])
        known = [p for p, _ in TREES[tname]]
        ops = []
        for _ in range(rng.randint(4, 10)):
            k = rng.random()
            if k < 0.25:
                ops.append(("open", rng.randrange(2), gen_path(rng, known), rng.randrange(4)))
            elif k < 0.35:
                ops.append(("seek", rng.randrange(2), rng.choice([0, 1, 4, 20])))
            elif k < 0.5:
                ops.append(("read", rng.randrange(2), rng.choice([-1, 0, 2, 50])))
            elif k < 0.68:
                ops.append(("write", rng.randrange(2), rng.choice(DATA)))
            elif k < 0.78:
                ops.append(("close", rng.randrange(2)))
            else:
                ops.append(gen_api_op(rng, known))
        seqs.append((tname, ops))
    return seqs


def api_tree_kind(tree, p):
    return kind(tree, tuple(p))


def api_catalogue(op, tree):
    """argument classes on which MemoryPathIO is KNOWN to differ from the filesystem backends and which the
    server never produces (its guards or its choice of modes exclude them); returns a label or None"""
    if op[0] == "rename":
        src, dst = tuple(op[1]), tuple(op[2])
        if src == () or dst == ():
            return "rename:root"
        if src == dst:
            return "rename:same-path"
        if api_tree_kind(tree, dst) is not None:
            return "rename:onto-existing"
        if api_tree_kind(tree, src) is not None and api_tree_kind(tree, dst[:-1]) == "file":
            return "rename:through-file(F7)"
        if api_tree_kind(tree, src) is not None and dst[: len(src)] == src and api_tree_kind(tree, dst[:-1]) == "dir":
            return "rename:into-itself(F7)"
    if op[0] == "file":
        _, p, mode, seek, act = op
        k = api_tree_kind(tree, tuple(p))
        if mode == 3 and k is None and api_tree_kind(tree, tuple(p[:-1])) == "dir":
            return "open:r+b-missing(F7)"
        if act[0] == "read" and mode in (1, 2):
            return "handle:read-on-write-only"
        if act[0] == "write" and mode == 0:
            return "handle:write-on-read-only"
        if act[0] == "write" and mode == 2 and seek is not None:
            return "handle:seek-then-write-in-append-mode"
    return None


def canon_token(tok):
    return tok if tok == "~" else ";".join(sorted(tok.split(";")))


def strip_errno(res):
    return "err" if res is not None and res.startswith("err") else res


def api_oracle(tname, ops, outs):
    fails = []
    om, op_, oa = outs["memory"], outs["pathio"], outs["async"]
    # PathIO vs AsyncPathIO: everything, every step
    for j, (lp, la) in enumerate(zip(op_, oa)):
        if lp != la:
            fails.append(
                {
                    "input": {"level": "api", "tree": tname, "ops": [list(o) for o in ops[: j + 1]]},
                    "what": "PathIO and AsyncPathIO differ at %r: %s | %s" % (ops[j], lp, la),
                    "signature": "C18:api-pathio-vs-async:%s" % ops[j][0],
                }
            )
            break
    if om is None:
        return fails
    # MemoryPathIO vs PathIO outside the catalogue
    before_m = before_p = canon_token(A.fs_token(TREES[tname]))
    for j, (lm, lp) in enumerate(zip(om, op_)):
        rm, fm = A.parse_line(lm)
        rp, fp = A.parse_line(lp)
        tree = parse_tree(before_p)
        cat = api_catalogue(ops[j], tree)
        if cat is not None:
            if strip_errno(rm) != strip_errno(rp) or fm != fp:
                break  # known divergence: the trees may differ from here on
        elif strip_errno(rm) != strip_errno(rp) or fm != fp:
            fails.append(
                {
                    "input": {"level": "api", "tree": tname, "ops": [list(o) for o in ops[: j + 1]]},
                    "what": "MemoryPathIO and PathIO differ at %r: %s | %s" % (ops[j], lm, lp),
                    "signature": "C18:api-memory-vs-posix:%s" % ops[j][0],
                }
            )
            break
        # a failed operation changes nothing (outside the catalogue)
        if cat is None:
            if strip_errno(rm) == "err" and fm != before_m:
                fails.append(
                    {
                        "input": {"level": "api", "tree": tname, "ops": [list(o) for o in ops[: j + 1]]},
                        "what": "MemoryPathIO: failed %r changed the tree %s -> %s" % (ops[j], before_m, fm),
                        "signature": "C18:api-failed-op-changed-tree:memory:%s" % ops[j][0],
                    }
                )
                break
            if strip_errno(rp) == "err" and fp != before_p and ops[j][0] != "file":
                fails.append(
                    {
                        "input": {"level": "api", "tree": tname, "ops": [list(o) for o in ops[: j + 1]]},
                        "what": "PathIO: failed %r changed the tree %s -> %s" % (ops[j], before_p, fp),
                        "signature": "C18:api-failed-op-changed-tree:pathio:%s" % ops[j][0],
                    }
                )
                break
        before_m, before_p = fm, fp
    return fails


def run_api(seqs, backends=("memory", "pathio", "async")):
    jobs = []
    for tname, ops in seqs:
        for b in backends:
            jobs.append((b, TREES[tname], ops))
    outs = A.run_many(jobs)
    k = len(backends)
    # ("pathio+t" is PathIO made with a timeout: judged as PathIO)
    return [{b.split("+")[0]: outs[k * i + n] for n, b in enumerate(backends)} for i in range(len(seqs))]


LIST_TARGETS = [("list", ("f",)), ("list", ("a", "f")), ("list", ("missing",)), ("list", ("f", "x")), ("list", ("a",)), ("list", ()), ("stat", ("f",)), ("exists", ("a", "f"))]


def _api(ctx, seqs, inter, compare=True, timeout=False):
    res = Result()
    if not timeout:
        # the same backends made with a timeout (`Server(path_timeout=...)`): a sample of the sequences, and listings
        # aimed at files, at missing paths and through files
        sub = seqs[:: max(1, len(seqs) // 150)] + [("std", [op]) for op in LIST_TARGETS] + [("std", LIST_TARGETS)]
        res.merge(_api(ctx, sub, [], compare=False, timeout=True))
    outs_all = run_api(seqs, ("memory", "pathio+t", "async+t") if timeout else ("memory", "pathio", "async"))
    lines = []
    spans = []
    for (tname, ops), outs in zip(seqs, outs_all):
        res.cases += 1
        bad = [b for b, v in outs.items() if isinstance(v, str)]
        if bad:
            res.disagreements.append({"correspondence": "harness(api)", "input": [tname, ops], "impl": {b: outs[b] for b in bad}, "model": None})
            continue
        res.count("api:tree=" + tname)
        res.count("api:len=%d" % len(ops))
        nontrivial = False
        tree_tok = A.fs_token(TREES[tname])
        for o, lp in zip(ops, outs["pathio"]):
            r, f = A.parse_line(lp)
            key = o[0] if o[0] != "file" else "file:%s:%s" % (A.MODES[o[2]], o[4][0])
            res.count("api:op=%s" % key)
            res.count("api:pathio-result=%s" % (r if r.startswith("err") else ("ok" if o[0] not in ("exists", "is_dir", "is_file") else r)))
            cat = api_catalogue(o, parse_tree(tree_tok))
            if cat:
                res.count("api:catalogued=" + cat)
            if r.startswith("err") or o[0] == "rename" or (o[0] == "file" and o[4][0] == "write"):
                nontrivial = True
            tree_tok = f
        if nontrivial:
            res.distinct.add(("api", tname, json.dumps(ops)))
        for f in api_oracle(tname, ops, outs):
            res.count("api:oracle=" + f["signature"])
            res.oracle_failures.append(f)
        if compare:
            lm = A.model_lines("mem", TREES[tname], ops)
            lp = A.model_lines("posix", TREES[tname], ops)
            spans.append((len(lines), tname, ops, outs))
            lines += [lm, lp]
    # interleaved handles: the two filesystem backends only
    outs_int = run_api(inter, backends=("pathio", "async"))
    for (tname, ops), outs in zip(inter, outs_int):
        res.cases += 1
        res.count("api:interleaved")
        if any(isinstance(v, str) for v in outs.values()):
            res.disagreements.append({"correspondence": "harness(api-interleaved)", "input": [tname, ops], "impl": outs, "model": None})
            continue
        res.distinct.add(("apiH", tname, json.dumps(ops)))
        for f in api_oracle(tname, ops, {"memory": None, "pathio": outs["pathio"], "async": outs["async"]}):
            res.count("api:oracle=" + f["signature"])
            res.oracle_failures.append(f)
    if compare and ctx.model_ok and lines:
        mout = drive_groups(lines)
        res.lines += sum(len(g) for g in lines)
        for gi, tname, ops, outs in spans:
            mm = mout[gi][1:]
            mp = mout[gi + 1][1:]
            for b, model, name in (("memory", mm, "Mem/FsMem model vs MemoryPathIO"), ("pathio", mp, "Posix model vs PathIO"), ("async", mp, "Posix model vs AsyncPathIO")):
                for j, (li, lmod) in enumerate(zip(outs[b], model)):
                    if li != lmod:
                        if len(res.disagreements) < 15:
                            res.disagreements.append(
                                {"correspondence": name, "input": {"tree": tname, "ops": [list(o) for o in ops[: j + 1]]}, "impl": li, "model": lmod}
                            )
                        else:
                            res.count("more_disagreements")
                        break
    return res


# ------------------------------------------------------------------------------------------------------
# interface
# ------------------------------------------------------------------------------------------------------
# ------------------------------------------------------------------------------------------------
# two sessions on one tree: whatever one session did, the other sees the same on every backend
# ------------------------------------------------------------------------------------------------
async def _two_session_ftp(loop, backend, script):
    import world as W

    wd = W.World(loop, S.USERS_ANON, backend=backend)
    await wd.start()
    out = []
    try:
        wd.set_tree(S.TREE)
        raws = [await wd.raw_client(), await wd.raw_client()]
        for r in raws:
            await W.run_line(wd, r, b"USER bob")
        for sid, line in script:
            r = raws[sid]
            if line.split(" ")[0] in ("RETR", "STOR", "APPE", "LIST", "MLSD"):
                await W.run_line(wd, r, b"EPSV")
                await W.data_connect(wd, r)
            codes, crashed, data, listing = await W.run_line(wd, r, line.encode(), b"NEW-payload" if line.split(" ")[0] in ("STOR", "APPE") else b"")
            out.append((sid, line, codes, data if isinstance(data, bytes) else None, sorted(listing) if listing is not None else None))
        tree = wd.tree()
        for r in raws:
            r.close()
        await loop.settle()
    finally:
        try:
            await wd.stop()
        except Exception:
            wd.finish()
    return out, tree


def _two_job(args):
    import simnet

    try:
        return simnet.run(_two_session_ftp, *args)
    except BaseException as e:  # noqa
        return "HARNESS-ERROR %s: %s" % (type(e).__name__, e)


async def _mid_transfer(loop, backend, verb, looks):
    """session A is in the middle of a transfer of big.bin; session B looks at that file (`looks`: commands); A goes on:
    what A transfers and what is stored afterwards is the same on every backend"""
    import asyncio

    import world as W

    big = bytes((i * 11 + 5) % 256 for i in range(4000))
    wd = W.World(loop, S.USERS_ANON, backend=backend, server_kwargs={"block_size": 64})
    await wd.start()
    out = {}
    try:
        wd.set_tree(S.TREE + [(("big.bin",), big)])
        a, b = await wd.raw_client(), await wd.raw_client()
        for r in (a, b):
            await W.run_line(wd, r, b"USER bob")
        await W.run_line(wd, a, b"EPSV")
        await W.data_connect(wd, a)
        dr, dw = a.data
        na = len(a.replies)
        if verb == "RETR":
            sp = dw.transport.peer
            sp.HIGH = 256
            sp.hold = True
            a.send_raw(b"RETR big.bin\r\n")
        else:
            await W.run_line(wd, a, b"REST 10")
            na = len(a.replies)
            a.send_raw(b"STOR big.bin\r\n")
            await loop.settle()
            dw.write(b"N" * 500)
        await loop.settle()
        out["b"] = []
        for line in looks:
            if line.split(" ")[0] in ("LIST", "MLSD", "RETR"):
                await W.run_line(wd, b, b"EPSV")
                await W.data_connect(wd, b)
            codes, _, data, listing = await W.run_line(wd, b, line.encode())
            out["b"].append((line, codes) + ((len(data or b""), (data or b"") == big[len(big) - len(data or b"") :]) if line.startswith("RETR") else ()))
        if verb == "RETR":
            sp.hold = False
            sp._schedule_pump()
            got = await asyncio.wait_for(dr.read(), 60)
            dw.close()
            out["a_data_ok"] = got == big
            out["a_len"] = len(got)
        else:
            dw.write(b"M" * 700)
            dw.close()
            await loop.settle()
        a.data = None
        waited = 0.0
        while waited < 10 and not any(int(c) >= 200 for c, _ in a.replies[na:]) and not a.eof:
            await asyncio.sleep(0.25)
            waited += 0.25
            await loop.settle()
        out["a_replies"] = [int(c) for c, _ in a.replies[na:]]
        out["tree"] = wd.tree()
        a.close()
        b.close()
        await loop.settle()
    finally:
        try:
            await wd.stop()
        except Exception:
            wd.finish()
    return out


def _mid_job(args):
    import simnet

    try:
        return simnet.run(_mid_transfer, *args)
    except BaseException as e:  # noqa
        return "HARNESS-ERROR %s: %s" % (type(e).__name__, e)


def _mid_transfers(ctx, res):
    for verb in ("RETR", "STOR"):
        for looks in (["MLST big.bin"], ["LIST"], ["MLSD"], ["MLST big.bin", "MLST big.bin", "LIST"], ["RETR big.bin"], ["REST 100", "RETR big.bin"]):
            if verb == "STOR" and any(x.startswith("RETR") for x in looks):
                continue  # a reader beside a writer of the same file sees what the writer has written so far: timing, not backend
            outs = [_mid_job((b, verb, looks)) for b in ("memory", "pathio", "async")]
            res.cases += 1
            res.count("two_sessions_mid_transfer")
            inp = {"level": "ftp-mid-transfer", "transfer": verb, "other_session": looks}
            if any(isinstance(o, str) for o in outs):
                res.disagreements.append({"correspondence": "C18 mid-transfer harness", "input": inp, "impl": [o if isinstance(o, str) else "ok" for o in outs]})
                continue
            res.distinct.add(("mid", verb, tuple(looks)))
            m = outs[0]
            for name, o in zip(("pathio", "async"), outs[1:]):
                if o != m:
                    diff = [k for k in m if m[k] != o.get(k)]
                    res.oracle_failures.append({"input": inp, "what": "another session looked at the file in the middle of a %s: memory and %s differ in %r (memory: %r; %s: %r)" % (
                        verb, name, diff, {k: m[k] for k in diff if k != "tree"}, name, {k: o.get(k) for k in diff if k != "tree"}), "signature": "C18:two-sessions:backends-differ"})
                    break


# ---- several files opened on one node of MemoryPathIO: real backend vs Model.MemHandles -----------------------------
def gen_memh(ctx):
    rng = ctx.rng
    out = [
        ([10, 11, 12, 13, 14], [("o", 0, 0), ("r", 0, 2), ("o", 1, 0), ("r", 1, 9), ("r", 1, 9), ("r", 0, 2)]),
        ([10, 11, 12, 13, 14], [("o", 0, 0), ("r", 0, 2), ("o", 1, 2), ("r", 1, 2), ("p", 0), ("r", 0, 2), ("r", 1, 2), ("r", 0, 2), ("r", 1, 2), ("r", 0, 2)]),
    ]
    for _ in range(ctx.pick(400, 6000)):
        content = [rng.randrange(256) for _ in range(rng.choice([0, 1, 3, 7, 16, 40]))]
        evs, opened = [], []
        for _ in range(rng.randint(2, 14)):
            k = rng.random()
            if not opened or k < 0.2:
                h = rng.randrange(4)
                evs.append(("o", h, rng.choice([0, 0, 0, 1, 3, len(content), len(content) + 2])))
                if h not in opened:
                    opened.append(h)
            elif k < 0.9:
                evs.append(("r", rng.choice(opened), rng.choice([0, 1, 2, 4, 8, 64])))
            else:
                evs.append(("p", rng.choice([0, 1, len(content), len(content) + 5])))
        out.append((content, evs))
    return out


def _memh_line(content, evs):
    ev = ",".join("p%d" % e[1] if e[0] == "p" else "%s%d:%d" % e for e in evs) or "~"
    return "memh %s %s" % (bytes(content).hex() or "-", ev)


def _memh_impl(content, evs):
    import asyncio
    import pathlib

    import aioftp

    async def go():
        pio = aioftp.MemoryPathIO()
        p = pathlib.PurePosixPath("/f")
        f = await pio._open(p, "wb")
        await pio.write(f, bytes(content))
        node = pio.get_node(p)
        files, got, done, start = {}, {}, {}, {}
        for e in evs:
            if e[0] == "o":
                f = await pio._open(p, "rb")
                await pio.seek(f, e[2])
                files[e[1]], got[e[1]], done[e[1]], start[e[1]] = f, b"", False, e[2]
            elif e[0] == "r":
                data = await pio.read(files[e[1]], e[2])
                got[e[1]] += data
                done[e[1]] = done[e[1]] or (e[2] > 0 and not data)
            else:
                node.content.seek(e[1])
        toks = []
        for h in range(4):
            if h in files:
                f = files[h]
                pos = f.position if hasattr(f, "position") else f.tell()
                toks.append("%s:%d:%d:%d" % (got[h].hex() or "-", 1 if done[h] else 0, start[h], pos))
            else:
                toks.append("-:0:0:0")
        return "|".join(toks)

    try:
        return asyncio.run(go())
    except Exception as e:  # noqa
        return "EXC:%s" % type(e).__name__


def _mem_handles(ctx, compare=True):
    res = Result()
    cases = gen_memh(ctx)
    impl = [_memh_impl(c, e) for c, e in cases]
    model = drive([_memh_line(c, e) for c, e in cases]) if compare else [None] * len(cases)
    for (content, evs), i, m in zip(cases, impl, model):
        res.cases += 1
        res.count("memh:files=%d" % len({e[1] for e in evs if e[0] == "o"}))
        res.distinct.add(("memh", tuple(content), tuple(evs)))
        inp = {"level": "memory-handles", "content": content, "events": [list(e) for e in evs]}
        if compare and i != m:
            res.disagreements.append({"correspondence": "MemoryPathIO open files vs Model.MemHandles.runNow", "input": inp, "impl": i, "model": m})
        if i.startswith("EXC:"):
            res.oracle_failures.append({"input": inp, "what": "reading files opened on one node raised " + i, "signature": "C18:memory:open-files-of-one-node"})
            continue
        for h, tok in enumerate(i.split("|")):
            got, done, start, pos = tok.split(":")
            want = bytes(content)[int(start) :].hex() or "-"
            if done == "1" and got != want:
                res.oracle_failures.append({"input": inp, "what": "MemoryPathIO: file %d, opened at %s on a node of %d bytes beside other open files, saw the end after %d bytes (a file of PathIO has its own position and gets %d)" % (
                    h, start, len(content), 0 if got == "-" else len(got) // 2, max(0, len(content) - int(start))), "signature": "C18:memory:open-files-share-a-position"})
                break
    return res


LATE_PLANS = [
    [("late", "MLSD d", ["RNFR d", "RNTO done"])], [("late", "LIST d", ["RNFR d", "RNTO done"])], [("late", "LIST e", ["RMD e", "MKD e", "MKD e/new"])],
    [("late", "MLSD e", ["RMD e", "MKD e", "MKD e/new"])], [("late", "LIST d", ["DELE d/g.txt"])], [("late", "MLSD", ["MKD fresh"])], [("late", "LIST", ["DELE f.txt"])],
    [("late", "RETR f.txt", ["DELE f.txt"])], [("late", "RETR f.txt", ["RNFR f.txt", "RNTO g.txt"])], [("late", "STOR n.bin", ["MKD n.bin"])], [("late", "APPE f.txt", ["DELE f.txt"])],
    [("late", "MLSD d", ["RMD d/sub", "DELE d/g.txt", "RMD d"])],
]


def _late_across_backends(ctx, res):
    """a transfer command is accepted, the tree changes under it (the same session goes on sending commands), and only
    then the data connection is made: what the transfer then delivers, answers and leaves behind is the same on every
    backend - each of them looks the path up WHEN THE WORKER STARTS, not before"""
    import latewire as LW

    users = S.USERS_ANON
    jobs = [(users, [None] * len(users), S.TREE, plan, ["USER bob"], LW.PAYLOAD, be) for plan in LATE_PLANS for be in ("memory", "pathio", "async")]
    outs = LW.run_many(jobs)
    for i, plan in enumerate(LATE_PLANS):
        m, p_, a = outs[3 * i : 3 * i + 3]
        res.cases += 1
        res.count("late_data_connection_across_backends")
        inp = {"level": "ftp-late", "plan": [list(x) for x in plan]}
        if any(isinstance(x, str) or not x for x in (m, p_, a)):
            res.disagreements.append({"correspondence": "C18 late harness", "input": inp, "impl": [x if isinstance(x, str) else "ok" for x in (m, p_, a)]})
            continue
        res.distinct.add(("late", repr(plan)))

        def view(recs):
            r = recs[-1]
            data = r.get("data")
            names = None
            if data is not None and plan[0][1].split(" ")[0] in ("LIST", "MLSD"):
                names = sorted((ln.rsplit(" ", 1)[-1] if plan[0][1].startswith("LIST") else ln.partition(" ")[2]) for ln in data.decode("utf-8", "replace").split("\r\n") if ln)
                data = None
            return {"replies": r["replies"], "data": data, "listed": names, "tree": r["tree1"]}

        vm = view(m)
        for name, other in (("pathio", view(p_)), ("async", view(a))):
            if other != vm:
                diff = [k for k in vm if vm[k] != other[k]]
                res.oracle_failures.append({"input": inp, "what": "%r accepted, then %r, then the data connection: memory and %s differ in %r (memory: %r; %s: %r)" % (
                    plan[0][1], plan[0][2], name, diff, {k: vm[k] for k in diff if k != "tree"}, name, {k: other[k] for k in diff if k != "tree"}), "signature": "C18:late-data-connection:backends-differ"})
                break


def two_session_scripts(ctx):
    firsts = [["RETR f.txt"], ["CWD d"], ["MLST d/g.txt"], ["RETR d/g.txt"], ["CWD d", "MLST g.txt"], ["LIST d"], ["RNFR f.txt"]]
    changes = [["DELE f.txt"], ["DELE d/g.txt"], ["RNFR d", "RNTO e2"], ["RNFR d", "RNTO e2", "MKD d"], ["DELE f.txt", "MKD f.txt"], ["RNFR f.txt", "RNTO d/f.txt"],
               ["DELE d/g.txt", "RMD d/sub", "RMD d"], ["STOR f.txt"], ["RNFR d/g.txt", "RNTO g2.txt", "STOR d/g.txt"]]
    nexts = [["RETR f.txt"], ["RETR d/g.txt"], ["STOR d/new.bin"], ["MLST f.txt"], ["MLST d"], ["LIST d"], ["CWD d"], ["STOR new.bin", "RETR new.bin"], ["RNTO moved.txt"], ["MKD d/x"], ["DELE f.txt"], ["PWD", "MLST g.txt"]]
    out = []
    for f in firsts:
        for c in changes:
            for nx in (nexts if ctx.thorough() else nexts[: 6 + (len(out) % 3)]):
                out.append([(0, l) for l in f] + [(1, l) for l in c] + [(0, l) for l in nx] + [(1, "LIST"), (0, "LIST d")])
    return out


def _two_sessions(ctx):
    import multiprocessing
    import os

    res = Result()
    scripts = two_session_scripts(ctx)
    jobs = [(b, sc) for sc in scripts for b in ("memory", "pathio", "async")]
    mp = multiprocessing.get_context("fork")
    with mp.Pool(min(16, os.cpu_count() or 4)) as pool:
        outs = pool.map(_two_job, jobs, chunksize=6)
    for i, sc in enumerate(scripts):
        m, p_, a = outs[3 * i : 3 * i + 3]
        res.cases += 1
        res.count("two_session_scripts")
        inp = {"level": "ftp-two-sessions", "script": [list(x) for x in sc]}
        if any(isinstance(x, str) for x in (m, p_, a)):
            res.disagreements.append({"correspondence": "C18 two-session harness", "input": inp, "impl": [x if isinstance(x, str) else "ok" for x in (m, p_, a)]})
            continue
        res.distinct.add(("two", repr(sc)))
        for name, other in (("pathio", p_), ("async", a)):
            if other != m:
                k = next((j for j, (x, y) in enumerate(zip(m[0], other[0])) if x != y), None)
                what = ("step %d %r: memory %r, %s %r" % (k, m[0][k][:2], m[0][k][2:], name, other[0][k][2:])) if k is not None else "the trees differ afterwards"
                res.oracle_failures.append({"input": inp, "what": "two sessions on one tree, the same script: " + what, "signature": "C18:two-sessions:backends-differ"})
                break
    _mid_transfers(ctx, res)
    _late_across_backends(ctx, res)
    return res


def _run(ctx, compare=True, extra_ftp=(), extra_api=()):
    hist = [("prior", h) for h in extra_ftp] + gen_histories(ctx)
    res = _ftp(ctx, hist, compare)
    seqs = list(extra_api) + gen_api(ctx)
    res.merge(_api(ctx, seqs, gen_api_interleaved(ctx), compare))
    res.merge(_two_sessions(ctx))
    res.merge(_mem_handles(ctx, compare))
    res.samples = [
        {"level": "ftp", "commands": PREFIX + hist[len(hist) // 2][1]},
        {"level": "ftp", "commands": PREFIX + hist[-1][1]},
        {"level": "api", "tree": seqs[0][0], "ops": seqs[0][1]},
        {"level": "api", "tree": seqs[-1][0], "ops": seqs[-1][1]},
    ]
    return res


def correspondence(ctx):
    return _run(ctx)


def search(ctx, prior):
    extra_ftp, extra_api = [], []
    for d in prior.disagreements:
        i = d.get("input")
        if isinstance(i, list) and i and all(isinstance(x, str) for x in i):
            extra_ftp.append(i)
        elif isinstance(i, dict) and "ops" in i:
            extra_api.append((i["tree"], [tuple(tuple(x) if isinstance(x, list) else x for x in o) for o in i["ops"]]))
    return _run(ctx, compare=False, extra_ftp=extra_ftp, extra_api=extra_api)


def _norm_ops(ops):
    out = []
    for o in ops:
        o = list(o)
        if o[0] in ("exists", "is_dir", "is_file", "mkdir", "rmdir", "unlink", "stat", "list"):
            o[1] = tuple(o[1])
        elif o[0] == "rename":
            o[1], o[2] = tuple(o[1]), tuple(o[2])
        elif o[0] == "file":
            o[1] = tuple(o[1])
            o[4] = tuple(o[4])
        elif o[0] == "open":
            o[2] = tuple(o[2])
        out.append(tuple(o))
    return out


def _replay_two(inp):
    sc = [tuple(x) for x in inp["script"]]
    outs = [_two_job((b, sc)) for b in ("memory", "pathio", "async")]
    for b, o in zip(("memory", "pathio", "async"), outs):
        print(b, o if isinstance(o, str) else [x[2:] for x in o[0]])
    return any(isinstance(o, str) for o in outs) or outs[0] != outs[1] or outs[0] != outs[2]


def replay(ctx, doc):
    if doc["failure"]["input"].get("level") == "ftp-two-sessions":
        return _replay_two(doc["failure"]["input"])
    if doc["failure"]["input"].get("level") == "ftp-late":
        r = Result()
        _late_across_backends(ctx, r)
        hit = [f for f in r.oracle_failures if f["input"] == doc["failure"]["input"]]
        for f in hit:
            print(f["what"])
        return bool(hit)
    if doc["failure"]["input"].get("level") == "memory-handles":
        i = doc["failure"]["input"]
        out = _memh_impl(i["content"], [tuple(e) for e in i["events"]])
        print("MemoryPathIO:", out)
        bad = out.startswith("EXC:")
        for tok in ([] if bad else out.split("|")):
            got, done, start, pos = tok.split(":")
            bad = bad or (done == "1" and got != (bytes(i["content"])[int(start) :].hex() or "-"))
        return bad
    if doc["failure"]["input"].get("level") == "ftp-mid-transfer":
        i = doc["failure"]["input"]
        outs = [_mid_job((b, i["transfer"], i["other_session"])) for b in ("memory", "pathio", "async")]
        for b, o in zip(("memory", "pathio", "async"), outs):
            print(b, o if isinstance(o, str) else {k: v for k, v in o.items() if k != "tree"})
        return any(isinstance(o, str) for o in outs) or outs[0] != outs[1] or outs[0] != outs[2]
    f = doc["failure"]
    i = f["input"]
    if i.get("level") == "api":
        ops = _norm_ops(i["ops"])
        handles = any(o[0] in ("open", "seek", "read", "write", "close") for o in ops)
        backends = ("pathio", "async") if handles else ("memory", "pathio", "async")
        outs = run_api([(i["tree"], ops)], backends=backends)[0]
        for j, o in enumerate(ops):
            print(o)
            for b in backends:
                print("   %-7s %s" % (b, outs[b][j] if not isinstance(outs[b], str) else outs[b]))
        if handles:
            outs = {"memory": None, "pathio": outs["pathio"], "async": outs["async"]}
        fs = api_oracle(i["tree"], ops, outs)
    else:
        cmds = i["commands"]
        fs, runs = ftp_failures(cmds)
        for j, lab in enumerate(labels(cmds)):
            print(repr(lab))
            for b in ("memory", "pathio", "async"):
                s = runs[b][j] if not isinstance(runs[b], str) and j < len(runs[b]) else runs[b]
                print("   %-7s %s" % (b, (s["replies"], s["out"], s["listing"], s["fs"]) if isinstance(s, dict) else s))
    for x in fs:
        print(x["signature"], "-", x["what"])
    return any(x["signature"] == f["signature"] for x in fs)


def probe_known(ctx, finding):
    cmds = finding["replay"]["commands"]
    fs, _ = ftp_failures(cmds)
    return any(x["signature"] == finding["signature"] for x in fs)


# the long-lived process: a Server object with a past run (props/history.py)
from props import history as _history  # noqa: E402

correspondence, search, replay = _history.attach(PID, correspondence, search, replay, pasts=[])


# somebody else's classes: the documented extension points used the way a third party uses them (props/thirdparty.py)
from props import thirdparty as _thirdparty  # noqa: E402

correspondence, search, replay = _thirdparty.attach(PID, correspondence, search, replay)


# somebody else's machine: the same small sessions in other environments, in child processes (props/envs.py)
from props import envs as _envs  # noqa: E402

correspondence, search, replay = _envs.attach(PID, correspondence, search, replay)
