"""C07, a process whose LC_TIME is not English while the other categories are "C" (an application that called
`locale.setlocale(locale.LC_TIME, ...)` for its own dates): the ls-style dates the server formats and the client parses
are the wire format - English month abbreviations - whatever the process's locale, and the locale is put back afterwards.

Runs in a child process (the locale is process-global; LOCPATH must be set before the first setlocale).  When no locale
with non-English month names is installed, a tiny one is compiled with `localedef` into a temporary directory; if that
is not possible either the family reports itself as skipped (counted, never a failure)."""
import json
import os
import subprocess
import sys
import tempfile

from framework import Result

CHILD = r'''
import calendar, datetime, json, locale, os, pathlib, subprocess, sys, time
ENGLISH = ["Jan","Feb","Mar","Apr","May","Jun","Jul","Aug","Sep","Oct","Nov","Dec"]
SRC = """comment_char %
escape_char /
LC_TIME
abday "So";"Mo";"Di";"Mi";"Do";"Fr";"Sa"
day "Sonntag";"Montag";"Dienstag";"Mittwoch";"Donnerstag";"Freitag";"Samstag"
abmon "Jnr";"Fbr";"Mrz";"Apl";"Mai";"Jni";"Jli";"Agt";"Spt";"Okt";"Nvb";"Dez"
mon "Januar";"Februar";"Maerz";"April";"Mai";"Juni";"Juli";"August";"September";"Oktober";"November";"Dezember"
d_t_fmt "%a %d %b %Y %T %Z"
d_fmt "%d.%m.%Y"
t_fmt "%T"
am_pm "";""
t_fmt_ampm ""
END LC_TIME
"""
work = pathlib.Path(sys.argv[1])
def localised():
    return time.strftime("%b", (2024, 3, 15, 0, 0, 0, 4, 75, 0)) != "Mar"
name = None
for cand in ("de_DE.UTF-8", "de_DE.utf8", "fr_FR.UTF-8", "ru_RU.UTF-8", "es_ES.UTF-8"):
    try:
        locale.setlocale(locale.LC_TIME, cand)
    except locale.Error:
        continue
    if localised():
        name = cand
        break
if name is None:
    cm = ["<code_set_name> ASCII", "<comment_char> %", "<escape_char> /", "<mb_cur_min> 1", "<mb_cur_max> 1", "CHARMAP"]
    cm += ["<U%04X> /x%02x c%d" % (i, i, i) for i in range(128)] + ["END CHARMAP", ""]
    (work / "ASCII").write_text("\n".join(cm))
    (work / "lc_time.src").write_text(SRC)
    subprocess.run(["localedef", "--no-archive", "-c", "-f", str(work / "ASCII"), "-i", str(work / "lc_time.src"), str(work / "xx_DE.ASCII")],
                   stdout=subprocess.DEVNULL, stderr=subprocess.DEVNULL)
    os.environ["LOCPATH"] = str(work)
    try:
        locale.setlocale(locale.LC_TIME, "xx_DE.ASCII")
        if localised():
            name = "xx_DE.ASCII"
    except locale.Error:
        pass
if name is None:
    print(json.dumps({"skipped": "no locale with non-English month names could be had"}))
    sys.exit(0)
import aioftp
fails, n = [], 0
before = locale.setlocale(locale.LC_TIME)
now = calendar.timegm((2024, 12, 20, 12, 0, 0))
for month in range(1, 13):
    for year in (2024, 2019):
        ts = time.mktime((year, month, 15, 10, 30, 0, 0, 0, -1))
        n += 1
        s = aioftp.Server.build_list_mtime(ts, now)
        if s[:3] != ENGLISH[month - 1]:
            fails.append("Server.build_list_mtime for %04d-%02d-15 under LC_TIME=%s gives %r: the month is not the wire format's %r" % (year, month, name, s, ENGLISH[month - 1]))
        for text in ("%s 15  %d" % (ENGLISH[month - 1], year), "%s 15 10:30" % ENGLISH[month - 1]):
            n += 1
            try:
                aioftp.Client.parse_ls_date(text, now=datetime.datetime(2024, 12, 20, 12, 0, 0))
            except Exception as e:
                fails.append("Client.parse_ls_date(%r) under LC_TIME=%s raised %s" % (text, name, type(e).__name__))
after = locale.setlocale(locale.LC_TIME)
if after != before:
    fails.append("LC_TIME of the process was %r before the calls and is %r after them" % (before, after))
# two listings of one server under way at the same time (a backend that really suspends): every line of both carries the
# wire format's month, and the process keeps its locale
import asyncio, tempfile, shutil
async def overlap():
    d = tempfile.mkdtemp(prefix="aioftp-verif-lc-")
    try:
        stamp = time.mktime((2023, 10, 15, 10, 30, 0, 0, 0, -1))
        for sub, k in (("a", 120), ("b", 1500)):
            os.mkdir(os.path.join(d, sub))
            for i in range(k):
                fn = os.path.join(d, sub, "f%04d" % i)
                open(fn, "wb").close()
                os.utime(fn, (stamp, stamp))
        server = aioftp.Server([aioftp.User(base_path=d)], path_io_factory=aioftp.AsyncPathIO)
        await server.start("127.0.0.1", 0)
        port = server.server.sockets[0].getsockname()[1]
        async def session(sub):
            r, w = await asyncio.open_connection("127.0.0.1", port)
            async def reply():
                while True:
                    line = await asyncio.wait_for(r.readline(), 20)
                    if not line or (line[:3].isdigit() and line[3:4] == b" "):
                        return line
            await reply()
            w.write(b"USER anonymous\r\n"); await reply()
            w.write(b"EPSV\r\n"); l = await reply()
            dport = int(l.decode().split("|")[-2])
            dr, dw = await asyncio.open_connection("127.0.0.1", dport)
            w.write(("LIST " + sub + "\r\n").encode()); await reply()
            data = await asyncio.wait_for(dr.read(), 60)
            await reply()
            dw.close(); w.close()
            return data.decode("utf-8", "replace").splitlines()
        try:
            la, lb = await asyncio.gather(session("a"), session("b"))
        finally:
            await server.close()
        wrong = [l for l in la + lb if " Oct 15  2023 " not in l]
        return len(la), len(lb), wrong
    finally:
        shutil.rmtree(d, ignore_errors=True)
try:
    na, nb, wrong = asyncio.run(overlap())
    n += na + nb
    if (na, nb) != (120, 1500) or wrong:
        fails.append("two LIST transfers of one server under way at the same time under LC_TIME=%s: %d + %d lines (want 120 + 1500), %d of them do not carry the wire format's date 'Oct 15  2023', e.g. %r" % (name, na, nb, len(wrong), (wrong or [""])[0][-40:]))
    after2 = locale.setlocale(locale.LC_TIME)
    if after2 != before:
        fails.append("LC_TIME of the process was %r before the overlapping listings and is %r after them" % (before, after2))
except Exception as e:
    fails.append("overlapping listings under LC_TIME=%s: %s: %s" % (name, type(e).__name__, e))
print(json.dumps({"locale": name, "cases": n, "fails": fails[:10], "nfails": len(fails)}))
'''


def run(ctx, pid="C07"):
    res = Result()
    src = os.path.join(os.environ.get("AIOFTP_REPO", "/repo"), "src")
    with tempfile.TemporaryDirectory() as d:
        env = dict(os.environ, PYTHONPATH=src, LC_ALL="", LANG="C")
        env.pop("LC_ALL", None)
        try:
            p = subprocess.run([sys.executable, "-c", CHILD, d], capture_output=True, text=True, timeout=120, env=env)
            out = json.loads(p.stdout.strip().splitlines()[-1])
        except Exception as e:  # noqa
            res.disagreements.append({"correspondence": "C07 locale harness", "input": "child process", "impl": "%s: %s" % (type(e).__name__, str(e)[:300])})
            return res
    if "skipped" in out:
        res.count("foreign_lc_time:skipped")
        res.notes.append("foreign LC_TIME family skipped: " + out["skipped"])
        return res
    res.cases += out["cases"]
    res.count("foreign_lc_time:" + out["locale"], out["cases"])
    res.distinct.add(("foreign-lc-time", out["locale"]))
    for f in out["fails"][:3]:
        res.oracle_failures.append({"input": {"kind": "foreign-lc-time", "locale": out["locale"]}, "what": f, "signature": "%s:ls-date-follows-the-process-locale" % pid})
    return res


def replay(inp):
    class _C:
        pass

    r = run(_C())
    for f in r.oracle_failures:
        print(f["what"])
    return bool(r.oracle_failures)
